#![no_main]
use libfuzzer_sys::fuzz_target;

fuzz_target!(|data: &[u8]| {
    vharness::fuzz::run("C04", data);
});
