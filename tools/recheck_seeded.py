#!/usr/bin/env python3
"""Re-run the checks against kept seeded changes (after strengthening).
usage: recheck_seeded.py <seeded-dir-name>... | --all [prefix]
For each /verif/seeded/<name>/: apply patch.diff to /repo, run ./check <property> quick (thorough if missed, without the
fuzz tier unless SEEDED_FUZZ=1), plus any checks named in meta.extra_checks, undo the patch, store the result in
meta.json under "checks" (earlier results are kept under "checks_before_strengthening")."""
import json, os, subprocess, sys, time
names = sys.argv[1:]
if names and names[0] == "--all":
    pref = names[1] if len(names) > 1 else ""
    names = sorted(n for n in os.listdir("/verif/seeded") if os.path.isdir(f"/verif/seeded/{n}") and pref in n)
for name in names:
    d = f"/verif/seeded/{name}"
    meta = json.load(open(f"{d}/meta.json"))
    pid = meta["property"]
    st = subprocess.run(['git','-C','/repo','status','--porcelain','--untracked-files=no'],capture_output=True,text=True).stdout.strip()
    if st: print("refusing: /repo dirty"); sys.exit(3)
    r = subprocess.run(['git','-C','/repo','apply',f'{d}/patch.diff'],capture_output=True,text=True)
    if r.returncode:
        # the tree moved on (later fix commits in the same file): fall back to a three-way merge of the patch
        r = subprocess.run(['git','-C','/repo','apply','--3way',f'{d}/patch.diff'],capture_output=True,text=True)
        if r.returncode or 'conflicts' in r.stderr:
            print(name, "patch does not apply:", r.stderr[-300:]); subprocess.run(['git','-C','/repo','checkout','HEAD','--','.']); continue
    results = {}
    try:
        for cid in [pid] + meta.get("extra_checks", []):
            for tier in ["quick", "thorough"]:
                t = time.time()
                env = dict(os.environ)
                if not os.environ.get("SEEDED_FUZZ"): env["VERIF_NO_FUZZ"] = "1"
                r = subprocess.run(['/verif/check', cid, tier], capture_output=True, text=True, env=env)
                sigs = [l.strip() for l in r.stdout.splitlines() if 'signature=' in l]
                verdict = {0:'missed',1:'caught'}.get(r.returncode, f'broken(exit {r.returncode})')
                results[f"{cid} {tier}"] = {"verdict": verdict, "seconds": round(time.time()-t), "signatures": sigs[:3]}
                print(f"{name}  {cid} {tier}: {verdict} in {time.time()-t:.0f}s {sigs[:1]}", flush=True)
                if r.returncode not in (0,1): print(r.stderr[-600:])
                if r.returncode == 1: break
    finally:
        subprocess.run(['git','-C','/repo','checkout','HEAD','--','.'])
    if "checks" in meta and "checks_before_strengthening" not in meta and any(v["verdict"]!="caught" for v in meta["checks"].values()):
        meta["checks_before_strengthening"] = meta["checks"]
    meta["checks"] = results
    json.dump(meta, open(f"{d}/meta.json","w"), indent=1)
