#!/usr/bin/env python3
"""Confirm an independently written mutant and run the checks against it.
usage: seeded.py <ID> <k> <worktree> [extra check ids...]
 1. in <worktree> (clean HEAD): apply MUTANT/<k>/patch.diff, run the crate's suite (must pass), run the demo (must fail);
    revert; run the demo (must pass)
 2. copy patch.diff, demo.rs, meta.json to /verif/seeded/<ID>-<k>/ with the confirmation record
 3. apply the patch to /repo, run ./check <ID> quick (then thorough if missed), revert /repo"""
import json, os, shutil, subprocess, sys, time
pid, k, wt = sys.argv[1], sys.argv[2], sys.argv[3]
extra = sys.argv[4:]
src = f"{wt}/MUTANT/{k}"
env = dict(os.environ, CARGO_NET_OFFLINE="true")
wt_prefix = os.environ.get("SEEDED_PREFIX", "")
def sh(cmd, cwd):
    r = subprocess.run(cmd, shell=True, cwd=cwd, capture_output=True, text=True, env=env)
    return r.returncode, (r.stdout + r.stderr)
meta = json.load(open(f"{src}/meta.json"))
feat = "--features mahf_verif" if "mahf_verif" in json.dumps(meta) and "features" in meta.get("demo_command","") else ""
# SEEDED_CONFIRM_ONLY=1: stop after step 1 (worktree only, so several can run in parallel) and leave confirm.json beside the
# mutant; SEEDED_SKIP_CONFIRM=1: take step 1 from that file and do steps 2-3 (serial, they use /repo)
out_suite = out1 = out2 = ""
if os.environ.get("SEEDED_SKIP_CONFIRM"):
    c = json.load(open(f"{src}/confirm.json")); suite_ok, demo_fails, demo_passes = c["suite_ok"], c["demo_fails"], c["demo_passes"]
else:
    sh("git checkout -- . && rm -f tests/demo.rs", wt)
    rc, out = sh(f"git apply {src}/patch.diff", wt)
    if rc: print("patch does not apply:", out); sys.exit(1)
    os.makedirs(f"{wt}/tests", exist_ok=True)
    rc_suite, out_suite = sh("cargo test --offline 2>&1 | grep -E 'test result|FAILED|^error' ", wt)
    suite_ok = "FAILED" not in out_suite and "error" not in out_suite and out_suite.count("test result: ok") >= 2
    shutil.copy(f"{src}/demo.rs", f"{wt}/tests/demo.rs")
    rc_demo_mut, out1 = sh(f"cargo test --offline {feat} --test demo 2>&1 | tail -5", wt)
    demo_fails = "test result: FAILED" in out1 or "panicked" in out1 or "error: test failed" in out1
    sh("git checkout -- src", wt)
    rc_demo_clean, out2 = sh(f"cargo test --offline {feat} --test demo 2>&1 | tail -5", wt)
    demo_passes = "test result: ok" in out2 and "FAILED" not in out2
    sh("rm -f tests/demo.rs; git checkout -- .", wt)
    json.dump({"suite_ok": suite_ok, "demo_fails": demo_fails, "demo_passes": demo_passes}, open(f"{src}/confirm.json", "w"))
print(f"{pid}-{k}: suite_passes_with_mutant={suite_ok} demo_fails_with_mutant={demo_fails} demo_passes_without={demo_passes}")
if not (suite_ok and demo_fails and demo_passes):
    print(out_suite[-600:], out1[-600:], out2[-600:]); sys.exit(1)
if os.environ.get("SEEDED_CONFIRM_ONLY"): sys.exit(0)
# run my checks
st = subprocess.run(['git','-C','/repo','status','--porcelain','--untracked-files=no'],capture_output=True,text=True).stdout.strip()
if st: print("refusing: /repo dirty"); sys.exit(3)
rc, out = sh(f"git -C /repo apply {src}/patch.diff", "/repo")
if rc: print("patch does not apply to /repo:", out); sys.exit(1)
results = {}
try:
    for cid in [pid] + extra:
        for tier in (["quick"] if os.environ.get("SEEDED_QUICK_ONLY") else ["quick", "thorough"]):
            t = time.time()
            r = subprocess.run(['/verif/check', cid, tier], capture_output=True, text=True, env=dict(os.environ, VERIF_NO_FUZZ='1') if os.environ.get('SEEDED_NO_FUZZ') else None)
            sigs = [l.strip() for l in r.stdout.splitlines() if 'signature=' in l]
            verdict = {0:'missed',1:'caught'}.get(r.returncode, f'broken(exit {r.returncode})')
            results[f"{cid} {tier}"] = {"verdict": verdict, "seconds": round(time.time()-t), "signatures": sigs[:3]}
            print(f"  {cid} {tier}: {verdict} in {time.time()-t:.0f}s {sigs[:2]}")
            if r.returncode not in (0,1): print(r.stderr[-800:])
            if r.returncode == 1: break
finally:
    subprocess.run(['git','-C','/repo','checkout','--','.'])
dst = f"/verif/seeded/{pid}-{wt_prefix}{k}"
os.makedirs(dst, exist_ok=True)
for f in ["patch.diff","demo.rs"]: shutil.copy(f"{src}/{f}", dst)
meta["confirmed_by_me"] = {"suite_passes_with_mutant": suite_ok, "demo_fails_with_mutant": demo_fails, "demo_passes_without": demo_passes,
  "what_i_ran": "in a scratch worktree: git apply patch.diff; cargo test --offline (51 unit + doc tests pass); cp demo.rs tests/demo.rs; cargo test --offline --test demo (fails); git checkout -- src; cargo test --offline --test demo (passes)"}
meta["checks"] = results
json.dump(meta, open(f"{dst}/meta.json","w"), indent=1)
