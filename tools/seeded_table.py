#!/usr/bin/env python3
"""Prints the markdown table of seeded changes from /verif/seeded/*/meta.json."""
import json, glob, os
rows=[]
for d in sorted(glob.glob('/verif/seeded/*')):
    m=json.load(open(d+'/meta.json'))
    name=os.path.basename(d)
    res=[]
    for k,v in m.get('checks',{}).items():
        res.append(f"{k}: {v['verdict']} ({v['seconds']} s)")
    sigs=[s.split('signature=')[-1] for v in m.get('checks',{}).values() for s in v.get('signatures',[])][:2]
    rows.append(f"| {name} | {m.get('summary','').replace('|','/')} | {m.get('needs_to_manifest','').replace('|','/')[:220]} | {'; '.join(res)} | {'; '.join(sigs)[:160]} |")
print("| change | what was changed | what it needs to manifest | result | reported as |\n|---|---|---|---|---|")
print("\n".join(rows))
