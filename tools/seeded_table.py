#!/usr/bin/env python3
"""Prints the markdown table of seeded changes from /verif/seeded/*/meta.json.
usage: seeded_table.py [substring]   (e.g. -r2- for the second round; rows whose name contains it)"""
import json, glob, os, sys
flt = sys.argv[1] if len(sys.argv) > 1 else None
rows=[]
for d in sorted(glob.glob('/verif/seeded/*')):
    name=os.path.basename(d)
    if flt is not None and flt not in name: continue
    if flt is None and '-r' in name: continue
    m=json.load(open(d+'/meta.json'))
    res=[]
    for k,v in m.get('checks',{}).items():
        res.append(f"{k}: {v['verdict']} ({v['seconds']} s)")
    before=m.get('checks_before_strengthening')
    b=''
    if before is not None:
        b='; '.join(f"{k}: {v['verdict']}" for k,v in before.items())
    sigs=[s.split('signature=')[-1] for v in m.get('checks',{}).values() for s in v.get('signatures',[])][:2]
    cols=[name, m.get('summary','').replace('|','/'), m.get('needs_to_manifest','').replace('|','/')[:220]]
    if flt is not None: cols.append(b or 'caught')
    cols += ['; '.join(res), '; '.join(sigs)[:160]]
    rows.append('| '+' | '.join(cols)+' |')
if flt is None:
    print("| change | what was changed | what it needs to manifest | result | reported as |\n|---|---|---|---|---|")
else:
    print("| change | what was changed | what it needs to manifest | as first run | after strengthening | reported as |\n|---|---|---|---|---|---|")
print("\n".join(rows))
