#!/usr/bin/env bash
# usage: fuzz_tier.sh <ID> <seed>   — libFuzzer campaign of the thorough tier (C01-C04, C13)
# Builds the target against /repo's working tree, runs a fixed number of executions from a fresh copy of the
# seed corpus, converts every artifact into a JSON replay (prints VIOLATION lines) and writes /verif/out/fuzz/<ID>.json.
# exit 0: no violation (or campaign inconclusive), 1: violation.
set -u
ID="$1"; SEED="${2:-0}"
case "$ID" in
  C01) T=c01_registry; RUNS=150000; MAXLEN=300;;
  C02) T=c02_borrows;  RUNS=250000; MAXLEN=240;;
  C03) T=c03_config;   RUNS=400000; MAXLEN=160;;
  C04) T=c04_stack;    RUNS=60000;  MAXLEN=256;;
  C13) T=c13_helpers;  RUNS=5000000; MAXLEN=80;;
  *) exit 0;;
esac
[ "$SEED" = "0" ] && LSEED=1 || LSEED="$SEED"     # libFuzzer: 0 means random
OUT=/verif/out/fuzz; mkdir -p "$OUT"
WORK=/verif/target/fuzz-work/$ID; rm -rf "$WORK"; mkdir -p "$WORK/corpus" "$WORK/artifacts"
cp /verif/corpus/$T/* "$WORK/corpus/" 2>/dev/null
export CARGO_NET_OFFLINE=true
START=$(date +%s)
cd /verif/harness
if ! cargo +nightly fuzz build --fuzz-dir ../fuzz "$T" >"$WORK/build.log" 2>&1; then
  echo "fuzz build failed (campaign inconclusive):" >&2; tail -5 "$WORK/build.log" >&2
  echo "{\"target\":\"$T\",\"status\":\"build-failed\"}" > "$OUT/$ID.json"; exit 0
fi
BIN=/verif/target/x86_64-unknown-linux-gnu/release/$T
timeout 2400 "$BIN" "$WORK/corpus" -artifact_prefix="$WORK/artifacts/" -runs=$RUNS -seed=$LSEED -len_control=0 -max_len=$MAXLEN -rss_limit_mb=4096 -print_final_stats=1 >"$WORK/run.log" 2>&1
RC=$?
EXECS=$(grep -o 'stat::number_of_executed_units: *[0-9]*' "$WORK/run.log" | grep -o '[0-9]*$' | tail -1)
NEW=$(grep -o 'stat::new_units_added: *[0-9]*' "$WORK/run.log" | grep -o '[0-9]*$' | tail -1)
COV=$(grep -o 'cov: [0-9]*' "$WORK/run.log" | tail -1 | grep -o '[0-9]*')
END=$(date +%s)
VIOL=0; ARTS=()
for a in "$WORK"/artifacts/*; do
  [ -f "$a" ] || continue
  ARTS+=("$(basename "$a")")
  case "$(basename "$a")" in oom-*|timeout-*|slow-unit-*) continue;; esac
  if /verif/target/debug/vcheck "$ID" --from-bytes "$a"; then :; else VIOL=1; fi
done
STATUS=completed; [ $RC -eq 124 ] && STATUS=time-budget-hit
printf '{"target":"%s","status":"%s","engine":"libFuzzer (cargo-fuzz, ASan, debug assertions)","runs_requested":%s,"executions":%s,"new_corpus_units":%s,"coverage_edges":%s,"seed":%s,"max_len":%s,"artifacts":%s,"wall_s":%s}\n' \
  "$T" "$STATUS" "$RUNS" "${EXECS:-0}" "${NEW:-0}" "${COV:-0}" "$LSEED" "$MAXLEN" "$(printf '%s\n' "${ARTS[@]:-}" | python3 -c 'import sys,json;print(json.dumps([l.strip() for l in sys.stdin if l.strip()]))')" "$((END-START))" > "$OUT/$ID.json"
rm -rf "$WORK/corpus"
exit $VIOL
