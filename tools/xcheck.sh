#!/bin/bash
# usage: tools/xcheck.sh <seeded-name> <check ids...>  - applies a kept seeded patch to /repo, runs the quick checks, reverts /repo
name=$1; shift
git -C /repo apply /verif/seeded/$name/patch.diff || exit 1
for c in "$@"; do
  out=$(/verif/check $c quick 2>&1 | grep -E "signature|^$c quick" | head -2 | cut -c1-200)
  echo "$name x $c: $out"
done
git -C /repo checkout -- .
