#!/usr/bin/env python3
"""Generates /verif/MANIFEST.json from the table below (kept in one place so it stays valid)."""
import json, sys

FIX = "fixes" # placeholder
CHECKS = {
 # id: (category, technique, text, note, design_ref)
}
exec(open('/verif/tools/manifest_table.py').read())

props = [json.loads(l) for l in open('/verif/properties.jsonl')]
checks = []
na = []
for p in props:
    pid = p['id']
    if pid in CHECKS:
        c = CHECKS[pid]
        checks.append({
            "property_id": pid,
            "quick_cmd": f"./check {pid} quick",
            "thorough_cmd": f"./check {pid} thorough",
            "evidence_file": f"/verif/evidence/{pid}.json",
            "replay_cmd_template": f"./check {pid} --replay {{path}}",
            "engine": "vharness",
            "level_claimed": {"category": c[0], "text": c[2], "design_ref": c[4]},
            "level_note": c[3],
            "technique": c[1],
        })
    else:
        na.append({"property_id": pid, "reason": NOT_YET.get(pid, "check not built yet in this session; design in DESIGN.md §6")})
m = {
 "version": 1,
 "setup_cmd": "cd /verif/harness && CARGO_NET_OFFLINE=true cargo build --bin vcheck",
 "hooks": {
   "guard": "cargo feature mahf_verif",
   "enable": "the harness depends on mahf = { path = \"/repo\", features = [\"mahf_verif\"] }; every ./check rebuilds from /repo's working tree",
   "baseline_off_cmd": "cd /repo && cargo test --workspace --no-fail-fast --offline",
   "source_commits": HOOK_COMMITS,
   "add_only": True,
 },
 "engines": [
   {"name": "vharness", "path": "/verif/harness", "serves_properties": sorted(CHECKS.keys()),
    "kind_free_text": "Rust harness (lib + bin vcheck): bounded-exhaustive enumerators and proptest-driven generators with shrinking against explicit oracles/reference models; replay files; known-findings matching; evidence writer"},
 ] + EXTRA_ENGINES,
 "checks": checks,
 "notes": NOTES,
 "not_applicable": na,
}
json.dump(m, open('/verif/MANIFEST.json','w'), indent=1)
print("checks:", len(checks), "not_applicable:", len(na))
