#!/usr/bin/env python3
"""Sensitivity probe: apply a textual mutation to /repo, run checks, revert.
usage: mut.py <ID[,ID..]> <file-relative-to-/repo> <old> <new> [tier]
Prints one line per check: CAUGHT / MISSED / BROKEN(exit 2)."""
import subprocess, sys, time
ids, path, old, new = sys.argv[1].split(','), sys.argv[2], sys.argv[3], sys.argv[4]
tier = sys.argv[5] if len(sys.argv) > 5 else 'quick'
p = '/repo/' + path
s = open(p).read()
if s.count(old) != 1:
    print(f"pattern occurs {s.count(old)} times in {path}; need exactly 1"); sys.exit(3)
st = subprocess.run(['git','-C','/repo','status','--porcelain','--untracked-files=no'],capture_output=True,text=True).stdout.strip()
if st:
    print("refusing: /repo has uncommitted changes:\n"+st); sys.exit(3)
open(p,'w').write(s.replace(old,new))
try:
    for i in ids:
        t=time.time()
        r = subprocess.run(['/verif/check', i, tier], capture_output=True, text=True)
        viol = [l for l in r.stdout.splitlines() if l.startswith('VIOLATION')]
        sigs = [l.strip() for l in r.stdout.splitlines() if 'signature=' in l]
        verdict = {0:'MISSED',1:'CAUGHT'}.get(r.returncode, f'BROKEN(exit {r.returncode})')
        print(f"{i} {tier}: {verdict} in {time.time()-t:.0f}s {sigs[:2]}")
        if r.returncode not in (0,1):
            print(r.stderr[-1500:])
finally:
    subprocess.run(['git','-C','/repo','checkout','--','.'])
