HOOK_COMMITS = ["ccb111a", "a250b52"]
EXTRA_ENGINES = []
NOT_YET = {}
NOTES = "All checks: ./check <ID> <quick|thorough>; exit 0 held / 1 VIOLATION line / 2 infrastructure (build failure, watchdog). VERIF_SEED seeds every generator. Known findings: /verif/known_findings.json (read-only at run time). New replay files are written to /verif/out/replays/, committed regression cases live in /verif/replays/ and are re-run first in every tier."
CHECKS["C04"] = ("exploration",
  "model-based testing: bounded-exhaustive + proptest histories of stack operations against a Vec<Vec<_>> model",
  "Every history of stack operations up to the length bound over a 17-operation alphabet is executed against the real Populations (inside a State, including the utility components) and a plain Vec<Vec<_>> model in lock-step, with every read accessor probed after every step; long random histories with shrinking extend this beyond the bound. Absence beyond the explored histories is not established.",
  "Trusts the harness model (Vec<Vec<(tag, objective)>>) and the tag-in-coordinate-0 identification of individuals; rotate(0) and rotate(n > height) are outside the stated domain.",
  "DESIGN.md §6 C04")
