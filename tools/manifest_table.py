HOOK_COMMITS = ["ccb111a", "a250b52"]
EXTRA_ENGINES = []
NOT_YET = {}
NOTES = "All checks: ./check <ID> <quick|thorough>; exit 0 held / 1 VIOLATION line / 2 infrastructure (build failure, watchdog). VERIF_SEED seeds every generator. Known findings: /verif/known_findings.json (read-only at run time). New replay files are written to /verif/out/replays/, committed regression cases live in /verif/replays/ and are re-run first in every tier."
CHECKS["C04"] = ("exploration",
  "model-based testing: bounded-exhaustive + proptest histories of stack operations against a Vec<Vec<_>> model",
  "Every history of stack operations up to the length bound over a 17-operation alphabet is executed against the real Populations (inside a State, including the utility components) and a plain Vec<Vec<_>> model in lock-step, with every read accessor probed after every step; long random histories with shrinking extend this beyond the bound. Absence beyond the explored histories is not established.",
  "Trusts the harness model (Vec<Vec<(tag, objective)>>) and the tag-in-coordinate-0 identification of individuals; rotate(0) and rotate(n > height) are outside the stated domain.",
  "DESIGN.md §6 C04")
CHECKS["C01"] = ("exploration",
  "model-based testing: bounded-exhaustive + proptest operation histories against a stack-of-maps reference model",
  "All operation histories up to length 4 over a 26-operation alphabet (and up to length 6 over a reduced one in the thorough tier) plus long random histories with nested with_inner_state sub-histories are executed against the real registry and a Vec<BTreeMap> model in lock-step; after every step every type is probed at every scope level. A counterexample is shrunk to a minimal history. Absence beyond the explored histories is not established.",
  "Trusts the reference model; type universe = 4 harness types with integer payload; borrow-conflict behaviour is C02's subject and not exercised here.",
  "DESIGN.md §6 C01")
CHECKS["C02"] = ("exploration",
  "model-based testing: exhaustive + proptest guard histories against a readers/writer automaton per (type, scope) cell; exhaustive generated tuple instantiations for the multi-borrow; nested holding histories against the C01 model with injected failures",
  "Guard histories (acquire/release/read/write incl. panicking accessors, through &State and parent scopes) are enumerated exhaustively to a length bound on a shadowing layout and generated randomly over layouts; every request's grant/refusal and error kind is compared with a per-cell readers/writer automaton and every read with the last written value. try_get_multiple_mut is instantiated for all 117 tuples of arity 2-4 over 3 types and ~250 structured tuples of arity 5-8 over 8 types, each run against several registry layouts: duplicates/missing must err, otherwise references must be pairwise distinct, resolve to the innermost instance and writes must land only there. holding is exercised in nestings up to depth 3 (and deeper randomly) with registry sub-histories as bodies and failures injected at every level.",
  "Aliasing that neither yields equal addresses nor misdirected writes is only visible to the ASan-instrumented fuzz target (thorough tier); soundness of the unsafe block for types outside the universe is not proven. A holding body never inserts the held type itself.",
  "DESIGN.md §6 C02")
CHECKS["C03"] = ("fault_enumeration",
  "bounded-exhaustive + proptest configuration trees with scripted conditions and every single fault-injection point, against a reference interpreter; builder vs direct-constructor vs clone differential",
  "Every tree up to the node bound, with every script assignment and every single fault point (the k-th lifecycle event fails, whatever its phase) is run through Configuration::run and compared with an independent reference interpreter on the complete init/require/execute/evaluate trace, the returned error, the registry depth and every caller-visible state (markers incl. shadowed ones, counter, Iterations). Larger random trees with shrinking extend this beyond the bound.",
  "Trusts the reference interpreter (about 150 lines) and the thread-local tracing components; only single faults are injected; conditions are scripted leaf conditions (And/Or/Not are C10's subject).",
  "DESIGN.md §6 C03")
CHECKS["C09"] = ("exploration",
  "exhaustive special-value grid (all triples) + proptest random bit patterns against numeric-order, algebraic-law and Pareto-dominance oracles",
  "All triples over a 26-value grid of special floats (zeros, subnormals, extremes, infinities, four NaN payloads) and random bit patterns are pushed through construction, every comparison operator, sort/min/max and every arithmetic operator; vectors up to length 2 (3 thorough) over a 9-value grid through both multi-objective constructors and the partial order, compared with an independent Pareto reference. The operator non-closure is a listed known finding (8 signatures, each only for the raw IEEE result).",
  "Scalars for * and / are finite. Known findings C09 <Op> yields NaN/-inf are suppressed only when the result equals the plain f64 arithmetic result.",
  "DESIGN.md §6 C09")
CHECKS["C10"] = ("exploration",
  "exhaustive grids + proptest over condition inputs, value histories against a last-reported-value model, seeded frequency test (6 sigma), Boolean formulas over tracing operands with injected operand errors",
  "Each condition is evaluated on exhaustive grids around its decision boundary (value vs n, multiples, best vs optimum+epsilon with float neighbours) and on random inputs, with the progress value compared bit-exactly; iteration-bounded loops are run for n in 0..40 (and random n) counting body runs, condition evaluations and the progress sequence; ChangeOf is driven through all short value histories and long random ones with both checkers over i64 and objective values; RandomChance by frequency over fixed samples; And/Or/Not through constructors, operators and clones with every operand's lifecycle traced.",
  "EveryN(0) excluded. RandomChance: deviations inside the 6-sigma band are invisible. Two sequential loops over one shared counter are not asserted either way.",
  "DESIGN.md §6 C10")
CHECKS["C12"] = ("exploration",
  "proptest + small exhaustive population pairs through every replacement operator, validity predicates on multisets/objectives",
  "Every operator is run through Component::execute on a prepared stack (with populations below) and through Replacement::replace on exhaustive small populations (ties, duplicates) and random ones (sizes 0-8, unevaluated and +inf objectives, every mu incl. 0 and above the total); the result must be a sub-multiset of parents and offspring with the operator-specific content, the stack must shrink by exactly one and everything below stay untouched.",
  "Fitness-based operators only get evaluated individuals. Which of several tied individuals survives is not asserted.",
  "DESIGN.md §6 C12")
CHECKS["C11"] = ("exploration",
  "proptest over (operator, parameters, population, seed) with multiset-containment / cardinality / layout predicates, plus seeded frequency tests for selection pressure (6 sqrt(N) band)",
  "All fourteen selection operators are run through Component::execute (source at depth 1 unchanged, one population pushed, populations below untouched) and Selection::select (references must point into the source) over random populations with ties, duplicates by value, negative, +inf and scaled objectives and all requested counts incl. 0 and the population size; documented unusable inputs must be errors. Fitness-based operators additionally face fixed well-separated populations with N draws: a better individual must not be drawn less often than a worse one beyond 6 sqrt(N), and proportional_weights must be monotone, non-negative and normalised.",
  "Statistical part: deviations inside the band are invisible. Degenerate inputs without documented behaviour are excluded (listed in evidence.assumptions).",
  "DESIGN.md §6 C11")
CHECKS["C13"] = ("exploration",
  "bounded-exhaustive differential testing of the helper twins and crossovers against independent references + proptest over every mutation/recombination component with well-formedness, gene-conservation, rate and count oracles",
  "The functional helpers are enumerated exhaustively (all index tuples / ranges / cut sets / masks / permutation pairs up to the stated sizes) and compared with each other and with independent reference implementations; every component is run on random populations (sizes 0-9, dimensions 1-8, rates from {0, 0.05, 0.5, 1, random}, both insert modes, the whole documented constructor range) and must neither panic nor err, keep shapes, conserve genes, respect rate 0 / rate 1 and produce the prescribed number of offspring; DE mutation is compared exactly.",
  "Which whole cycles cycle_crossover assigns to which child is not asserted (any assignment is valid under the property). Degenerate parameters without documented behaviour are excluded (evidence.assumptions).",
  "DESIGN.md §6 C13")
CHECKS["C14"] = ("exploration",
  "grid-exhaustive + proptest coordinates around each domain for the four boundary operators (worker thread with watchdog for termination), proptest over sizes/dimensions/domains/seeds for the initialisation operators",
  "Each boundary operator is applied to every coordinate of a grid around seven domains (the bounds, their floating-point neighbours, fractional and whole multiples of the width up to 1e6, and six astronomically distant values), alone and embedded next to inside and on-bound coordinates, plus random coordinates; it must terminate (10 s watchdog on a microsecond operation), land within the bounds up to 4 ulp, keep inside coordinates bit-identical and be idempotent. Initialisation operators are checked for exact counts, unevaluated individuals, dimension, half-open domain membership and permutation validity over sizes 0-20, dimensions 0-8 and mixed domains.",
  "Non-termination is observed through a watchdog. At most three time-outs are paid per run; later cases of the same operator are then skipped (the violation is already reported).",
  "DESIGN.md §6 C14")
CHECKS["C17"] = ("exploration",
  "grid-exhaustive + proptest cells (margin x temperature) with seeded frequency tests against exp(-delta/T) (6 sigma), exact edge cases, metamorphic monotonicity in T, exact cooling",
  "For every cell of a margin x temperature grid (better / equal / worse by 1e-9 .. 1e6; T from 1e-300 to 1e300) and random cells, N seeded trials run the real component on a prepared stack: the two populations must collapse to one holding exactly the current or the candidate individual, a candidate at least as good must always win, and the acceptance frequency of a worse one must match exp(-delta/T) within 6 sigma (exactly never / always where the exponential under- or overflows). GeometricCooling is compared bit-exactly over repeated executions.",
  "Deviations of the acceptance probability inside the 6-sigma band for N trials are invisible.",
  "DESIGN.md §6 C17")
CHECKS["C16"] = ("exploration",
  "proptest over (template, valid parameter draw, instance, iterations, seed) for all 21 constructors, audited at every component step through the step observer",
  "Each of the 21 template constructors is drawn with parameters from the ranges its constructor and the documented operator contracts accept, on small real / binary / permutation / TSP instances (dimension 1 included), for 0-25 iterations and random seeds, and run through optimize_with with the step observer attached: the run must return Ok, perform exactly the requested number of iterations (counter and observed passes), end every pass of the main loop with the stack at its initial height (1 at the end of the run) and keep the population size within the template's rule.",
  "Hook: step observer (feature mahf_verif) and the ACO parameter constructors. The main loop is identified as the first Loop whose body executes.",
  "DESIGN.md §6 C16")
CHECKS["C05"] = ("exploration",
  "model-based histories on individuals (exhaustive + proptest) against an evaluated-flag model; invariant audit of every individual in the state after every component step of every template run (step observer) and after 34 single components on prepared populations",
  "Individual-level operation histories are enumerated to a length bound and generated randomly, with is_evaluated / get_objective / objective() / solution probed after every step against a model. For runs, the step observer audits after EVERY component execution of every one of the 21 templates (random valid parameters, instances, seeds) that each evaluated individual reachable in any scope - population stack, best-so-far, elitist archive, swarm and molecule memories - carries bit-exactly f(solution) of the harness objective.",
  "Hook: step observer. The harness objective is a pure function recomputed by the oracle.",
  "DESIGN.md §6 C05")
CHECKS["C06"] = ("exploration",
  "proptest over prepared states for the evaluation step (population x identifier x evaluator x rayon pool size x scope placement x latency jitter) and over template runs (iteration / evaluation-budget bounded, sequential / parallel) audited around every evaluation step through the step observer, with a call-counting objective",
  "A one-step configuration is run (init, require, execute) on generated states: the population must come back in order, every individual carrying f(solution), the counter advanced by exactly the population size, the objective call log equal to the population as a multiset, the evaluator back in the scope it was registered in, and a missing evaluator reported before any objective call. In template runs the same audit brackets every PopulationEvaluator execution, the reported total must equal the number of objective invocations, and a budget-bounded loop must overshoot by less than one pass. Parallel cases run inside rayon pools of 1/2/4/16 threads with pseudo-random objective latency; the evidence counts runs in which completion order actually differed from call order.",
  "The rayon schedule is perturbed, not enumerated. Budget loops are additionally capped at 150 iterations so that a broken counter cannot hang the harness.",
  "DESIGN.md §6 C06")
CHECKS["C07"] = ("exploration",
  "proptest over sequences of candidate populations against a strict-improvement model (best individual) and a k-smallest multiset oracle (elitist archive, re-insertion), plus template runs with a minimum-recording objective audited at every best update",
  "Sequences of populations with ties, duplicates, signed zeros, +inf and extreme objectives are fed to the best-individual update (component and direct) and to the elitist archive for every capacity 0-7, then re-inserted into populations that already contain some elitists; every template is run with an objective that records the minimum it ever returned: the reported best must equal it and must never get worse at any best-update step (tracked per scope).",
  "Known finding: real_fa evaluates unrepaired positions inside the firefly update that never reach the best update (suppressed only when the run minimum was returned for a position outside the domain).",
  "DESIGN.md §6 C07")
CHECKS["C18"] = ("exploration",
  "proptest over real_pso runs audited at every component step through the step observer against interval-hull, exact-expression and history-tracking oracles",
  "PSO runs over swarm sizes 1-12, dimensions 1-5, the full coefficient ranges (including c1 = c2 = 0 for an exact inertia check), v_max from 0.001 to 10 domain widths, five objective kinds and 1-20 iterations are audited after every velocity update (clamp, exact move, unevaluated, interval hull with the stored inertia weight), after every inertia mapping (bit-exact linear interpolation at the loop's progress) and after every swarm update (personal best == minimum of that particle's harness-tracked evaluated history, global best == best personal best, one entry per particle).",
  "Hook: step observer. The hull check has a 1e-9 relative tolerance.",
  "DESIGN.md §6 C18")
CHECKS["C19"] = ("exploration",
  "proptest over runs of both ACO templates (1-200 iterations, so trails reach underflow and saturation) audited at every generation and pheromone update through the step observer against a validity predicate (tours) and a same-order reference computation (updates), plus direct component cases on prepared matrices",
  "Runs of ant_system and max_min_ant_system over TSP sizes 3-8, three kinds of distance matrices (ratios up to 1e9), the whole parameter ranges and up to 200 iterations are audited: every generation must yield ants + 1 unevaluated permutations starting at city 0 with a greedy first tour w.r.t. the matrix observed before; every update must equal, entry by entry within 4 ulp, evaporation followed by symmetric reinforcement of exactly the consecutive edges of the rewarded tours (all sampled tours / the best sampled tour), stay finite and non-negative and, for the max-min variant, inside [min, max] everywhere off the diagonal.",
  "Hooks: step observer, ACO parameter constructors. Tour length = objective value of the tour. Prepared matrices stay within reachable magnitudes (<= 1e6).",
  "DESIGN.md §6 C19")
CHECKS["C20"] = ("exploration",
  "proptest over prepared states for the four elementary reactions against an energy-conservation invariant and a model of index effects, plus real_cro runs audited around every update step through the step observer",
  "The four update components are executed on generated states (1-6 molecules, objective values, kinetic energies and buffer from zero to large, all reactant choices incl. equal-by-value reactants, products better / equal / worse / far worse so that accepted, rejected and buffer-assisted branches all occur): the total of objective values, kinetic energies and buffer must be conserved to 1e-9 relative, no energy may become negative, the molecule list must stay aligned with the population with products at the modelled positions, exactly the reactant and product populations are consumed and a rejected reaction changes nothing but hit counters. CRO template runs get the same audit around every update.",
  "Hook: step observer for the run part. Acceptance with partial buffer help is random (only the two certain regions are asserted).",
  "DESIGN.md §6 C20")
