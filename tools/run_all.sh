#!/usr/bin/env bash
# Runs every registered check (quick by default) sequentially after one build; prints a summary line per check.
tier="${1:-quick}"
cd /verif
ids=$(python3 -c "import json;print(' '.join(c['property_id'] for c in json.load(open('MANIFEST.json'))['checks']))")
rc=0
for id in $ids; do
  out=$(./check "$id" "$tier" 2>&1); code=$?
  echo "$out" | grep -E "^(VIOLATION|KNOWN-FINDING|$id )" | cut -c1-220
  [ $code -ne 0 ] && { echo "  -> exit $code"; rc=1; }
done
python3-vt tools/validate.py
exit $rc
