//! Structure-recording serde serializer: turns any `Serialize` value into a tree of names and values.

use serde::{ser, Serialize};

#[derive(Clone, Debug, PartialEq)]
pub enum SNode {
    Struct(String, Vec<(String, SNode)>),
    Tuple(String, Vec<SNode>),
    Newtype(String, Box<SNode>),
    Unit(String),
    Seq(Vec<SNode>),
    Map(Vec<(SNode, SNode)>),
    Num(f64),
    Str(String),
    Bool(bool),
    None,
    Some(Box<SNode>),
}

impl SNode {
    /// All numeric leaves below this node (not descending into nested component-like structs when `shallow`).
    pub fn nums(&self, out: &mut Vec<f64>) {
        match self {
            SNode::Struct(_, f) => f.iter().for_each(|(_, n)| n.nums(out)),
            SNode::Tuple(_, v) | SNode::Seq(v) => v.iter().for_each(|n| n.nums(out)),
            SNode::Newtype(_, n) | SNode::Some(n) => n.nums(out),
            SNode::Map(m) => m.iter().for_each(|(k, v)| {
                k.nums(out);
                v.nums(out)
            }),
            SNode::Num(x) => out.push(*x),
            _ => {}
        }
    }
    /// All strings (struct names, unit names, string leaves) below this node.
    pub fn strings(&self, out: &mut Vec<String>) {
        match self {
            SNode::Struct(n, f) => {
                out.push(n.clone());
                f.iter().for_each(|(_, x)| x.strings(out))
            }
            SNode::Tuple(n, v) => {
                out.push(n.clone());
                v.iter().for_each(|x| x.strings(out))
            }
            SNode::Seq(v) => v.iter().for_each(|x| x.strings(out)),
            SNode::Newtype(n, x) => {
                out.push(n.clone());
                x.strings(out)
            }
            SNode::Some(x) => x.strings(out),
            SNode::Unit(n) | SNode::Str(n) => out.push(n.clone()),
            SNode::Map(m) => m.iter().for_each(|(k, v)| {
                k.strings(out);
                v.strings(out)
            }),
            _ => {}
        }
    }
    pub fn name(&self) -> Option<&str> {
        match self {
            SNode::Struct(n, _) | SNode::Tuple(n, _) | SNode::Newtype(n, _) | SNode::Unit(n) => Some(n),
            _ => None,
        }
    }
}

#[derive(Debug)]
pub struct SErr(String);
impl std::fmt::Display for SErr {
    fn fmt(&self, f: &mut std::fmt::Formatter<'_>) -> std::fmt::Result {
        write!(f, "{}", self.0)
    }
}
impl std::error::Error for SErr {}
impl ser::Error for SErr {
    fn custom<T: std::fmt::Display>(msg: T) -> Self {
        SErr(msg.to_string())
    }
}

pub struct Rec;

pub fn record<T: ?Sized + Serialize>(v: &T) -> Result<SNode, String> {
    v.serialize(Rec).map_err(|e| e.0)
}

type R = Result<SNode, SErr>;

macro_rules! num {
    ($($f:ident: $t:ty),*) => { $(fn $f(self, v: $t) -> R { Ok(SNode::Num(v as f64)) })* };
}

pub struct SeqRec(Option<String>, Vec<SNode>);
pub struct MapRec(Vec<(SNode, SNode)>, Option<SNode>);
pub struct StructRec(String, Vec<(String, SNode)>);

impl ser::Serializer for Rec {
    type Ok = SNode;
    type Error = SErr;
    type SerializeSeq = SeqRec;
    type SerializeTuple = SeqRec;
    type SerializeTupleStruct = SeqRec;
    type SerializeTupleVariant = SeqRec;
    type SerializeMap = MapRec;
    type SerializeStruct = StructRec;
    type SerializeStructVariant = StructRec;
    num!(serialize_i8: i8, serialize_i16: i16, serialize_i32: i32, serialize_i64: i64, serialize_u8: u8, serialize_u16: u16, serialize_u32: u32, serialize_u64: u64, serialize_f32: f32, serialize_f64: f64);
    fn serialize_bool(self, v: bool) -> R {
        Ok(SNode::Bool(v))
    }
    fn serialize_char(self, v: char) -> R {
        Ok(SNode::Str(v.to_string()))
    }
    fn serialize_str(self, v: &str) -> R {
        Ok(SNode::Str(v.to_string()))
    }
    fn serialize_bytes(self, v: &[u8]) -> R {
        Ok(SNode::Seq(v.iter().map(|b| SNode::Num(*b as f64)).collect()))
    }
    fn serialize_none(self) -> R {
        Ok(SNode::None)
    }
    fn serialize_some<T: ?Sized + Serialize>(self, v: &T) -> R {
        Ok(SNode::Some(Box::new(v.serialize(Rec)?)))
    }
    fn serialize_unit(self) -> R {
        Ok(SNode::None)
    }
    fn serialize_unit_struct(self, name: &'static str) -> R {
        Ok(SNode::Unit(name.to_string()))
    }
    fn serialize_unit_variant(self, name: &'static str, _i: u32, v: &'static str) -> R {
        Ok(SNode::Unit(format!("{name}::{v}")))
    }
    fn serialize_newtype_struct<T: ?Sized + Serialize>(self, name: &'static str, v: &T) -> R {
        Ok(SNode::Newtype(name.to_string(), Box::new(v.serialize(Rec)?)))
    }
    fn serialize_newtype_variant<T: ?Sized + Serialize>(self, name: &'static str, _i: u32, var: &'static str, v: &T) -> R {
        Ok(SNode::Newtype(format!("{name}::{var}"), Box::new(v.serialize(Rec)?)))
    }
    fn serialize_seq(self, _len: Option<usize>) -> Result<SeqRec, SErr> {
        Ok(SeqRec(None, Vec::new()))
    }
    fn serialize_tuple(self, _len: usize) -> Result<SeqRec, SErr> {
        Ok(SeqRec(None, Vec::new()))
    }
    fn serialize_tuple_struct(self, name: &'static str, _len: usize) -> Result<SeqRec, SErr> {
        Ok(SeqRec(Some(name.to_string()), Vec::new()))
    }
    fn serialize_tuple_variant(self, name: &'static str, _i: u32, v: &'static str, _len: usize) -> Result<SeqRec, SErr> {
        Ok(SeqRec(Some(format!("{name}::{v}")), Vec::new()))
    }
    fn serialize_map(self, _len: Option<usize>) -> Result<MapRec, SErr> {
        Ok(MapRec(Vec::new(), None))
    }
    fn serialize_struct(self, name: &'static str, _len: usize) -> Result<StructRec, SErr> {
        Ok(StructRec(name.to_string(), Vec::new()))
    }
    fn serialize_struct_variant(self, name: &'static str, _i: u32, v: &'static str, _len: usize) -> Result<StructRec, SErr> {
        Ok(StructRec(format!("{name}::{v}"), Vec::new()))
    }
}

impl SeqRec {
    fn done(self) -> R {
        Ok(match self.0 {
            Some(n) => SNode::Tuple(n, self.1),
            None => SNode::Seq(self.1),
        })
    }
}
impl ser::SerializeSeq for SeqRec {
    type Ok = SNode;
    type Error = SErr;
    fn serialize_element<T: ?Sized + Serialize>(&mut self, v: &T) -> Result<(), SErr> {
        self.1.push(v.serialize(Rec)?);
        Ok(())
    }
    fn end(self) -> R {
        self.done()
    }
}
impl ser::SerializeTuple for SeqRec {
    type Ok = SNode;
    type Error = SErr;
    fn serialize_element<T: ?Sized + Serialize>(&mut self, v: &T) -> Result<(), SErr> {
        self.1.push(v.serialize(Rec)?);
        Ok(())
    }
    fn end(self) -> R {
        self.done()
    }
}
impl ser::SerializeTupleStruct for SeqRec {
    type Ok = SNode;
    type Error = SErr;
    fn serialize_field<T: ?Sized + Serialize>(&mut self, v: &T) -> Result<(), SErr> {
        self.1.push(v.serialize(Rec)?);
        Ok(())
    }
    fn end(self) -> R {
        self.done()
    }
}
impl ser::SerializeTupleVariant for SeqRec {
    type Ok = SNode;
    type Error = SErr;
    fn serialize_field<T: ?Sized + Serialize>(&mut self, v: &T) -> Result<(), SErr> {
        self.1.push(v.serialize(Rec)?);
        Ok(())
    }
    fn end(self) -> R {
        self.done()
    }
}
impl ser::SerializeMap for MapRec {
    type Ok = SNode;
    type Error = SErr;
    fn serialize_key<T: ?Sized + Serialize>(&mut self, k: &T) -> Result<(), SErr> {
        self.1 = Some(k.serialize(Rec)?);
        Ok(())
    }
    fn serialize_value<T: ?Sized + Serialize>(&mut self, v: &T) -> Result<(), SErr> {
        let k = self.1.take().unwrap_or(SNode::None);
        self.0.push((k, v.serialize(Rec)?));
        Ok(())
    }
    fn end(self) -> R {
        Ok(SNode::Map(self.0))
    }
}
impl ser::SerializeStruct for StructRec {
    type Ok = SNode;
    type Error = SErr;
    fn serialize_field<T: ?Sized + Serialize>(&mut self, k: &'static str, v: &T) -> Result<(), SErr> {
        self.1.push((k.to_string(), v.serialize(Rec)?));
        Ok(())
    }
    fn end(self) -> R {
        Ok(SNode::Struct(self.0, self.1))
    }
}
impl ser::SerializeStructVariant for StructRec {
    type Ok = SNode;
    type Error = SErr;
    fn serialize_field<T: ?Sized + Serialize>(&mut self, k: &'static str, v: &T) -> Result<(), SErr> {
        self.1.push((k.to_string(), v.serialize(Rec)?));
        Ok(())
    }
    fn end(self) -> R {
        Ok(SNode::Struct(self.0, self.1))
    }
}
