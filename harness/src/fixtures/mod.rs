pub mod genconf;
pub mod names;
pub mod problems;
pub mod run;
pub mod snode;

use mahf::{state::common::Populations, Component, Individual, Problem, Random, State};

/// A state holding a population stack (bottom..top) and a seeded random generator.
pub fn state_with<P: Problem>(pops: Vec<Vec<Individual<P>>>, seed: u64) -> State<'static, P> {
    let mut state: State<P> = State::new();
    let mut ps = Populations::<P>::new();
    for p in pops {
        ps.push(p);
    }
    state.insert(ps);
    state.insert(Random::new(seed));
    state
}

thread_local! {
    pub static SCRIPT: std::cell::RefCell<Vec<u64>> = const { std::cell::RefCell::new(Vec::new()) };
}

/// A generator backend that replays the thread's script and then behaves like ChaCha12.
pub struct ScriptRng {
    script: Vec<u64>,
    pos: usize,
    rest: rand_chacha::ChaCha12Rng,
}
impl rand::RngCore for ScriptRng {
    fn next_u32(&mut self) -> u32 {
        (self.next_u64() >> 32) as u32
    }
    fn next_u64(&mut self) -> u64 {
        if self.pos < self.script.len() {
            self.pos += 1;
            self.script[self.pos - 1]
        } else {
            self.rest.next_u64()
        }
    }
    fn fill_bytes(&mut self, dest: &mut [u8]) {
        for chunk in dest.chunks_mut(8) {
            let w = self.next_u64().to_le_bytes();
            chunk.copy_from_slice(&w[..chunk.len()]);
        }
    }
    fn try_fill_bytes(&mut self, dest: &mut [u8]) -> Result<(), rand::Error> {
        self.fill_bytes(dest);
        Ok(())
    }
}
impl rand::SeedableRng for ScriptRng {
    type Seed = [u8; 32];
    fn from_seed(seed: Self::Seed) -> Self {
        ScriptRng { script: SCRIPT.with(|s| s.borrow().clone()), pos: 0, rest: rand_chacha::ChaCha12Rng::from_seed(seed) }
    }
}


/// The script of 64-bit words the generator of the case with this seed replays first: empty for three seeds in four,
/// otherwise 1-12 words from a vocabulary of edge values (all zero, all one, the largest / smallest uniform floats, many
/// leading zero bits, a zero low byte) mixed with arbitrary words, one script in three a single such word repeated. A
/// pure function of the seed, so a case stays replayable from its seed alone.
pub fn script_of(seed: u64) -> Vec<u64> {
    fn mix(mut z: u64) -> u64 {
        z = z.wrapping_add(0x9E37_79B9_7F4A_7C15);
        z = (z ^ (z >> 30)).wrapping_mul(0xBF58_476D_1CE4_E5B9);
        z = (z ^ (z >> 27)).wrapping_mul(0x94D0_49BB_1331_11EB);
        z ^ (z >> 31)
    }
    let h = mix(seed ^ 0x5C21_9700);
    if h % 4 != 0 {
        return Vec::new();
    }
    let len = 1 + (h >> 8) % 12;
    // one script in three repeats a single edge-value word (the same index / the same uniform value drawn up to twelve
    // times in a row)
    if (h >> 20) % 3 == 0 {
        let w = match (h >> 24) % 4 {
            0 => 0,
            1 => u64::MAX,
            2 => u64::MAX << 11,
            _ => mix(h) & !0xff,
        };
        return vec![w; len as usize];
    }
    (0..len)
        .map(|k| {
            let r = mix(h.wrapping_add(k));
            match (r >> 3) % 9 {
                0 | 1 => 0,
                2 | 3 => u64::MAX,
                4 => r >> 13,
                5 => r >> 41,
                6 => r & !0xff,
                7 => u64::MAX << 11,
                _ => r,
            }
        })
        .collect()
}

/// The generator for the case with this seed: `Random::new(seed)`, or (one seed in four) a generator whose backend first
/// replays `script_of(seed)`. Only for oracles that hold for EVERY generator output (validity, exact relations), not for
/// frequency tests.
pub fn random_for(seed: u64) -> Random {
    let script = script_of(seed);
    if script.is_empty() {
        Random::new(seed)
    } else {
        SCRIPT.with(|s| *s.borrow_mut() = script);
        let r = Random::with_rng::<ScriptRng>(seed);
        SCRIPT.with(|s| s.borrow_mut().clear());
        r
    }
}

/// `state_with` with the generator of `random_for`.
pub fn state_with_scripted<P: Problem>(pops: Vec<Vec<Individual<P>>>, seed: u64) -> State<'static, P> {
    let mut state = state_with(pops, seed);
    state.insert(random_for(seed));
    state
}

/// Number of nested scopes (0 for five keys in six, else 1-3) a component is executed in for the case with this key.
pub fn nest_of(key: u64) -> u8 {
    let h = key.wrapping_mul(0x9E37_79B9_7F4A_7C15) >> 17;
    if h % 6 == 0 {
        1 + (h / 6 % 3) as u8
    } else {
        0
    }
}

/// `comp` wrapped in `nest_of(key)` nested scopes. Operators work on state (population stack, random generator, their
/// own parameters) that lives in an enclosing scope; running them inside a scope must not change what they do, and
/// whatever they put onto the population stack must still be there after the scope has ended.
pub fn maybe_nested<P: Problem + 'static>(comp: Box<dyn Component<P>>, key: u64) -> Box<dyn Component<P>> {
    let mut comp = comp;
    for _ in 0..nest_of(key) {
        comp = mahf::components::Scope::new(vec![comp]);
    }
    comp
}

/// Solutions of every population, bottom..top.
pub fn stack_solutions<P: Problem>(state: &State<P>) -> Vec<Vec<P::Encoding>> {
    let ps = state.populations();
    (0..ps.len()).rev().map(|d| ps.peek(d).iter().map(|i| i.solution().clone()).collect()).collect()
}

pub fn is_permutation(v: &[usize]) -> bool {
    let mut seen = vec![false; v.len()];
    for &x in v {
        if x >= v.len() || seen[x] {
            return false;
        }
        seen[x] = true;
    }
    true
}

/// Cached rayon pools (building a 16-thread pool per case is far more expensive than the case itself).
pub fn pool(threads: usize) -> &'static rayon::ThreadPool {
    use std::sync::{Mutex, OnceLock};
    static POOLS: OnceLock<Mutex<std::collections::HashMap<usize, &'static rayon::ThreadPool>>> = OnceLock::new();
    let m = POOLS.get_or_init(|| Mutex::new(std::collections::HashMap::new()));
    let mut g = m.lock().unwrap();
    let t = threads.clamp(1, 16);
    g.entry(t).or_insert_with(|| Box::leak(Box::new(rayon::ThreadPoolBuilder::new().num_threads(t).build().expect("rayon pool"))))
}
