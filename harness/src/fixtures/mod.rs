pub mod problems;
