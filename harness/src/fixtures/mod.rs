pub mod names;
pub mod problems;
pub mod run;

use mahf::{state::common::Populations, Individual, Problem, Random, State};

/// A state holding a population stack (bottom..top) and a seeded random generator.
pub fn state_with<P: Problem>(pops: Vec<Vec<Individual<P>>>, seed: u64) -> State<'static, P> {
    let mut state: State<P> = State::new();
    let mut ps = Populations::<P>::new();
    for p in pops {
        ps.push(p);
    }
    state.insert(ps);
    state.insert(Random::new(seed));
    state
}

/// Solutions of every population, bottom..top.
pub fn stack_solutions<P: Problem>(state: &State<P>) -> Vec<Vec<P::Encoding>> {
    let ps = state.populations();
    (0..ps.len()).rev().map(|d| ps.peek(d).iter().map(|i| i.solution().clone()).collect()).collect()
}

pub fn is_permutation(v: &[usize]) -> bool {
    let mut seen = vec![false; v.len()];
    for &x in v {
        if x >= v.len() || seen[x] {
            return false;
        }
        seen[x] = true;
    }
    true
}
