pub mod genconf;
pub mod names;
pub mod problems;
pub mod run;
pub mod snode;

use mahf::{state::common::Populations, Component, Individual, Problem, Random, State};

/// A state holding a population stack (bottom..top) and a seeded random generator.
pub fn state_with<P: Problem>(pops: Vec<Vec<Individual<P>>>, seed: u64) -> State<'static, P> {
    let mut state: State<P> = State::new();
    let mut ps = Populations::<P>::new();
    for p in pops {
        ps.push(p);
    }
    state.insert(ps);
    state.insert(Random::new(seed));
    state
}

/// Number of nested scopes (0 for five keys in six, else 1-3) a component is executed in for the case with this key.
pub fn nest_of(key: u64) -> u8 {
    let h = key.wrapping_mul(0x9E37_79B9_7F4A_7C15) >> 17;
    if h % 6 == 0 {
        1 + (h / 6 % 3) as u8
    } else {
        0
    }
}

/// `comp` wrapped in `nest_of(key)` nested scopes. Operators work on state (population stack, random generator, their
/// own parameters) that lives in an enclosing scope; running them inside a scope must not change what they do, and
/// whatever they put onto the population stack must still be there after the scope has ended.
pub fn maybe_nested<P: Problem + 'static>(comp: Box<dyn Component<P>>, key: u64) -> Box<dyn Component<P>> {
    let mut comp = comp;
    for _ in 0..nest_of(key) {
        comp = mahf::components::Scope::new(vec![comp]);
    }
    comp
}

/// Solutions of every population, bottom..top.
pub fn stack_solutions<P: Problem>(state: &State<P>) -> Vec<Vec<P::Encoding>> {
    let ps = state.populations();
    (0..ps.len()).rev().map(|d| ps.peek(d).iter().map(|i| i.solution().clone()).collect()).collect()
}

pub fn is_permutation(v: &[usize]) -> bool {
    let mut seen = vec![false; v.len()];
    for &x in v {
        if x >= v.len() || seen[x] {
            return false;
        }
        seen[x] = true;
    }
    true
}

/// Cached rayon pools (building a 16-thread pool per case is far more expensive than the case itself).
pub fn pool(threads: usize) -> &'static rayon::ThreadPool {
    use std::sync::{Mutex, OnceLock};
    static POOLS: OnceLock<Mutex<std::collections::HashMap<usize, &'static rayon::ThreadPool>>> = OnceLock::new();
    let m = POOLS.get_or_init(|| Mutex::new(std::collections::HashMap::new()));
    let mut g = m.lock().unwrap();
    let t = threads.clamp(1, 16);
    g.entry(t).or_insert_with(|| Box::leak(Box::new(rayon::ThreadPoolBuilder::new().num_threads(t).build().expect("rayon pool"))))
}
