//! Harness problems. All share one instrumented objective: call counter, per-call log of solution
//! hashes, running minimum, and (optionally) a pseudo-random busy-wait to perturb completion order
//! under the parallel evaluator. The objective value itself is a pure function the oracle recomputes.

use std::{
    hash::{Hash, Hasher},
    ops::Range,
    sync::{
        atomic::{AtomicU64, Ordering},
        Arc, Mutex,
    },
};

use mahf::{
    problems::{KnownOptimumProblem, LimitedVectorProblem, ObjectiveFunction, TravellingSalespersonProblem, VectorProblem},
    Problem, SingleObjective,
};
use serde::{Deserialize, Serialize};

#[derive(Default)]
pub struct InstrInner {
    pub calls: AtomicU64,
    /// hash of the solution of every call, in completion order
    pub log: Mutex<Vec<u64>>,
    /// start order (index handed out at call start) paired with completion order, to measure reordering
    pub starts: AtomicU64,
    pub out_of_order: AtomicU64,
    pub min: Mutex<f64>,
    /// whether the running minimum was returned for a solution outside the problem's domain
    pub min_outside: std::sync::atomic::AtomicBool,
    /// 0 = no jitter
    pub jitter: AtomicU64,
}

#[derive(Clone)]
pub struct Instr(pub Arc<InstrInner>);

impl Default for Instr {
    fn default() -> Self {
        Self::new()
    }
}

impl Instr {
    pub fn new() -> Self {
        let inner = InstrInner::default();
        *inner.min.lock().unwrap() = f64::INFINITY;
        Self(Arc::new(inner))
    }
    pub fn with_jitter(j: u64) -> Self {
        let s = Self::new();
        s.0.jitter.store(j, Ordering::Relaxed);
        s
    }
    pub fn calls(&self) -> u64 {
        self.0.calls.load(Ordering::SeqCst)
    }
    pub fn min(&self) -> f64 {
        *self.0.min.lock().unwrap()
    }
    pub fn log_len(&self) -> usize {
        self.0.log.lock().unwrap().len()
    }
    pub fn log_from(&self, from: usize) -> Vec<u64> {
        self.0.log.lock().unwrap()[from..].to_vec()
    }
    pub fn out_of_order(&self) -> u64 {
        self.0.out_of_order.load(Ordering::SeqCst)
    }
    pub fn min_outside(&self) -> bool {
        self.0.min_outside.load(Ordering::SeqCst)
    }
    pub fn record(&self, sol_hash: u64, value: f64) {
        self.record_with(sol_hash, value, false)
    }
    pub fn record_with(&self, sol_hash: u64, value: f64, outside: bool) {
        let start_idx = self.0.starts.fetch_add(1, Ordering::SeqCst);
        let j = self.0.jitter.load(Ordering::Relaxed);
        if j != 0 {
            // busy-wait for a pseudo-random number of iterations derived from (jitter stream, call index, solution)
            let mut h = std::collections::hash_map::DefaultHasher::new();
            (j, start_idx, sol_hash).hash(&mut h);
            let spins = h.finish() % 20_000;
            let mut acc = 0u64;
            for i in 0..spins {
                acc = acc.wrapping_mul(6364136223846793005).wrapping_add(i);
                std::hint::black_box(acc);
            }
            if spins % 7 == 0 {
                std::thread::yield_now();
            }
        }
        self.0.calls.fetch_add(1, Ordering::SeqCst);
        let mut log = self.0.log.lock().unwrap();
        if log.len() as u64 != start_idx {
            self.0.out_of_order.fetch_add(1, Ordering::SeqCst);
        }
        log.push(sol_hash);
        drop(log);
        let mut m = self.0.min.lock().unwrap();
        if value < *m {
            *m = value;
            self.0.min_outside.store(outside, Ordering::SeqCst);
        }
    }
}

pub fn hash_f64s(x: &[f64]) -> u64 {
    let mut h = std::collections::hash_map::DefaultHasher::new();
    for v in x {
        v.to_bits().hash(&mut h);
    }
    h.finish()
}

pub fn hash_t<T: Hash>(x: &[T]) -> u64 {
    let mut h = std::collections::hash_map::DefaultHasher::new();
    x.hash(&mut h);
    h.finish()
}

#[derive(Clone, Copy, Debug, PartialEq, Eq, Hash, Serialize, Deserialize)]
pub enum RealKind {
    Sphere,
    /// sphere centred outside the domain (optimum on the boundary)
    ShiftedOutside,
    /// linear slope, optimum at the lower corner
    Slope,
    /// plateaus with many ties
    Plateau,
    Rastrigin,
    /// first coordinate is a tag; value is that coordinate (used by operator-level checks)
    Tag,
    /// a value in [0, 1) derived from the exact bit patterns of all coordinates: any change of the solution, however
    /// small, changes the objective value (used to detect objective values that belong to another solution)
    Fingerprint,
    /// sphere, but the half of the domain where the first coordinate is above the centre is infeasible (objective +inf)
    Infeasible,
}

#[derive(Clone)]
pub struct RealP {
    pub dim: usize,
    pub domain: Vec<Range<f64>>,
    pub kind: RealKind,
    pub name: String,
    pub instr: Instr,
    /// value reported by `known_optimum` (default: unreachable, so `OptimumReached` never fires)
    pub optimum: f64,
}

impl RealP {
    pub fn new(dim: usize, lo: f64, hi: f64, kind: RealKind) -> Self {
        Self {
            dim,
            domain: vec![lo..hi; dim],
            kind,
            name: format!("real-{kind:?}-{dim}"),
            instr: Instr::new(),
            optimum: -1e300,
        }
    }
    pub fn with_domain(domain: Vec<Range<f64>>, kind: RealKind) -> Self {
        Self { dim: domain.len(), domain, kind, name: format!("real-{kind:?}"), instr: Instr::new(), optimum: -1e300 }
    }
    pub fn f(&self, x: &[f64]) -> f64 {
        let v = match self.kind {
            RealKind::Sphere => x.iter().map(|v| v * v).sum::<f64>(),
            RealKind::ShiftedOutside => x
                .iter()
                .zip(&self.domain)
                .map(|(v, r)| {
                    let c = r.end + (r.end - r.start);
                    (v - c) * (v - c)
                })
                .sum::<f64>(),
            RealKind::Slope => x.iter().sum::<f64>(),
            RealKind::Plateau => x.iter().map(|v| (v * 2.0).floor()).sum::<f64>(),
            RealKind::Rastrigin => x
                .iter()
                .map(|v| v * v - 10.0 * (2.0 * std::f64::consts::PI * v).cos() + 10.0)
                .sum::<f64>(),
            RealKind::Tag => x.first().copied().unwrap_or(0.0),
            RealKind::Fingerprint => {
                let mut h = 0xcbf29ce484222325u64;
                for v in x {
                    h = (h ^ v.to_bits()).wrapping_mul(0x100000001b3);
                    h ^= h >> 29;
                }
                (h >> 11) as f64 / (1u64 << 53) as f64
            }
            RealKind::Infeasible => {
                let mid = self.domain.first().map(|r| r.start + (r.end - r.start) / 2.0).unwrap_or(0.0);
                if x.first().map_or(false, |v| *v > mid) {
                    f64::INFINITY
                } else {
                    x.iter().map(|v| v * v).sum::<f64>()
                }
            }
        };
        if v.is_nan() || v == f64::NEG_INFINITY {
            f64::INFINITY
        } else {
            v
        }
    }
}

impl Problem for RealP {
    type Encoding = Vec<f64>;
    type Objective = SingleObjective;
    fn name(&self) -> &str {
        &self.name
    }
}
impl VectorProblem for RealP {
    type Element = f64;
    fn dimension(&self) -> usize {
        self.dim
    }
}
impl LimitedVectorProblem for RealP {
    fn domain(&self) -> Vec<Range<f64>> {
        self.domain.clone()
    }
}
impl ObjectiveFunction for RealP {
    fn objective(&self, solution: &Vec<f64>) -> SingleObjective {
        let v = self.f(solution);
        let outside = solution.iter().zip(&self.domain).any(|(x, r)| *x < r.start || *x > r.end);
        self.instr.record_with(hash_f64s(solution), v, outside);
        SingleObjective::try_from(v).unwrap()
    }
}
impl KnownOptimumProblem for RealP {
    fn known_optimum(&self) -> SingleObjective {
        SingleObjective::try_from(self.optimum).unwrap()
    }
}

#[derive(Clone)]
pub struct BitsP {
    /// count ones instead of zeros (a different objective on the same search space)
    pub inverted: bool,
    pub dim: usize,
    pub name: String,
    pub instr: Instr,
}
impl BitsP {
    pub fn new(dim: usize) -> Self {
        Self { inverted: false, dim, name: format!("bits-{dim}"), instr: Instr::new() }
    }
    pub fn f(&self, x: &[bool]) -> f64 {
        // one-max as minimisation
        x.iter().filter(|b| **b == self.inverted).count() as f64
    }
}
impl Problem for BitsP {
    type Encoding = Vec<bool>;
    type Objective = SingleObjective;
    fn name(&self) -> &str {
        &self.name
    }
}
impl VectorProblem for BitsP {
    type Element = bool;
    fn dimension(&self) -> usize {
        self.dim
    }
}
impl ObjectiveFunction for BitsP {
    fn objective(&self, solution: &Vec<bool>) -> SingleObjective {
        let v = self.f(solution);
        self.instr.record(hash_t(solution), v);
        SingleObjective::try_from(v).unwrap()
    }
}
impl KnownOptimumProblem for BitsP {
    fn known_optimum(&self) -> SingleObjective {
        SingleObjective::try_from(-1e300).unwrap()
    }
}

/// Permutation problem / TSP with an explicit symmetric distance matrix.
#[derive(Clone)]
pub struct TspP {
    pub n: usize,
    /// added to the closed tour length (1 keeps the objective strictly positive for degenerate tours; 0 for the
    /// instances in a very small unit, whose tour lengths are themselves positive and far below f64::EPSILON)
    pub offset: f64,
    /// the instance defines distances between two different cities only (condensed storage): asking for the distance
    /// of a city to itself is an error of the caller
    pub strict_diagonal: bool,
    pub dist: Vec<f64>,
    pub name: String,
    pub instr: Instr,
}
impl TspP {
    pub fn new(n: usize, dist: Vec<f64>) -> Self {
        assert_eq!(dist.len(), n * n);
        Self { n, offset: 1.0, strict_diagonal: false, dist, name: format!("tsp-{n}"), instr: Instr::new() }
    }
    /// Deterministic matrix from a seed. kind 0: uniform 1..10, 1: clustered, 2: ratio 1e-3..1e6,
    /// 3: one city astronomically far away (1e150) from a uniform cluster - (1/d)^beta underflows to 0,
    /// 4: uniform 1..10 in a very small unit (1e-18), objective = pure tour length (a few 1e-17),
    /// 5: uniform 1..10, distances defined between different cities only (`strict_diagonal`),
    /// 6: uniform 1..10 with about a third of the edges missing (weight +inf: tours through them are infeasible),
    /// 7: uniform 1..10 in a unit of 1e-160 (tour lengths ~1e-159: their reciprocals are huge but finite)
    pub fn generated(n: usize, kind: u8, seed: u64) -> Self {
        let mut dist = vec![0.0; n * n];
        let mut s = seed.wrapping_mul(0x9E3779B97F4A7C15).wrapping_add(kind as u64 + 1);
        let mut next = || {
            s ^= s << 13;
            s ^= s >> 7;
            s ^= s << 17;
            (s >> 11) as f64 / (1u64 << 53) as f64
        };
        for i in 0..n {
            for j in (i + 1)..n {
                let u = next();
                let d = match kind {
                    0 => 1.0 + 9.0 * u,
                    1 => {
                        if (i < n / 2) == (j < n / 2) {
                            0.5 + u
                        } else {
                            50.0 + 10.0 * u
                        }
                    }
                    2 => 10f64.powf(-3.0 + 9.0 * u),
                    4 => (1.0 + 9.0 * u) * 1e-18,
                    5 => 1.0 + 9.0 * u,
                    7 => (1.0 + 9.0 * u) * 1e-160,
                    6 => {
                        if u < 0.33 {
                            f64::INFINITY
                        } else {
                            1.0 + 9.0 * u
                        }
                    }
                    _ => {
                        if j == n - 1 {
                            1e150 * (1.0 + u)
                        } else {
                            1.0 + 9.0 * u
                        }
                    }
                };
                dist[i * n + j] = d;
                dist[j * n + i] = d;
            }
        }
        let mut p = Self::new(n, dist);
        if (kind == 4 || kind == 7) && n >= 2 {
            p.offset = 0.0;
        }
        if kind == 5 {
            p.strict_diagonal = true;
        }
        p
    }
    pub fn f(&self, tour: &[usize]) -> f64 {
        if tour.is_empty() {
            return 0.0;
        }
        let mut sum = 0.0;
        for w in tour.windows(2) {
            sum += self.d(w[0], w[1]);
        }
        sum += self.d(*tour.last().unwrap(), tour[0]);
        // keep strictly positive so that 1/f is finite
        sum + self.offset
    }
    pub fn d(&self, a: usize, b: usize) -> f64 {
        if a < self.n && b < self.n {
            self.dist[a * self.n + b]
        } else {
            1.0
        }
    }
}
impl Problem for TspP {
    type Encoding = Vec<usize>;
    type Objective = SingleObjective;
    fn name(&self) -> &str {
        &self.name
    }
}
impl VectorProblem for TspP {
    type Element = usize;
    fn dimension(&self) -> usize {
        self.n
    }
}
impl TravellingSalespersonProblem for TspP {
    fn distance(&self, edge: (usize, usize)) -> f64 {
        if self.strict_diagonal && edge.0 == edge.1 {
            panic!("this instance defines no distance from city {} to itself", edge.0);
        }
        self.d(edge.0, edge.1)
    }
}
impl ObjectiveFunction for TspP {
    fn objective(&self, solution: &Vec<usize>) -> SingleObjective {
        let v = self.f(solution);
        self.instr.record(hash_t(solution), v);
        SingleObjective::try_from(v).unwrap()
    }
}
impl KnownOptimumProblem for TspP {
    fn known_optimum(&self) -> SingleObjective {
        SingleObjective::try_from(-1e300).unwrap()
    }
}

/// Common view used by run-level audits.
pub trait Instrumented: Problem<Objective = SingleObjective> + ObjectiveFunction + Sync {
    fn instr(&self) -> &Instr;
    fn pure_f(&self, s: &Self::Encoding) -> f64;
    fn sol_hash(s: &Self::Encoding) -> u64;
    /// Another instance of the same problem type (different dimension and domain / matrix).
    fn sibling(&self) -> Self;
    /// An equal instance with an instrument of its own.
    fn fresh_copy(&self) -> Self;
    /// An instance over the same search space (dimension, domain) with a different objective function.
    fn variant(&self) -> Self;
}
impl Instrumented for RealP {
    fn instr(&self) -> &Instr {
        &self.instr
    }
    fn pure_f(&self, s: &Vec<f64>) -> f64 {
        self.f(s)
    }
    fn sol_hash(s: &Vec<f64>) -> u64 {
        hash_f64s(s)
    }
    fn sibling(&self) -> Self {
        let mut domain: Vec<Range<f64>> = self.domain.iter().map(|r| (r.start * 13.0 - 7.0)..(r.end * 13.0 + 7.0)).collect();
        domain.push(-3.0..40.0);
        RealP::with_domain(domain, self.kind)
    }
    fn fresh_copy(&self) -> Self {
        let mut p = self.clone();
        p.instr = Instr::new();
        p
    }
    fn variant(&self) -> Self {
        let mut p = self.fresh_copy();
        p.kind = if self.kind == RealKind::Rastrigin { RealKind::Slope } else { RealKind::Rastrigin };
        p
    }
}
impl Instrumented for BitsP {
    fn instr(&self) -> &Instr {
        &self.instr
    }
    fn pure_f(&self, s: &Vec<bool>) -> f64 {
        self.f(s)
    }
    fn sol_hash(s: &Vec<bool>) -> u64 {
        hash_t(s)
    }
    fn sibling(&self) -> Self {
        BitsP::new(self.dim + 3)
    }
    fn fresh_copy(&self) -> Self {
        let mut p = self.clone();
        p.instr = Instr::new();
        p
    }
    fn variant(&self) -> Self {
        let mut p = self.fresh_copy();
        p.inverted = !self.inverted;
        p
    }
}
impl Instrumented for TspP {
    fn instr(&self) -> &Instr {
        &self.instr
    }
    fn pure_f(&self, s: &Vec<usize>) -> f64 {
        self.f(s)
    }
    fn sol_hash(s: &Vec<usize>) -> u64 {
        hash_t(s)
    }
    fn sibling(&self) -> Self {
        TspP::generated(self.n + 1, 2, 99)
    }
    fn fresh_copy(&self) -> Self {
        let mut p = self.clone();
        p.instr = Instr::new();
        p
    }
    fn variant(&self) -> Self {
        let mut p = self.fresh_copy();
        // reversed distance table: another symmetric matrix over the same cities
        let n = self.n;
        let mut d = vec![0.0; n * n];
        for i in 0..n {
            for j in 0..n {
                d[i * n + j] = self.dist[(n - 1 - i) * n + (n - 1 - j)];
            }
        }
        p.dist = d;
        p
    }
}
