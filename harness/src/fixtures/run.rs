//! Run-level fixtures: the catalogue of the 21 shipped templates with valid parameter draws, problem
//! instances, the step-observer adapter (names components, tracks nesting), and the state walker.

use std::{
    collections::HashMap,
    sync::{Arc, Mutex},
};

use mahf::{
    components::{archive::ElitistArchive, misc::cro::ChemicalReaction, swarm::pso},
    conditions::{Condition, LessThanN},
    heuristics as h,
    identifier::Global,
    problems::{Parallel, Sequential},
    state::common::{BestIndividual, Populations},
    verif::{StepInfo, StepObserve, StepObserver, StepPhase},
    Configuration, ExecResult, Individual, Random, State, StateRegistry,
};
use proptest::prelude::*;
use serde::{Deserialize, Serialize};

use crate::{
    engine::catch,
    fixtures::{
        names::name_of,
        problems::{BitsP, Instrumented, RealKind, RealP, TspP},
    },
};

// ------------------------------------------------------------------------------------------------
// templates
// ------------------------------------------------------------------------------------------------

#[derive(Clone, Debug, Serialize, Deserialize, PartialEq)]
pub enum Tpl {
    RealGa { pop: u32, tour: u32, pm: f64, dev: f64, pc: f64 },
    BinaryGa { pop: u32, tour: u32, rm: f64, pc: f64, pm: f64 },
    Es { pop: u32, lambda: u32, dev: f64 },
    De { pop: u32, y: u32, f: f64, pc: f64 },
    Pso { n: u32, w0: f64, w1: f64, c1: f64, c2: f64, vmax: f64 },
    RealSa { t0: f64, alpha: f64, dev: f64 },
    PermSa { t0: f64, alpha: f64, swap: u32 },
    RealLs { nb: u32, dev: f64 },
    PermLs { nb: u32, swap: u32 },
    RealIls { nb: u32, dev: f64, inner: u32 },
    PermIls { nb: u32, swap: u32, inner: u32 },
    RealRs,
    PermRs,
    RealRw { dev: f64 },
    PermRw { swap: u32 },
    Iwo { init: u32, max: u32, smin: u32, smax: u32, dev0: f64, dev1: f64, modulation: u32 },
    Fa { pop: u32, alpha: f64, beta: f64, gamma: f64, delta: f64 },
    Bh { n: u32 },
    Cro { init: u32, mole_coll: f64, ke_lr: f64, alpha: u32, beta: f64, ke0: f64, buffer: f64, dev_wall: f64, dev_dec: f64 },
    As { ants: usize, alpha: f64, beta: f64, tau0: f64, rho: f64, decay: f64 },
    Mmas { ants: usize, alpha: f64, beta: f64, tau0: f64, rho: f64, max: f64, min: f64 },
}

#[derive(Clone, Copy, Debug, PartialEq, Eq)]
pub enum Kind {
    Real,
    Bits,
    Perm,
}

impl Tpl {
    pub fn name(&self) -> &'static str {
        match self {
            Tpl::RealGa { .. } => "real_ga",
            Tpl::BinaryGa { .. } => "binary_ga",
            Tpl::Es { .. } => "real_mu_plus_lambda_es",
            Tpl::De { .. } => "real_de",
            Tpl::Pso { .. } => "real_pso",
            Tpl::RealSa { .. } => "real_sa",
            Tpl::PermSa { .. } => "permutation_sa",
            Tpl::RealLs { .. } => "real_ls",
            Tpl::PermLs { .. } => "permutation_ls",
            Tpl::RealIls { .. } => "real_ils",
            Tpl::PermIls { .. } => "permutation_ils",
            Tpl::RealRs => "real_rs",
            Tpl::PermRs => "permutation_rs",
            Tpl::RealRw { .. } => "real_rw",
            Tpl::PermRw { .. } => "permutation_random_walk",
            Tpl::Iwo { .. } => "real_iwo",
            Tpl::Fa { .. } => "real_fa",
            Tpl::Bh { .. } => "real_bh",
            Tpl::Cro { .. } => "real_cro",
            Tpl::As { .. } => "ant_system",
            Tpl::Mmas { .. } => "max_min_ant_system",
        }
    }
    pub fn kind(&self) -> Kind {
        match self {
            Tpl::BinaryGa { .. } => Kind::Bits,
            Tpl::PermSa { .. } | Tpl::PermLs { .. } | Tpl::PermIls { .. } | Tpl::PermRs | Tpl::PermRw { .. } | Tpl::As { .. } | Tpl::Mmas { .. } => Kind::Perm,
            _ => Kind::Real,
        }
    }
    /// The per-template population-size rule at the end of a main-loop pass: (min, max).
    pub fn pop_bounds(&self) -> (usize, usize) {
        match self {
            Tpl::RealGa { pop, .. } | Tpl::BinaryGa { pop, .. } | Tpl::De { pop, .. } | Tpl::Fa { pop, .. } => (*pop as usize, *pop as usize),
            Tpl::Pso { n, .. } | Tpl::Bh { n } => (*n as usize, *n as usize),
            Tpl::Es { pop, .. } => (1, *pop as usize),
            Tpl::Iwo { max, .. } => (1, *max as usize),
            Tpl::Cro { .. } => (1, usize::MAX),
            Tpl::As { ants, .. } | Tpl::Mmas { ants, .. } => (ants + 1, ants + 1),
            _ => (1, 1),
        }
    }
}

fn cond<P: mahf::Problem>(n: u32) -> Box<dyn Condition<P>> {
    LessThanN::iterations(n)
}

pub fn build_real(t: &Tpl, n: u32) -> Option<ExecResult<Configuration<RealP>>> {
    build_real_with(t, &|| cond(n))
}

/// Same with an arbitrary termination condition for the main loop.
pub fn build_real_with(t: &Tpl, mk: &dyn Fn() -> Box<dyn Condition<RealP>>) -> Option<ExecResult<Configuration<RealP>>> {
    let cond = |_n: u32| mk();
    let n = 0;
    Some(match t.clone() {
        Tpl::RealGa { pop, tour, pm, dev, pc } => h::ga::real_ga(h::ga::RealProblemParameters { population_size: pop, tournament_size: tour, pm, deviation: dev, pc }, cond(n)),
        Tpl::Es { pop, lambda, dev } => h::es::real_mu_plus_lambda_es::<RealP, ()>(h::es::RealProblemParameters { population_size: pop, lambda, deviation: dev }, cond(n)),
        Tpl::De { pop, y, f, pc } => h::de::real_de(h::de::RealProblemParameters { population_size: pop, y, f, pc }, cond(n)),
        Tpl::Pso { n: np, w0, w1, c1, c2, vmax } => h::pso::real_pso(h::pso::RealProblemParameters { num_particles: np, start_weight: w0, end_weight: w1, c_one: c1, c_two: c2, v_max: vmax }, cond(n)),
        Tpl::RealSa { t0, alpha, dev } => h::sa::real_sa(h::sa::RealProblemParameters { t_0: t0, alpha, deviation: dev }, cond(n)),
        Tpl::RealLs { nb, dev } => h::ls::real_ls(h::ls::RealProblemParameters { n_neighbors: nb, deviation: dev }, cond(n)),
        Tpl::RealIls { nb, dev, inner } => h::ils::real_ils(h::ils::RealProblemParameters { ls_params: h::ls::RealProblemParameters { n_neighbors: nb, deviation: dev }, ls_condition: LessThanN::iterations(inner) }, cond(n)),
        Tpl::RealRs => h::rs::real_rs(cond(n)),
        Tpl::RealRw { dev } => h::rw::real_rw(h::rw::RealProblemParameters { deviation: dev }, cond(n)),
        Tpl::Iwo { init, max, smin, smax, dev0, dev1, modulation } => h::iwo::real_iwo(
            h::iwo::RealProblemParameters { initial_population_size: init, max_population_size: max, min_number_of_seeds: smin, max_number_of_seeds: smax, initial_deviation: dev0, final_deviation: dev1, modulation_index: modulation },
            cond(n),
        ),
        Tpl::Fa { pop, alpha, beta, gamma, delta } => h::fa::real_fa(h::fa::RealProblemParameters { pop_size: pop, alpha, beta, gamma, delta }, cond(n)),
        Tpl::Bh { n: np } => h::bh::real_bh(h::bh::RealProblemParameters { num_particles: np }, cond(n)),
        Tpl::Cro { init, mole_coll, ke_lr, alpha, beta, ke0, buffer, dev_wall, dev_dec } => h::cro::real_cro(
            h::cro::RealProblemParameters { initial_population_size: init, mole_coll, kinetic_energy_lr: ke_lr, alpha, beta, initial_kinetic_energy: ke0, buffer, on_wall_deviation: dev_wall, decomposition_deviation: dev_dec },
            cond(n),
        ),
        _ => return None,
    })
}

pub fn build_bits(t: &Tpl, n: u32) -> Option<ExecResult<Configuration<BitsP>>> {
    build_bits_with(t, &|| cond(n))
}

pub fn build_bits_with(t: &Tpl, mk: &dyn Fn() -> Box<dyn Condition<BitsP>>) -> Option<ExecResult<Configuration<BitsP>>> {
    let cond = |_n: u32| mk();
    let n = 0;
    Some(match t.clone() {
        Tpl::BinaryGa { pop, tour, rm, pc, pm } => h::ga::binary_ga(h::ga::BinaryProblemParameters { population_size: pop, tournament_size: tour, rm, pc, pm }, cond(n)),
        _ => return None,
    })
}

pub fn build_perm(t: &Tpl, n: u32) -> Option<ExecResult<Configuration<TspP>>> {
    build_perm_with(t, &|| cond(n))
}

pub fn build_perm_with(t: &Tpl, mk: &dyn Fn() -> Box<dyn Condition<TspP>>) -> Option<ExecResult<Configuration<TspP>>> {
    let cond = |_n: u32| mk();
    let n = 0;
    Some(match t.clone() {
        Tpl::PermSa { t0, alpha, swap } => h::sa::permutation_sa(h::sa::PermutationProblemParameters { t_0: t0, alpha, num_swap: swap }, cond(n)),
        Tpl::PermLs { nb, swap } => h::ls::permutation_ls(h::ls::PermutationProblemParameters { num_neighbors: nb, num_swap: swap }, cond(n)),
        Tpl::PermIls { nb, swap, inner } => h::ils::permutation_ils(h::ils::PermutationProblemParameters { ls_params: h::ls::PermutationProblemParameters { num_neighbors: nb, num_swap: swap }, ls_condition: LessThanN::iterations(inner) }, cond(n)),
        Tpl::PermRs => h::rs::permutation_rs(cond(n)),
        Tpl::PermRw { swap } => h::rw::permutation_random_walk(h::rw::PermutationProblemParameters { num_swap: swap }, cond(n)),
        Tpl::As { ants, alpha, beta, tau0, rho, decay } => h::aco::ant_system(h::aco::ASParameters::verif_new(ants, alpha, beta, tau0, rho, decay), cond(n)),
        Tpl::Mmas { ants, alpha, beta, tau0, rho, max, min } => h::aco::max_min_ant_system(h::aco::MMASParameters::verif_new(ants, alpha, beta, tau0, rho, max, min), cond(n)),
        _ => return None,
    })
}

#[derive(Clone, Debug, Serialize, Deserialize, PartialEq)]
pub enum Inst {
    Real { dim: usize, kind: RealKind, lo: f64, hi: f64 },
    Bits { dim: usize },
    Tsp { n: usize, kind: u8, seed: u64 },
}

impl Inst {
    pub fn dim(&self) -> usize {
        match self {
            Inst::Real { dim, .. } | Inst::Bits { dim } => *dim,
            Inst::Tsp { n, .. } => *n,
        }
    }
}

#[derive(Clone, Debug, Serialize, Deserialize)]
pub struct RunSpec {
    pub tpl: Tpl,
    pub inst: Inst,
    pub iters: u32,
    pub seed: u64,
}

pub fn real_of(inst: &Inst) -> RealP {
    match inst {
        Inst::Real { dim, kind, lo, hi } => RealP::new(*dim, *lo, *hi, *kind),
        _ => RealP::new(2, -1.0, 1.0, RealKind::Sphere),
    }
}
pub fn bits_of(inst: &Inst) -> BitsP {
    BitsP::new(inst.dim())
}
pub fn tsp_of(inst: &Inst) -> TspP {
    match inst {
        Inst::Tsp { n, kind, seed } => TspP::generated(*n, *kind, *seed),
        _ => TspP::generated(4, 0, 1),
    }
}

// ---- strategies ----

fn prob() -> impl Strategy<Value = f64> {
    prop_oneof![Just(0.0), Just(1.0), Just(0.5), 0.0f64..=1.0]
}
fn dev() -> impl Strategy<Value = f64> {
    prop_oneof![Just(0.1), Just(1.0), 0.001f64..3.0]
}

/// Valid parameters for template number `i` (0..21); `dim` is the instance dimension (needed for num_swap).
pub fn tpl_strategy(i: usize, dim: usize) -> BoxedStrategy<Tpl> {
    let swap = (2u32..=(dim.max(2) as u32)).boxed();
    match i % 21 {
        0 => (1u32..12, 0u32..12, prob(), dev(), prob()).prop_map(|(pop, t, pm, dev, pc)| Tpl::RealGa { pop, tour: 1 + t % pop, pm, dev, pc }).boxed(),
        1 => (1u32..12, 0u32..12, prob(), prob(), prob()).prop_map(|(pop, t, rm, pc, pm)| Tpl::BinaryGa { pop, tour: 1 + t % pop, rm, pc, pm }).boxed(),
        2 => (1u32..10, 1u32..12, dev()).prop_map(|(pop, lambda, dev)| Tpl::Es { pop, lambda, dev }).boxed(),
        3 => (1u32..3, 0u32..8, prop_oneof![Just(0.0), Just(0.5), Just(1.0), Just(2.0), 0.01f64..2.0], prob()).prop_map(|(y, extra, f, pc)| Tpl::De { pop: 2 * y + 1 + extra, y, f, pc }).boxed(),
        4 => (1u32..13, prop_oneof![1 => Just(0.0), 5 => 0.0f64..1.2], prop_oneof![1 => Just(0.0), 5 => 0.0f64..1.2], 0.0f64..2.5, 0.0f64..2.5, prop_oneof![Just(0.001), Just(0.1), Just(1.0), Just(10.0)]).prop_map(|(n, w0, w1, c1, c2, vmax)| Tpl::Pso { n, w0, w1, c1, c2, vmax }).boxed(),
        5 => (prop_oneof![Just(1.0), Just(100.0), 0.01f64..50.0], prop_oneof![Just(0.0), Just(0.9), 0.0f64..0.999], dev()).prop_map(|(t0, alpha, dev)| Tpl::RealSa { t0, alpha, dev }).boxed(),
        6 => (prop_oneof![Just(1.0), Just(100.0), 0.01f64..50.0], prop_oneof![Just(0.0), Just(0.9), 0.0f64..0.999], swap).prop_map(|(t0, alpha, swap)| Tpl::PermSa { t0, alpha, swap }).boxed(),
        7 => (1u32..8, dev()).prop_map(|(nb, dev)| Tpl::RealLs { nb, dev }).boxed(),
        8 => (1u32..8, swap).prop_map(|(nb, swap)| Tpl::PermLs { nb, swap }).boxed(),
        9 => (1u32..5, dev(), 0u32..4).prop_map(|(nb, dev, inner)| Tpl::RealIls { nb, dev, inner }).boxed(),
        10 => (1u32..5, swap, 0u32..4).prop_map(|(nb, swap, inner)| Tpl::PermIls { nb, swap, inner }).boxed(),
        11 => Just(Tpl::RealRs).boxed(),
        12 => Just(Tpl::PermRs).boxed(),
        13 => dev().prop_map(|dev| Tpl::RealRw { dev }).boxed(),
        14 => swap.prop_map(|swap| Tpl::PermRw { swap }).boxed(),
        15 => (1u32..8, 0u32..8, 0u32..4, 0u32..4, 0.001f64..0.5, 0.0f64..2.0, 1u32..4).prop_map(|(init, extra, a, b, d0, dd, m)| Tpl::Iwo { init, max: init + extra, smin: a.min(b), smax: a.max(b), dev0: d0, dev1: d0 + 0.01 + dd, modulation: m }).boxed(),
        16 => (1u32..9, prop_oneof![1 => Just(0.0), 4 => 0.0f64..1.0], prop_oneof![1 => Just(0.0), 5 => 0.0f64..2.0], prop_oneof![1 => Just(0.0), 1 => Just(1e6), 5 => 0.0f64..2.0], prop_oneof![Just(0.0), Just(0.97), 0.0f64..0.999]).prop_map(|(pop, alpha, beta, gamma, delta)| Tpl::Fa { pop, alpha, beta, gamma, delta }).boxed(),
        17 => (1u32..12).prop_map(|n| Tpl::Bh { n }).boxed(),
        18 => (1u32..8, prob(), 0.0f64..0.99, 0u32..6, 0.0f64..20.0, 0.0f64..50.0, 0.0f64..50.0, dev(), dev())
            .prop_map(|(init, mole_coll, ke_lr, alpha, beta, ke0, buffer, dev_wall, dev_dec)| Tpl::Cro { init, mole_coll, ke_lr, alpha, beta, ke0, buffer, dev_wall, dev_dec })
            .boxed(),
        19 => (1usize..9, prop_oneof![2 => Just(0.0), 1 => Just(0.5), 1 => Just(1.0), 5 => 0.0f64..5.0], prop_oneof![2 => Just(0.0), 1 => Just(0.5), 1 => Just(1.0), 5 => 0.0f64..5.0], prop_oneof![Just(0.0), Just(1e-6), Just(1.0), Just(1e3)], prop_oneof![Just(0.0), Just(0.01), Just(0.5), Just(0.99), Just(1.0)], 0.1f64..10.0)
            .prop_map(|(ants, alpha, beta, tau0, rho, decay)| Tpl::As { ants, alpha, beta, tau0, rho, decay })
            .boxed(),
        _ => (1usize..9, prop_oneof![2 => Just(0.0), 1 => Just(0.5), 1 => Just(1.0), 5 => 0.0f64..5.0], prop_oneof![2 => Just(0.0), 1 => Just(0.5), 1 => Just(1.0), 5 => 0.0f64..5.0], prop_oneof![Just(0.0), Just(1e-6), Just(1.0), Just(1e3)], prop_oneof![Just(0.0), Just(0.01), Just(0.5), Just(0.99), Just(1.0)], prop_oneof![1 => Just(0.0), 5 => 0.01f64..1.0], 0.0f64..5.0)
            .prop_map(|(ants, alpha, beta, tau0, rho, min, span)| Tpl::Mmas { ants, alpha, beta, tau0, rho, max: min + 0.01 + span, min })
            .boxed(),
    }
}

pub fn kind_of_index(i: usize) -> Kind {
    match i % 21 {
        1 => Kind::Bits,
        6 | 8 | 10 | 12 | 14 | 19 | 20 => Kind::Perm,
        _ => Kind::Real,
    }
}

pub fn inst_strategy(kind: Kind) -> BoxedStrategy<Inst> {
    match kind {
        Kind::Real => (
            1usize..7,
            prop_oneof![2 => Just(RealKind::Sphere), 2 => Just(RealKind::ShiftedOutside), 2 => Just(RealKind::Slope), 2 => Just(RealKind::Plateau), 2 => Just(RealKind::Rastrigin), 3 => Just(RealKind::Infeasible)],
            prop_oneof![Just((-5.0, 5.0)), Just((0.0, 1.0)), Just((3.0, 7.0)), Just((-1.0, 1.0))],
        )
            .prop_map(|(dim, kind, (lo, hi))| Inst::Real { dim, kind, lo, hi })
            .boxed(),
        Kind::Bits => (1usize..9).prop_map(|dim| Inst::Bits { dim }).boxed(),
        Kind::Perm => (3usize..9, 0u8..8, 0u64..1000).prop_map(|(n, kind, seed)| Inst::Tsp { n, kind, seed }).boxed(),
    }
}

/// A run of template `i` (or any template if None) with valid parameters, a matching instance, `iters` in the given range.
pub fn run_spec_strategy(which: Option<usize>, max_iters: u32) -> BoxedStrategy<RunSpec> {
    let idx = match which {
        Some(i) => Just(i).boxed(),
        None => (0usize..21).boxed(),
    };
    idx.prop_flat_map(move |i| inst_strategy(kind_of_index(i)).prop_flat_map(move |inst| (tpl_strategy(i, inst.dim()), Just(inst), 0u32..=max_iters, any::<u64>())))
        .prop_map(|(mut tpl, mut inst, iters, seed)| {
            // IWO's selection documents infinite objective values as unusable input
            if let (Tpl::Iwo { .. }, Inst::Real { kind, .. }) = (&tpl, &mut inst) {
                if *kind == RealKind::Infeasible {
                    *kind = RealKind::Sphere;
                }
            }
            // instances in a unit of 1e-160: with alpha + beta > 1 the sampling weights tau^alpha * (1/d)^beta of the
            // unchanged code overflow (recorded finding D23, probed by a directed case in C19); excluded by construction
            if let (Tpl::As { alpha, beta, .. } | Tpl::Mmas { alpha, beta, .. }, Inst::Tsp { kind: 7, .. }) = (&mut tpl, &inst) {
                *alpha = alpha.min(0.5);
                *beta = beta.min(0.5);
            }
            RunSpec { tpl, inst, iters, seed }
        })
        .boxed()
}

// ------------------------------------------------------------------------------------------------
// observer adapter
// ------------------------------------------------------------------------------------------------

#[derive(Clone, Copy, Debug, PartialEq, Eq)]
pub enum Phase {
    Before,
    After,
}

/// What an audit sees for every child execution of every block.
pub struct StepEv<'a> {
    pub name: &'a str,
    pub index: usize,
    pub len: usize,
    pub block: usize,
    pub phase: Phase,
    pub ok: bool,
    /// names of the components currently executing around this one (outermost first)
    pub enclosing: &'a [String],
    /// this event ends a pass of the template's main loop (After-event of the last child of the body block of the first loop)
    pub ends_main_pass: bool,
    /// this event starts a pass of the main loop
    pub starts_main_pass: bool,
}

pub trait Audit<P: Instrumented>: Send {
    fn step(&mut self, problem: &P, state: &State<P>, ev: &StepEv);
}

struct Obs<P: Instrumented, A: Audit<P>> {
    audit: Arc<Mutex<A>>,
    names: HashMap<(usize, usize), String>,
    stack: Vec<String>,
    main_body: Option<usize>,
    _p: std::marker::PhantomData<fn() -> P>,
}

impl<P: Instrumented, A: Audit<P>> StepObserve<P> for Obs<P, A> {
    fn step(&mut self, problem: &P, state: &State<P>, info: &StepInfo<P>) {
        let key = (info.block, info.index);
        if !self.names.contains_key(&key) {
            self.names.insert(key, name_of(info.component));
        }
        let name = self.names[&key].clone();
        let phase = match info.phase {
            StepPhase::Before => Phase::Before,
            StepPhase::After => Phase::After,
        };
        if phase == Phase::After {
            self.stack.pop();
        }
        if self.main_body.is_none() && self.stack.last().map(|s| s.as_str()) == Some("Loop") {
            self.main_body = Some(info.block);
        }
        let in_main = self.main_body == Some(info.block);
        let ev = StepEv {
            name: &name,
            index: info.index,
            len: info.len,
            block: info.block,
            phase,
            ok: info.result_is_ok,
            enclosing: &self.stack,
            ends_main_pass: in_main && phase == Phase::After && info.index + 1 == info.len && info.result_is_ok,
            starts_main_pass: in_main && phase == Phase::Before && info.index == 0,
        };
        self.audit.lock().unwrap().step(problem, state, &ev);
        if phase == Phase::Before {
            self.stack.push(name);
        }
    }
}

#[derive(Clone, Copy, Debug, PartialEq, Eq, Serialize, Deserialize)]
pub enum EvalKind {
    Sequential,
    Parallel,
    /// sequential evaluation by an evaluator that, whenever it is handed a non-empty slice, first evaluates the first
    /// solution once more as a probe of its own and adds that evaluation to the counter itself
    Probing,
}

/// See `EvalKind::Probing`.
pub struct ProbingEval<P>(std::marker::PhantomData<fn() -> P>);
impl<P: Instrumented> mahf::problems::Evaluate for ProbingEval<P> {
    type Problem = P;
    fn evaluate(&mut self, problem: &P, state: &mut State<P>, individuals: &mut [mahf::Individual<P>]) {
        if let Some(first) = individuals.first() {
            let _ = problem.objective(first.solution());
            if let Ok(mut e) = state.try_borrow_value_mut::<mahf::state::common::Evaluations>() {
                *e += 1;
            }
        }
        for i in individuals {
            i.evaluate_with(|s| problem.objective(s));
        }
    }
}

/// Runs `cfg` with a seeded RNG, the chosen evaluator and the audit attached as step observer.
pub fn run_observed<P, A>(cfg: &Configuration<P>, problem: &P, seed: u64, eval: EvalKind, audit: Arc<Mutex<A>>) -> Result<State<'static, P>, String>
where
    P: Instrumented + 'static,
    A: Audit<P> + 'static,
{
    let r = catch(|| {
        cfg.optimize_with(problem, |state| {
            state.insert(crate::fixtures::random_for(seed));
            match eval {
                EvalKind::Sequential => state.insert_evaluator(Sequential::<P>::new()),
                EvalKind::Parallel => state.insert_evaluator(Parallel::<P>::new()),
                EvalKind::Probing => state.insert_evaluator(ProbingEval::<P>(std::marker::PhantomData)),
            }
            state.insert(StepObserver::<P>(Box::new(Obs { audit, names: HashMap::new(), stack: Vec::new(), main_body: None, _p: std::marker::PhantomData })));
            Ok(())
        })
    });
    match r {
        Ok(Ok(s)) => Ok(s),
        Ok(Err(e)) => Err(format!("Err: {e:#}")),
        Err(p) => Err(format!("PANIC: {p}")),
    }
}

/// Like `run_observed`, but on a *used* state: the configuration is first run to completion (unobserved, on `warmup`, an
/// equal instance with its own instrument) and the audited run then starts on the state that run left behind, with the
/// population stack emptied and a freshly seeded generator - the situation of a caller that drives several runs or
/// restarts through `Configuration::run` on one state. Everything a run relies on is (re)initialised by the components'
/// `init`, so the audited run must satisfy exactly what a run on a fresh state satisfies.
pub fn run_observed_warm<P, A>(cfg: &Configuration<P>, warmup: &P, problem: &P, seed: u64, eval: EvalKind, audit: Arc<Mutex<A>>) -> Result<State<'static, P>, String>
where
    P: Instrumented + 'static,
    A: Audit<P> + 'static,
{
    let mut state = match run_plain(cfg, warmup, seed, eval) {
        Ok(s) => s,
        Err(e) => return Err(format!("warm-up run: {e}")),
    };
    while state.populations_mut().try_pop().is_some() {}
    state.insert(crate::fixtures::random_for(seed));
    state.insert(StepObserver::<P>(Box::new(Obs { audit, names: HashMap::new(), stack: Vec::new(), main_body: None, _p: std::marker::PhantomData })));
    match catch(|| cfg.run(problem, &mut state)) {
        Ok(Ok(())) => Ok(state),
        Ok(Err(e)) => Err(format!("Err: {e:#}")),
        Err(p) => Err(format!("PANIC: {p}")),
    }
}

/// `true` for the runs (one seed in four) that are audited on a used state, see `run_observed_warm`.
pub fn is_warm(seed: u64) -> bool {
    seed.wrapping_mul(0x9E37_79B9_7F4A_7C15) >> 62 == 3
}

/// `run_observed`, or for one seed in four `run_observed_warm`.
pub fn run_observed_auto<P, A>(cfg: &Configuration<P>, problem: &P, seed: u64, eval: EvalKind, audit: Arc<Mutex<A>>) -> Result<State<'static, P>, String>
where
    P: Instrumented + 'static,
    A: Audit<P> + 'static,
{
    if is_warm(seed) {
        // half of them warmed up on an instance with ANOTHER objective over the same search space and the same seed (so
        // both runs start from the same solutions); whatever the first run left in the state - the evaluator object
        // included - must not leak objective values of the other instance into the audited run
        let warmup = if seed & 1 == 1 { problem.variant() } else { problem.fresh_copy() };
        run_observed_warm(cfg, &warmup, problem, seed, eval, audit)
    } else {
        run_observed(cfg, problem, seed, eval, audit)
    }
}

/// Plain run without observer.
pub fn run_plain<P>(cfg: &Configuration<P>, problem: &P, seed: u64, eval: EvalKind) -> Result<State<'static, P>, String>
where
    P: Instrumented + 'static,
{
    let r = catch(|| {
        cfg.optimize_with(problem, |state| {
            state.insert(crate::fixtures::random_for(seed));
            match eval {
                EvalKind::Sequential => state.insert_evaluator(Sequential::<P>::new()),
                EvalKind::Parallel => state.insert_evaluator(Parallel::<P>::new()),
                EvalKind::Probing => state.insert_evaluator(ProbingEval::<P>(std::marker::PhantomData)),
            }
            Ok(())
        })
    });
    match r {
        Ok(Ok(s)) => Ok(s),
        Ok(Err(e)) => Err(format!("Err: {e:#}")),
        Err(p) => Err(format!("PANIC: {p}")),
    }
}

/// Termination condition of a run: 0 = `iterations < n`; 1 = `iterations < n & !(best objective < -1e300)` (a target that
/// is never reached, below every objective value, written with the generic bound on a float-valued lens); 2 =
/// `iterations < n & !OptimumReached(1e-9)` (the known optimum of the harness problems is unreachable). All three make
/// exactly n passes.
pub fn termination<P>(n: u32, variant: u8) -> Box<dyn Condition<P>>
where
    P: mahf::problems::SingleObjectiveProblem + mahf::problems::KnownOptimumProblem,
{
    use mahf::conditions::OptimumReached;
    match variant {
        1 => LessThanN::iterations(n) & !LessThanN::new(mahf::SingleObjective::try_from(-1e300).unwrap(), mahf::lens::common::BestObjectiveValueLens::<P>::new()),
        2 => LessThanN::iterations(n) & !OptimumReached::new(1e-9).unwrap(),
        _ => LessThanN::iterations(n),
    }
}

/// `dispatch` with the termination condition `termination(iters, variant)`.
pub fn dispatch_cond<V: RunVisitor>(spec: &RunSpec, v: &mut V, variant: u8) -> V::Out {
    let n = spec.iters;
    match spec.tpl.kind() {
        Kind::Real => v.visit(build_real_with(&spec.tpl, &|| termination::<RealP>(n, variant)).expect("real template"), real_of(&spec.inst), spec),
        Kind::Bits => v.visit(build_bits_with(&spec.tpl, &|| termination::<BitsP>(n, variant)).expect("bits template"), bits_of(&spec.inst), spec),
        Kind::Perm => v.visit(build_perm_with(&spec.tpl, &|| termination::<TspP>(n, variant)).expect("perm template"), tsp_of(&spec.inst), spec),
    }
}

/// Generic dispatch over the three problem kinds.
pub trait RunVisitor {
    type Out;
    fn visit<P: Instrumented + Clone + 'static>(&mut self, cfg: ExecResult<Configuration<P>>, problem: P, spec: &RunSpec) -> Self::Out;
}

pub fn dispatch<V: RunVisitor>(spec: &RunSpec, v: &mut V) -> V::Out {
    match spec.tpl.kind() {
        Kind::Real => v.visit(build_real(&spec.tpl, spec.iters).expect("real template"), real_of(&spec.inst), spec),
        Kind::Bits => v.visit(build_bits(&spec.tpl, spec.iters).expect("bits template"), bits_of(&spec.inst), spec),
        Kind::Perm => v.visit(build_perm(&spec.tpl, spec.iters).expect("perm template"), tsp_of(&spec.inst), spec),
    }
}

// ------------------------------------------------------------------------------------------------
// state walker
// ------------------------------------------------------------------------------------------------

/// Visits every individual reachable in every scope: all population levels, best-so-far, elitist archive,
/// swarm memories, molecule bests. `f(where, individual)`.
pub fn walk_individuals<P: Instrumented>(state: &State<P>, f: &mut dyn FnMut(&str, &Individual<P>)) {
    let mut level: Option<&StateRegistry> = Some(state);
    let mut depth = 0;
    while let Some(r) = level {
        if r.contains_at_top::<Populations<P>>() {
            if let Ok(ps) = r.try_borrow::<Populations<P>>() {
                for d in 0..ps.len() {
                    for i in ps.peek(d) {
                        f(&format!("scope-{depth} population stack depth {d}"), i);
                    }
                }
            }
        }
        if r.contains_at_top::<BestIndividual<P>>() {
            if let Ok(b) = r.try_borrow::<BestIndividual<P>>() {
                if let Some(i) = b.as_ref() {
                    f(&format!("scope-{depth} BestIndividual"), i);
                }
            }
        }
        if r.contains_at_top::<ElitistArchive<P>>() {
            if let Ok(a) = r.try_borrow::<ElitistArchive<P>>() {
                for i in a.elitists() {
                    f(&format!("scope-{depth} ElitistArchive"), i);
                }
            }
        }
        if r.contains_at_top::<pso::BestParticles<P, Global>>() {
            if let Ok(b) = r.try_borrow::<pso::BestParticles<P, Global>>() {
                for i in b.iter() {
                    f(&format!("scope-{depth} BestParticles"), i);
                }
            }
        }
        if r.contains_at_top::<pso::BestParticle<P, Global>>() {
            if let Ok(b) = r.try_borrow::<pso::BestParticle<P, Global>>() {
                if let Some(i) = b.as_ref() {
                    f(&format!("scope-{depth} BestParticle"), i);
                }
            }
        }
        if r.contains_at_top::<ChemicalReaction<P>>() {
            if let Ok(c) = r.try_borrow::<ChemicalReaction<P>>() {
                for m in c.iter() {
                    f(&format!("scope-{depth} molecule best"), &m.best);
                }
            }
        }
        level = r.parent();
        depth += 1;
    }
}

/// Stack height of the innermost `Populations`.
pub fn stack_height<P: Instrumented>(state: &State<P>) -> usize {
    state.try_borrow::<Populations<P>>().map(|p| p.len()).unwrap_or(0)
}
