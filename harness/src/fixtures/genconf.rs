//! Generated configurations assembled from shipped components (real-valued, population based).

use mahf::{
    components::{archive, boundary, diversity, initialization, mutation, recombination, replacement, selection},
    conditions::{EveryN, LessThanN, RandomChance},
    logging::Logger,
    Component, Configuration,
};
use proptest::prelude::*;
use serde::{Deserialize, Serialize};

use crate::fixtures::problems::RealP;

#[derive(Clone, Debug, Serialize, Deserialize, PartialEq)]
pub struct GenConf {
    pub pop: u32,
    pub lambda: u32,
    pub sel: u8,
    pub xo: u8,
    pub mutation: u8,
    pub bound: u8,
    pub repl: u8,
    pub archive: Option<usize>,
    /// mutation only applied with this probability (wrapped in an `if_(RandomChance)`)
    pub pm: f64,
    /// extra evaluation + best update every k-th iteration inside a branch
    pub every: u32,
    pub iters: u32,
    /// diversity measure executed at the end of every pass: 0 none, 1 dimension-wise, 2 pairwise distance,
    /// 3 true diversity, 4 distance to the average point
    #[serde(default)]
    pub diversity: u8,
    /// large population: 128 is added to `pop`
    #[serde(default)]
    pub big: bool,
    /// the individuals reach every evaluation step carrying a placeholder objective value (+inf), as individuals
    /// built with `Individual::new(solution, placeholder)` or pre-screened by another evaluator do
    #[serde(default)]
    pub placeholder: bool,
    /// a component of the loop body opens a child scope and runs a nested configuration (a mutation) in it through the
    /// public `Configuration::run`, as a user-defined sub-heuristic does; it draws from the run's generator
    #[serde(default)]
    pub nested: bool,
}

/// Runs a nested configuration in a child scope.
#[derive(Clone, serde::Serialize)]
pub struct NestedRun {
    #[serde(skip)]
    pub inner: std::sync::Arc<Configuration<RealP>>,
}
impl Component<RealP> for NestedRun {
    fn execute(&self, problem: &RealP, state: &mut mahf::State<RealP>) -> mahf::ExecResult<()> {
        state.with_inner_state(|st| self.inner.run(problem, st)).map(|_| ())
    }
}

/// Gives every individual of the current population the placeholder objective value +inf.
#[derive(Clone, serde::Serialize)]
pub struct Placeholder;
impl Component<RealP> for Placeholder {
    fn execute(&self, _problem: &RealP, state: &mut mahf::State<RealP>) -> mahf::ExecResult<()> {
        for i in state.populations_mut().current_mut().iter_mut() {
            i.set_objective(mahf::SingleObjective::INFINITY);
        }
        Ok(())
    }
}

pub fn gen_conf_strategy(max_iters: u32) -> impl Strategy<Value = GenConf> {
    (2u32..12, 1u32..14, 0u8..7, 0u8..4, 0u8..4, 0u8..4, 0u8..3, proptest::option::of(0usize..4), prop_oneof![Just(1.0), Just(0.5), 0.0f64..=1.0], 1u32..4, (0u32..=max_iters, prop_oneof![3 => Just(0u8), 4 => 1u8..5], prop_oneof![7 => Just(false), 1 => Just(true)], prop_oneof![3 => Just(false), 1 => Just(true)], prop_oneof![3 => Just(false), 1 => Just(true)]))
        .prop_map(|(pop, lambda, sel, xo, mutation, bound, repl, archive, pm, every, (iters, diversity, big, placeholder, nested))| GenConf { pop, lambda, sel, xo, mutation, bound, repl, archive, pm, every, iters, diversity, big, placeholder, nested })
}

impl GenConf {
    pub fn build(&self) -> Configuration<RealP> {
        let mut g = self.clone();
        if g.big {
            g.pop += 128;
        }
        let diversity: Option<Box<dyn Component<RealP>>> = match g.diversity % 5 {
            0 => None,
            1 => Some(diversity::DimensionWiseDiversity::new()),
            2 => Some(diversity::PairwiseDistanceDiversity::new()),
            3 => Some(diversity::TrueDiversity::new()),
            _ => Some(diversity::DistanceToAveragePointDiversity::new()),
        };
        let lambda = g.lambda.max(1);
        let selection: Box<dyn Component<RealP>> = match g.sel % 7 {
            0 => selection::Tournament::new(lambda, 1 + (g.pop - 1).min(2)),
            1 => selection::RouletteWheel::new(lambda, 0.5),
            2 => selection::StochasticUniversalSampling::new(lambda, 0.5),
            3 => selection::LinearRank::new(lambda),
            4 => selection::ExponentialRank::new(lambda, 0.5).unwrap(),
            5 => selection::FullyRandom::new(lambda),
            _ => selection::RandomWithoutRepetition::new(lambda.min(g.pop)),
        };
        let crossover: Box<dyn Component<RealP>> = match g.xo % 4 {
            0 => recombination::UniformCrossover::new::<RealP, f64>(0.8, true),
            1 => recombination::ArithmeticCrossover::new::<RealP>(0.8, true),
            2 => recombination::UniformCrossover::new::<RealP, f64>(1.0, false),
            _ => recombination::ArithmeticCrossover::new::<RealP>(0.3, false),
        };
        let mutation: Box<dyn Component<RealP>> = match g.mutation % 4 {
            0 => mutation::NormalMutation::new(0.3, 0.7),
            1 => mutation::UniformMutation::new(0.4, 0.5),
            2 => mutation::PartialRandomSpread::new(0.2),
            _ => mutation::NormalMutation::new_dev(1.5),
        };
        let bound: Box<dyn Component<RealP>> = match g.bound % 4 {
            0 => boundary::Saturation::new(),
            1 => boundary::Toroidal::new(),
            2 => boundary::Mirror::new(),
            _ => boundary::CompleteOneTailedNormalCorrection::new(),
        };
        let replacement: Box<dyn Component<RealP>> = match g.repl % 3 {
            0 => replacement::MuPlusLambda::new(g.pop),
            1 => replacement::RandomReplacement::new(g.pop),
            _ => replacement::MuPlusLambda::new(g.pop + lambda),
        };
        let archive = g.archive;
        let pm = g.pm;
        let every = g.every;
        let nested: Option<Box<dyn Component<RealP>>> = if g.nested {
            Some(Box::new(NestedRun { inner: std::sync::Arc::new(Configuration::builder().do_(mutation::NormalMutation::new(0.2, 1.0)).build()) }))
        } else {
            None
        };
        let ph = g.placeholder;
        let mark = move || -> Option<Box<dyn Component<RealP>>> { if ph { Some(Box::new(Placeholder)) } else { None } };
        Configuration::builder()
            .do_(initialization::RandomSpread::new(g.pop))
            .do_if_some_(mark())
            .evaluate()
            .update_best_individual()
            .while_(LessThanN::iterations(g.iters), move |b| {
                let mut b = b.do_(selection).do_(crossover).if_(RandomChance::new(pm), |b| b.do_(mutation)).do_if_some_(nested).do_(bound).do_if_some_(mark()).evaluate().update_best_individual();
                if let Some(k) = archive {
                    b = b.do_(archive::ElitistArchiveUpdate::new(k)).do_(archive::ElitistArchiveIntoPopulation::new());
                }
                b.do_(replacement)
                    .do_if_some_(diversity)
                    .if_(EveryN::iterations(every), |b| b.evaluate().update_best_individual())
                    .do_(Logger::new())
            })
            .build()
    }
}
