//! A tiny serde `Serializer` that reports the outermost struct name of a value and aborts.
//! Used to name `dyn Component` objects ("PopulationEvaluator", "MuPlusLambda", "seq" for a nested block, ...).

use serde::{ser, Serialize};

#[derive(Debug)]
pub struct Name(pub String);

impl std::fmt::Display for Name {
    fn fmt(&self, f: &mut std::fmt::Formatter<'_>) -> std::fmt::Result {
        write!(f, "{}", self.0)
    }
}
impl std::error::Error for Name {}
impl ser::Error for Name {
    fn custom<T: std::fmt::Display>(msg: T) -> Self {
        Name(msg.to_string())
    }
}

pub struct NameSer;

type R<T> = Result<T, Name>;

macro_rules! prim {
    ($($f:ident: $t:ty),*) => { $(fn $f(self, _v: $t) -> R<()> { Err(Name("primitive".into())) })* };
}

impl ser::Serializer for NameSer {
    type Ok = ();
    type Error = Name;
    type SerializeSeq = ser::Impossible<(), Name>;
    type SerializeTuple = ser::Impossible<(), Name>;
    type SerializeTupleStruct = ser::Impossible<(), Name>;
    type SerializeTupleVariant = ser::Impossible<(), Name>;
    type SerializeMap = ser::Impossible<(), Name>;
    type SerializeStruct = ser::Impossible<(), Name>;
    type SerializeStructVariant = ser::Impossible<(), Name>;
    prim!(serialize_bool: bool, serialize_i8: i8, serialize_i16: i16, serialize_i32: i32, serialize_i64: i64, serialize_u8: u8, serialize_u16: u16, serialize_u32: u32, serialize_u64: u64, serialize_f32: f32, serialize_f64: f64, serialize_char: char, serialize_str: &str, serialize_bytes: &[u8]);
    fn serialize_none(self) -> R<()> {
        Err(Name("none".into()))
    }
    fn serialize_some<T: ?Sized + Serialize>(self, _v: &T) -> R<()> {
        Err(Name("some".into()))
    }
    fn serialize_unit(self) -> R<()> {
        Err(Name("unit".into()))
    }
    fn serialize_unit_struct(self, name: &'static str) -> R<()> {
        Err(Name(name.into()))
    }
    fn serialize_unit_variant(self, name: &'static str, _i: u32, v: &'static str) -> R<()> {
        Err(Name(format!("{name}::{v}")))
    }
    fn serialize_newtype_struct<T: ?Sized + Serialize>(self, name: &'static str, _v: &T) -> R<()> {
        Err(Name(name.into()))
    }
    fn serialize_newtype_variant<T: ?Sized + Serialize>(self, name: &'static str, _i: u32, v: &'static str, _x: &T) -> R<()> {
        Err(Name(format!("{name}::{v}")))
    }
    fn serialize_seq(self, _len: Option<usize>) -> R<Self::SerializeSeq> {
        Err(Name("seq".into()))
    }
    fn serialize_tuple(self, _len: usize) -> R<Self::SerializeTuple> {
        Err(Name("tuple".into()))
    }
    fn serialize_tuple_struct(self, name: &'static str, _len: usize) -> R<Self::SerializeTupleStruct> {
        Err(Name(name.into()))
    }
    fn serialize_tuple_variant(self, name: &'static str, _i: u32, v: &'static str, _len: usize) -> R<Self::SerializeTupleVariant> {
        Err(Name(format!("{name}::{v}")))
    }
    fn serialize_map(self, _len: Option<usize>) -> R<Self::SerializeMap> {
        Err(Name("map".into()))
    }
    fn serialize_struct(self, name: &'static str, _len: usize) -> R<Self::SerializeStruct> {
        Err(Name(name.into()))
    }
    fn serialize_struct_variant(self, name: &'static str, _i: u32, v: &'static str, _len: usize) -> R<Self::SerializeStructVariant> {
        Err(Name(format!("{name}::{v}")))
    }
}

pub fn name_of<T: ?Sized + Serialize>(v: &T) -> String {
    match v.serialize(NameSer) {
        Err(Name(n)) => n,
        Ok(()) => "?".into(),
    }
}
