//! Byte-level entry points for the libFuzzer targets (thorough tier of C01-C04, C13).
//!
//! The bytes are decoded with `arbitrary::Unstructured` into the SAME case types the proptest
//! strategies produce; the oracle is the same one, inside the target. A failure that is not a listed
//! known finding panics (libFuzzer saves the input as an artifact); `vcheck <ID> --from-bytes <artifact>`
//! turns it into the usual JSON replay file.

use arbitrary::Unstructured;

use crate::{
    engine::{is_known_sig, Check, Failure},
    props::{c01, c02, c03, c04, c13},
};

type U<'a> = Unstructured<'a>;

fn byte(u: &mut U) -> u8 {
    u.arbitrary::<u8>().unwrap_or(0)
}

// ---- C01 ----

fn c01_flat(u: &mut U) -> c01::Op {
    use c01::{EntryAct::*, Op};
    let t = byte(u) % 4;
    let v = (byte(u) % 50) as i64;
    match byte(u) % 26 {
        0..=4 => Op::Insert(t, v),
        5 | 6 => Op::Remove(t),
        7 => Op::Take(t),
        8 => Op::SetValue(t, v),
        9 => Op::BorrowValueMutWrite(t, v),
        10 => Op::BorrowMutWrite(t, v),
        11 => Op::GetMutWrite(t, v),
        12..=15 => {
            let act = match byte(u) % 10 {
                0 => OrInsert,
                1 => OrInsertWith,
                2 => OrDefault,
                3 => AndModifyOrInsert,
                4 => AndModifyValueOrInsert,
                5 => OccGet,
                6 => OccGetMutOrVacInsert,
                7 => OccInsert,
                8 => OccRemove,
                _ => OccIntoMut,
            };
            Op::Entry(t, act, v)
        }
        16 => Op::FindMutInsertOther(t, byte(u) % 4, v),
        17..=19 => Op::Push,
        22 => Op::InsertAt(byte(u) % 4, t, v),
        23 => Op::SetValueWhileBorrowed(t, v, byte(u) % 2 == 0),
        24 => Op::MultiWrite(t, byte(u) % 4, v),
        25 => Op::InsertOverLeakedGuard(t, v, byte(u) % 2 == 0),
        _ => Op::Pop,
    }
}

fn c01_ops(u: &mut U, depth: u8, with_hold: bool, max: usize) -> Vec<c01::Op> {
    let mut ops = Vec::new();
    while !u.is_empty() && ops.len() < max {
        let b = byte(u);
        if depth > 0 && b % 16 == 0 {
            let n = (byte(u) % 8) as usize;
            let fail = byte(u) % 2 == 0;
            let mut sub = U::new(u.bytes(n.min(u.len())).unwrap_or(&[]));
            ops.push(c01::Op::WithInner(c01_ops(&mut sub, depth - 1, with_hold, 8), fail));
        } else if with_hold && depth > 0 && b % 16 == 1 {
            let t = byte(u) % 4;
            let n = (byte(u) % 10) as usize;
            let fail = byte(u) % 2 == 0;
            let mut sub = U::new(u.bytes(n.min(u.len())).unwrap_or(&[]));
            ops.push(c01::Op::Hold(t, c01_ops(&mut sub, depth - 1, with_hold, 8), fail));
        } else if with_hold && b % 16 == 2 {
            ops.push(c01::Op::WriteHeld((byte(u) % 50) as i64));
        } else {
            ops.push(c01_flat(u));
        }
    }
    ops
}

pub fn decode_c01(data: &[u8]) -> Vec<c01::Op> {
    c01_ops(&mut U::new(data), 2, false, 200)
}

// ---- C02 ----

#[derive(Debug)]
pub enum C02Case {
    Guards(c02::GuardCase),
    Multi(c02::MultiCase),
    Hold(Vec<c01::Op>),
}

pub fn decode_c02(data: &[u8]) -> C02Case {
    let mut u = U::new(data);
    match byte(&mut u) % 4 {
        0 | 1 => {
            let scopes = 1 + (byte(&mut u) % 3) as usize;
            let mut layout = Vec::new();
            for _ in 0..scopes {
                let mut row = [None, None, None];
                for cell in row.iter_mut() {
                    let b = byte(&mut u);
                    if b % 3 != 0 {
                        *cell = Some((b % 30) as i64);
                    }
                }
                layout.push(row);
            }
            let mut ops = Vec::new();
            while !u.is_empty() && ops.len() < 80 {
                let t = byte(&mut u) % 3;
                let h = byte(&mut u) % 4;
                let x = byte(&mut u);
                use c02::{Acc, GOp, Panicking};
                ops.push(match x % 16 {
                    0..=6 => GOp::Acquire(t, h, [Acc::TryBorrow, Acc::TryBorrowMut, Acc::TryBorrowValue, Acc::TryBorrowValueMut][(x / 16) as usize % 4].clone()),
                    7..=9 => GOp::Release(h),
                    10 => GOp::Read(h),
                    11 | 12 => GOp::Write(h, (x / 16) as i64),
                    13 => GOp::SetValue(t, (x / 16) as i64),
                    14 => GOp::TryGetValue(t, h),
                    _ => GOp::Panicky(t, h, [Panicking::Borrow, Panicking::BorrowMut, Panicking::GetValue, Panicking::BorrowValue, Panicking::BorrowValueMut][(x / 16) as usize % 5].clone()),
                });
            }
            C02Case::Guards(c02::GuardCase { layout, ops })
        }
        2 => {
            let tuple = u.arbitrary::<u16>().unwrap_or(0) as usize;
            let n = 1 + (byte(&mut u) % 3) as usize;
            let layout = (0..n).map(|_| byte(&mut u)).collect();
            C02Case::Multi(c02::MultiCase { tuple, layout, panicking: byte(&mut u) % 2 == 0 })
        }
        _ => C02Case::Hold(c01_ops(&mut u, 3, true, 60)),
    }
}

// ---- C03 ----

fn c03_body(u: &mut U, depth: u8, budget: &mut usize) -> Vec<c03::Node> {
    let n = (byte(u) % 4) as usize;
    (0..n).filter_map(|_| if *budget == 0 { None } else { Some(c03_node(u, depth, budget)) }).collect()
}

fn c03_script(u: &mut U) -> Vec<bool> {
    let b = byte(u);
    (0..(b % 4)).map(|i| (b >> (2 + i)) & 1 == 1).collect()
}

fn c03_node(u: &mut U, depth: u8, budget: &mut usize) -> c03::Node {
    use c03::{Effect, Node};
    *budget = budget.saturating_sub(1);
    let b = byte(u);
    if depth == 0 || b % 16 < 7 {
        let k = byte(u) % 5;
        let v = (byte(u) % 50) as i64;
        let e = match b % 7 {
            0 => Effect::None,
            1 => if k % 2 == 0 { Effect::Bump } else if v % 2 == 0 { Effect::Hold(k) } else { Effect::EntryInsert(k, 150 + v) },
            2 | 3 => Effect::Insert(k, v),
            4 => Effect::Set(k, 100 + v),
            5 => Effect::InitInsert(k, 50 + v),
            _ => Effect::Require(k),
        };
        return Node::Leaf(0, e);
    }
    match b % 16 {
        7 => Node::Seq(c03_body(u, depth - 1, budget)),
        8..=10 => Node::While(0, c03_script(u), c03_body(u, depth - 1, budget)),
        11 => Node::If(0, c03_script(u), c03_body(u, depth - 1, budget)),
        12 => Node::IfElse(0, c03_script(u), c03_body(u, depth - 1, budget), c03_body(u, depth - 1, budget)),
        13 => Node::ScopeWith(c03_body(u, depth - 1, budget)),
        _ => Node::Scope(c03_body(u, depth - 1, budget)),
    }
}

pub fn decode_c03(data: &[u8]) -> c03::Case {
    let mut u = U::new(data);
    let flags = byte(&mut u);
    let fault = if flags & 1 == 1 { Some(byte(&mut u) as u16) } else { None };
    let mut seeds = [None; 5];
    for (k, s) in seeds.iter_mut().enumerate() {
        if k < 4 && flags & (2 << k) != 0 {
            *s = Some(10 * k as i64 + (byte(&mut u) % 9) as i64);
        }
    }
    let mut budget = 40;
    let mut tree = Vec::new();
    while !u.is_empty() && budget > 0 && tree.len() < 5 {
        tree.push(c03_node(&mut u, 5, &mut budget));
    }
    let (mut a, mut b) = (0, 0);
    c03::normalise(&mut tree, &mut a, &mut b);
    c03::Case { tree, seeds, outer_scope: flags & 64 != 0, fault, seed_iterations: if flags & 128 != 0 { Some(40) } else { None } }
}

// ---- C04 ----

pub fn decode_c04(data: &[u8]) -> Vec<c04::Op> {
    use c04::Op;
    let mut u = U::new(data);
    let mut ops = Vec::new();
    while !u.is_empty() && ops.len() < 120 {
        let b = byte(&mut u);
        let ind = |u: &mut U| -> c04::Ind {
            let x = byte(u);
            ((x % 40) as u16, if x % 5 == 0 { None } else { Some((x / 40) as i8 - 3) })
        };
        ops.push(match b % 23 {
            0..=5 => {
                let n = (byte(&mut u) % 5) as usize;
                Op::Push((0..n).map(|_| ind(&mut u)).collect())
            }
            6 | 7 => Op::Pop,
            8 | 9 => Op::TryPop,
            10..=13 => Op::Rotate(byte(&mut u) % 6),
            14 => Op::EditPush(ind(&mut u)),
            15 => [Op::EditRemoveFirst, Op::EditReverse, Op::EditRetag((byte(&mut u) % 40) as u16)][(b / 20) as usize % 3].clone(),
            16 => if b >= 128 { Op::Nest(byte(&mut u) % 3) } else { Op::CompRotate(byte(&mut u) % 7) },
            17 => [Op::CompClear, Op::CompDuplicate][(b / 20) as usize % 2].clone(),
            18 => Op::CompInterleave,
            20 => Op::ScopedEdit(byte(&mut u) % 3, byte(&mut u) % 3, ind(&mut u)),
            21 => Op::ShadowedAccess(byte(&mut u) % 2),
            22 => Op::ScopedHoldFail(byte(&mut u) % 3, ind(&mut u)),
            _ => Op::CompSplit,
        });
    }
    ops
}

// ---- C13 ----

pub fn decode_c13(data: &[u8]) -> c13::HelperCase {
    use c13::HelperCase;
    use crate::props::c09::Fb;
    let mut u = U::new(data);
    let kind = byte(&mut u) % 6;
    let n = 1 + (byte(&mut u) % 12) as usize;
    // a permutation of 0..n by Fisher-Yates from the bytes
    let mut perm = |u: &mut U| -> Vec<usize> {
        let mut p: Vec<usize> = (0..n).collect();
        for i in (1..n).rev() {
            p.swap(i, byte(u) as usize % (i + 1));
        }
        p
    };
    match kind {
        0 => {
            let n = n.max(2);
            let mut p: Vec<usize> = (0..n).collect();
            for i in (1..n).rev() {
                p.swap(i, byte(&mut u) as usize % (i + 1));
            }
            let k = 2 + byte(&mut u) as usize % (n - 1);
            p.truncate(k);
            HelperCase::CircularSwap { n, indices: p }
        }
        1 => {
            let start = byte(&mut u) as usize % n;
            let end = start + byte(&mut u) as usize % (n - start + 1);
            let room = n - (end - start);
            let index = (byte(&mut u) as usize % room.max(1)).min(n - 1);
            HelperCase::Translocate { n, start, end, index }
        }
        2 => {
            let n = n.max(2);
            let p1: Vec<u8> = (0..n).map(|_| byte(&mut u) % 3).collect();
            let p2: Vec<u8> = (0..n).map(|_| byte(&mut u) % 3).collect();
            let mut idx: Vec<usize> = (0..n).collect();
            for i in (1..n).rev() {
                idx.swap(i, byte(&mut u) as usize % (i + 1));
            }
            idx.truncate(1 + byte(&mut u) as usize % (n - 1));
            HelperCase::MultiPoint { p1, p2, indices: idx }
        }
        3 => {
            let p1: Vec<u8> = (0..n).map(|_| byte(&mut u) % 3).collect();
            let p2: Vec<u8> = (0..n).map(|_| byte(&mut u) % 3).collect();
            let mask: Vec<bool> = (0..n).map(|_| byte(&mut u) % 2 == 0).collect();
            HelperCase::Uniform { p1, p2, mask }
        }
        4 => {
            let f = |u: &mut U| (u.arbitrary::<i16>().unwrap_or(0) as f64) / 8.0;
            let p1: Vec<Fb> = (0..n).map(|_| Fb::of(f(&mut u))).collect();
            let mut p2: Vec<Fb> = (0..n).map(|_| Fb::of(f(&mut u))).collect();
            let alphas: Vec<Fb> = (0..n).map(|_| Fb::of(byte(&mut u) as f64 / 255.0)).collect();
            // the last byte shortens the second parent by up to two genes (at least one stays)
            let cut = (byte(&mut u) % 3) as usize;
            let keep = p2.len().saturating_sub(cut).max(1).min(p2.len());
            p2.truncate(keep);
            HelperCase::Arithmetic { p1, p2, alphas }
        }
        _ => {
            let p1 = perm(&mut u);
            let p2 = perm(&mut u);
            HelperCase::Cycle { p1, p2 }
        }
    }
}

// ---- entry points ----

/// Once per process: quiet panic hook (libfuzzer-sys installs one that aborts on ANY panic, but the oracles
/// expect and catch panics of the panicking accessors) and the known-findings list.
pub fn init(id: &str) {
    static ONCE: std::sync::Once = std::sync::Once::new();
    ONCE.call_once(|| {
        crate::engine::install_quiet_panic_hook();
        crate::engine::load_known(id);
        crate::engine::LIGHT_PROBES.store(true, std::sync::atomic::Ordering::Relaxed);
    });
}

fn verdict(id: &str, r: Result<(), Failure>) {
    if let Err(f) = r {
        if !is_known_sig(&f.sig) {
            eprintln!("VIOLATION property={id} signature={} :: {}", f.sig, f.msg);
            std::process::abort();
        }
    }
}

/// Runs the oracle for the decoded case; panics on a violation that is not a known finding.
pub fn run(id: &str, data: &[u8]) {
    init(id);
    match id {
        "C01" => verdict(id, c01::RegistryCheck.oracle(&decode_c01(data)).result),
        "C02" => match decode_c02(data) {
            C02Case::Guards(c) => verdict(id, c02::GuardCheck.oracle(&c).result),
            C02Case::Multi(c) => verdict(id, c02::MultiCheck.oracle(&c).result),
            C02Case::Hold(c) => verdict(id, c02::HoldCheck.oracle(&c).result),
        },
        "C03" => verdict(id, c03::ConfigCheck.oracle(&decode_c03(data)).result),
        "C04" => verdict(id, c04::StackCheck.oracle(&decode_c04(data)).result),
        "C13" => verdict(id, c13::HelperCheck.oracle(&decode_c13(data)).result),
        _ => {}
    }
}

fn sig_of(id: &str, data: &[u8]) -> Option<String> {
    let r = match id {
        "C01" => c01::RegistryCheck.oracle(&decode_c01(data)).result,
        "C02" => match decode_c02(data) {
            C02Case::Guards(c) => c02::GuardCheck.oracle(&c).result,
            C02Case::Multi(c) => c02::MultiCheck.oracle(&c).result,
            C02Case::Hold(c) => c02::HoldCheck.oracle(&c).result,
        },
        "C03" => c03::ConfigCheck.oracle(&decode_c03(data)).result,
        "C04" => c04::StackCheck.oracle(&decode_c04(data)).result,
        "C13" => c13::HelperCheck.oracle(&decode_c13(data)).result,
        _ => Ok(()),
    };
    r.err().map(|f| f.sig)
}

/// Delta-debugging on the artifact bytes: removes chunks as long as the failure keeps the same signature.
pub fn minimise(id: &str, data: &[u8]) -> Vec<u8> {
    let Some(sig) = sig_of(id, data) else { return data.to_vec() };
    let mut cur = data.to_vec();
    let mut chunk = (cur.len() / 2).max(1);
    let mut budget = 4000;
    while chunk >= 1 && budget > 0 {
        let mut i = 0;
        let mut progressed = false;
        while i < cur.len() && budget > 0 {
            let end = (i + chunk).min(cur.len());
            let mut cand = cur.clone();
            cand.drain(i..end);
            budget -= 1;
            if sig_of(id, &cand).as_deref() == Some(sig.as_str()) {
                cur = cand;
                progressed = true;
            } else {
                i += chunk;
            }
        }
        if chunk == 1 && !progressed {
            break;
        }
        if !progressed {
            chunk /= 2;
        }
    }
    cur
}

/// Converts a fuzzer artifact into a JSON replay file through the normal engine path (after minimising it).
pub fn replay_bytes(ctx: &mut crate::engine::Ctx, data: &[u8]) {
    let min = minimise(&ctx.id.clone(), data);
    let data: &[u8] = &min;
    let one = |ctx: &mut crate::engine::Ctx, name: &str, case: serde_json::Value, r: Result<(), Failure>| {
        if let Err(f) = r {
            let mut f = f;
            f.msg = format!("[found by the libFuzzer target] {}", f.msg);
            ctx.violation(name, &case, f);
        } else {
            println!("artifact does not violate the property (held on this input)");
        }
    };
    match ctx.id.clone().as_str() {
        "C01" => {
            let c = decode_c01(data);
            let k = c01::RegistryCheck;
            one(ctx, &k.name(), serde_json::to_value(&c).unwrap(), k.oracle(&c).result)
        }
        "C02" => match decode_c02(data) {
            C02Case::Guards(c) => {
                let k = c02::GuardCheck;
                one(ctx, &k.name(), serde_json::to_value(&c).unwrap(), k.oracle(&c).result)
            }
            C02Case::Multi(c) => {
                let k = c02::MultiCheck;
                one(ctx, &k.name(), serde_json::to_value(&c).unwrap(), k.oracle(&c).result)
            }
            C02Case::Hold(c) => {
                let k = c02::HoldCheck;
                one(ctx, &k.name(), serde_json::to_value(&c).unwrap(), k.oracle(&c).result)
            }
        },
        "C03" => {
            let c = decode_c03(data);
            let k = c03::ConfigCheck;
            one(ctx, &k.name(), serde_json::to_value(&c).unwrap(), k.oracle(&c).result)
        }
        "C04" => {
            let c = decode_c04(data);
            let k = c04::StackCheck;
            one(ctx, &k.name(), serde_json::to_value(&c).unwrap(), k.oracle(&c).result)
        }
        "C13" => {
            let c = decode_c13(data);
            let k = c13::HelperCheck;
            one(ctx, &k.name(), serde_json::to_value(&c).unwrap(), k.oracle(&c).result)
        }
        _ => {}
    }
}
