use std::path::PathBuf;

use vharness::{
    engine::{install_quiet_panic_hook, Ctx, Tier},
    props,
};

fn usage() -> ! {
    eprintln!("usage: vcheck <ID> <quick|thorough> | vcheck <ID> --replay <file>");
    std::process::exit(2);
}

fn main() {
    let args: Vec<String> = std::env::args().skip(1).collect();
    if args.is_empty() {
        usage();
    }
    let id = args[0].to_uppercase();
    let mut tier = match std::env::var("VERIF_TIER").ok().as_deref() {
        Some("thorough") => Tier::Thorough,
        _ => Tier::Quick,
    };
    let mut replay: Option<PathBuf> = None;
    let mut from_bytes: Option<PathBuf> = None;
    let mut i = 1;
    while i < args.len() {
        match args[i].as_str() {
            "quick" => tier = Tier::Quick,
            "thorough" => tier = Tier::Thorough,
            "--replay" => {
                i += 1;
                replay = Some(PathBuf::from(args.get(i).cloned().unwrap_or_else(|| usage())));
            }
            "--from-bytes" => {
                i += 1;
                from_bytes = Some(PathBuf::from(args.get(i).cloned().unwrap_or_else(|| usage())));
            }
            _ => usage(),
        }
        i += 1;
    }
    let seed: u64 = std::env::var("VERIF_SEED")
        .ok()
        .and_then(|s| s.trim().parse::<i128>().ok())
        .map(|v| v as u64)
        .unwrap_or(0);
    let Some((_, run)) = props::registry().into_iter().find(|(n, _)| *n == id) else {
        eprintln!("unknown property id {id}");
        std::process::exit(2);
    };
    install_quiet_panic_hook();
    // global watchdog: a hang is an infrastructure failure (exit 2), never a violation
    let limit = match tier {
        Tier::Quick => 20 * 60,
        Tier::Thorough => 3 * 3600,
    };
    std::thread::spawn(move || {
        std::thread::sleep(std::time::Duration::from_secs(limit));
        if vharness::engine::VIOLATION_SEEN.load(std::sync::atomic::Ordering::SeqCst) {
            eprintln!("watchdog expired after {limit} s; a violation was already reported");
            std::process::exit(1);
        }
        eprintln!("INCONCLUSIVE: watchdog expired after {limit} s");
        std::process::exit(2);
    });
    // memory watchdog: runaway allocation (e.g. a loop in the code under test that never terminates and keeps
    // pushing) is reported as inconclusive before the kernel kills the process
    std::thread::spawn(move || {
        let limit_kb: u64 = std::env::var("VERIF_MAX_RSS_GB").ok().and_then(|v| v.parse::<u64>().ok()).unwrap_or(24) * 1024 * 1024;
        loop {
            std::thread::sleep(std::time::Duration::from_millis(50));
            let rss_kb = std::fs::read_to_string("/proc/self/statm").ok().and_then(|t| t.split_whitespace().nth(1).and_then(|p| p.parse::<u64>().ok())).map(|pages| pages * 4).unwrap_or(0);
            if rss_kb > limit_kb {
                let phase = vharness::engine::PHASE.lock().map(|g| g.clone()).unwrap_or_default();
                if vharness::engine::VIOLATION_SEEN.load(std::sync::atomic::Ordering::SeqCst) {
                    eprintln!("memory watchdog: resident set {} MiB while in `{phase}`; a violation was already reported", rss_kb / 1024);
                    std::process::exit(1);
                }
                eprintln!("INCONCLUSIVE: memory watchdog: resident set {} MiB while in `{phase}` (runaway allocation in the code under test or in the harness)", rss_kb / 1024);
                std::process::exit(2);
            }
        }
    });
    let mut ctx = Ctx::new(&id, tier, seed);
    if replay.is_some() {
        ctx.set_strict();
    }
    if let Some(p) = &from_bytes {
        // convert a libFuzzer artifact into a JSON replay (strict: known findings suppress nothing)
        ctx.set_strict();
        let data = std::fs::read(p).unwrap_or_else(|e| {
            eprintln!("cannot read {}: {e}", p.display());
            std::process::exit(2)
        });
        vharness::fuzz::replay_bytes(&mut ctx, &data);
        std::process::exit(if ctx.violations.is_empty() { 0 } else { 1 });
    }
    run(&mut ctx, replay.as_deref());
    if tier == Tier::Thorough && replay.is_none() {
        // statistics of the libFuzzer campaign that the driver ran just before (C01-C04, C13)
        if let Ok(text) = std::fs::read_to_string(format!("/verif/out/fuzz/{id}.json")) {
            if let Ok(v) = serde_json::from_str::<serde_json::Value>(&text) {
                ctx.extra("fuzz_campaign", v);
            }
        }
    }
    let code = ctx.finish();
    std::process::exit(code);
}
