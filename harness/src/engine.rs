//! Check engine: tiers, seeds, case accounting, proptest driving with shrinking, replay files,
//! known-findings matching, evidence writing, panic capture.

use std::{
    cell::RefCell,
    collections::{hash_map::DefaultHasher, BTreeMap, HashSet},
    fmt::Debug,
    hash::{Hash, Hasher},
    panic::{catch_unwind, AssertUnwindSafe},
    path::{Path, PathBuf},
    time::Instant,
};

use proptest::{
    strategy::Strategy,
    test_runner::{Config, RngAlgorithm, TestCaseError, TestError, TestRng, TestRunner},
};
use serde::{de::DeserializeOwned, Deserialize, Serialize};
use serde_json::{json, Value};

pub const VERIF_DIR: &str = "/verif";

#[derive(Clone, Copy, Debug, PartialEq, Eq)]
pub enum Tier {
    Quick,
    Thorough,
}

impl Tier {
    pub fn name(self) -> &'static str {
        match self {
            Tier::Quick => "quick",
            Tier::Thorough => "thorough",
        }
    }
    /// Picks the quick or the thorough value.
    pub fn pick<T>(self, quick: T, thorough: T) -> T {
        match self {
            Tier::Quick => quick,
            Tier::Thorough => thorough,
        }
    }
}

/// An oracle failure: `sig` is the stable signature (failing call site / input class) used for
/// known-findings matching, `msg` the full explanation.
#[derive(Clone, Debug, Serialize, Deserialize)]
pub struct Failure {
    pub sig: String,
    pub msg: String,
}

impl Failure {
    pub fn new(sig: impl Into<String>, msg: impl Into<String>) -> Self {
        Self { sig: sig.into(), msg: msg.into() }
    }
}

pub type CaseResult = Result<(), Failure>;

#[macro_export]
macro_rules! fail {
    ($sig:expr, $($arg:tt)*) => {
        return Err($crate::engine::Failure::new($sig, format!($($arg)*)))
    };
}

#[macro_export]
macro_rules! ensure_that {
    ($cond:expr, $sig:expr, $($arg:tt)*) => {
        if !($cond) {
            return Err($crate::engine::Failure::new($sig, format!($($arg)*)));
        }
    };
}

/// What the oracle reports for one case.
pub struct Outcome {
    pub nontrivial: bool,
    /// Bit `i` set: the case belongs to class `Check::CLASSES[i]`.
    pub classes: u64,
    pub result: CaseResult,
}

impl Outcome {
    pub fn new(nontrivial: bool, classes: u64, result: CaseResult) -> Self {
        Self { nontrivial, classes, result }
    }
}

pub trait Check {
    type Case: Serialize + DeserializeOwned + Clone + Debug;
    fn name(&self) -> String;
    fn classes(&self) -> &'static [&'static str] {
        &[]
    }
    fn oracle(&self, case: &Self::Case) -> Outcome;
}

#[derive(Clone, Debug, Deserialize)]
pub struct KnownFinding {
    pub property: String,
    /// Exact signature, or a prefix when it ends in `*`.
    pub signature: String,
    /// "known" (suppresses, prints KNOWN-FINDING) or "fixed" (suppresses nothing).
    pub status: String,
    pub what: String,
    #[serde(default)]
    pub commit: Option<String>,
}

impl KnownFinding {
    fn matches(&self, property: &str, sig: &str) -> bool {
        if self.property != property || self.status != "known" {
            return false;
        }
        if let Some(prefix) = self.signature.strip_suffix('*') {
            sig.starts_with(prefix)
        } else {
            self.signature == sig
        }
    }
}

#[derive(Default, Serialize)]
struct SubStats {
    name: String,
    engine: String,
    evaluations: u64,
    distinct_nontrivial: u64,
    exhaustive: bool,
    bound: String,
    classes: BTreeMap<String, u64>,
}

#[derive(Serialize, Clone)]
pub struct Violation {
    pub check: String,
    pub sig: String,
    pub msg: String,
    pub replay: String,
}

pub struct Ctx {
    pub id: String,
    pub tier: Tier,
    pub seed: u64,
    start: Instant,
    subs: Vec<SubStats>,
    samples: Vec<Value>,
    pub violations: Vec<Violation>,
    known: Vec<KnownFinding>,
    known_hits: BTreeMap<String, (u64, String)>,
    rule: String,
    assumptions: Vec<String>,
    extra: BTreeMap<String, Value>,
    level: String,
    /// Replay mode: only replay the given file.
    pub strict: bool,
}

/// Set once a VIOLATION line was printed (the watchdog then reports the verdict instead of `inconclusive`).
/// what the process is doing right now (for the resource watchdogs' messages)
pub static PHASE: std::sync::Mutex<String> = std::sync::Mutex::new(String::new());
pub fn set_phase(p: String) {
    if let Ok(mut g) = PHASE.lock() {
        *g = p;
    }
}

pub static VIOLATION_SEEN: std::sync::atomic::AtomicBool = std::sync::atomic::AtomicBool::new(false);

/// Set by the fuzz targets: oracles then run their panic-provoking probes less often.
pub static LIGHT_PROBES: std::sync::atomic::AtomicBool = std::sync::atomic::AtomicBool::new(false);

static SOFT_KNOWN: std::sync::RwLock<Vec<(KnownFinding, String)>> = std::sync::RwLock::new(Vec::new());
static SOFT_HITS: std::sync::Mutex<BTreeMap<String, u64>> = std::sync::Mutex::new(BTreeMap::new());

/// For oracles that check several independent facts per case: a failure whose signature is a listed
/// known finding is counted and skipped (the input class is excluded, the rest of the case is still checked);
/// any other failure is returned.
pub fn soft_fail(f: Failure) -> CaseResult {
    let known = SOFT_KNOWN.read().unwrap();
    if known.iter().any(|(k, id)| k.matches(id, &f.sig)) {
        *SOFT_HITS.lock().unwrap().entry(f.sig).or_insert(0) += 1;
        Ok(())
    } else {
        Err(f)
    }
}

/// Loads the known findings of property `id` without a `Ctx` (fuzz targets).
pub fn load_known(id: &str) {
    let known: Vec<KnownFinding> = std::fs::read_to_string(format!("{VERIF_DIR}/known_findings.json"))
        .ok()
        .and_then(|s| serde_json::from_str::<Value>(&s).ok())
        .and_then(|v| v.get("findings").cloned())
        .and_then(|v| serde_json::from_value(v).ok())
        .unwrap_or_default();
    *SOFT_KNOWN.write().unwrap() = known.iter().filter(|k| k.property == id).map(|k| (k.clone(), id.to_string())).collect();
}

/// Whether `sig` is a listed known finding of the running property (false in replay mode).
pub fn is_known_sig(sig: &str) -> bool {
    SOFT_KNOWN.read().unwrap().iter().any(|(k, id)| k.matches(id, sig))
}

thread_local! {
    static LAST_PANIC: RefCell<Option<String>> = RefCell::new(None);
}

pub fn install_quiet_panic_hook() {
    std::panic::set_hook(Box::new(|info| {
        let msg = if let Some(s) = info.payload().downcast_ref::<&str>() {
            s.to_string()
        } else if let Some(s) = info.payload().downcast_ref::<String>() {
            s.clone()
        } else {
            "<non-string panic payload>".to_string()
        };
        let loc = info
            .location()
            .map(|l| format!("{}:{}", l.file(), l.line()))
            .unwrap_or_default();
        LAST_PANIC.with(|p| *p.borrow_mut() = Some(format!("{msg} @ {loc}")));
    }));
}

/// Runs `f`, turning a panic into `Err(message @ file:line)`.
pub fn catch<T>(f: impl FnOnce() -> T) -> Result<T, String> {
    match catch_unwind(AssertUnwindSafe(f)) {
        Ok(v) => Ok(v),
        Err(_) => Err(LAST_PANIC
            .with(|p| p.borrow_mut().take())
            .unwrap_or_else(|| "<panic>".to_string())),
    }
}

/// Strips numbers/addresses from a panic message so that it can be used inside a signature.
pub fn sig_of_panic(msg: &str) -> String {
    let head: String = msg.chars().take(90).collect();
    let mut out = String::new();
    let mut prev_digit = false;
    for c in head.chars() {
        if c.is_ascii_digit() {
            if !prev_digit {
                out.push('#');
            }
            prev_digit = true;
        } else {
            prev_digit = false;
            out.push(c);
        }
    }
    out
}

pub fn hash_of<T: Hash>(t: &T) -> u64 {
    let mut h = DefaultHasher::new();
    t.hash(&mut h);
    h.finish()
}

pub fn hash_json<T: Serialize>(t: &T) -> u64 {
    let s = serde_json::to_string(t).unwrap_or_default();
    hash_of(&s)
}

fn truncate_value(v: Value) -> Value {
    let s = v.to_string();
    if s.len() > 4000 {
        json!({"truncated": s.chars().take(4000).collect::<String>()})
    } else {
        v
    }
}

impl Ctx {
    pub fn new(id: &str, tier: Tier, seed: u64) -> Self {
        let known: Vec<KnownFinding> = std::fs::read_to_string(format!("{VERIF_DIR}/known_findings.json"))
            .ok()
            .and_then(|s| serde_json::from_str::<Value>(&s).ok())
            .and_then(|v| v.get("findings").cloned())
            .and_then(|v| serde_json::from_value(v).ok())
            .unwrap_or_default();
        *SOFT_KNOWN.write().unwrap() = known.iter().filter(|k| k.property == id).map(|k| (k.clone(), id.to_string())).collect();
        Self {
            id: id.to_string(),
            tier,
            seed,
            start: Instant::now(),
            subs: Vec::new(),
            samples: Vec::new(),
            violations: Vec::new(),
            known,
            known_hits: BTreeMap::new(),
            rule: String::new(),
            assumptions: Vec::new(),
            extra: BTreeMap::new(),
            level: "exploration".into(),
            strict: false,
        }
    }

    pub fn rule(&mut self, rule: &str) {
        self.rule = rule.to_string();
    }
    pub fn level(&mut self, level: &str) {
        self.level = level.to_string();
    }
    pub fn assume(&mut self, a: &str) {
        self.assumptions.push(a.to_string());
    }
    pub fn extra(&mut self, key: &str, v: Value) {
        self.extra.insert(key.to_string(), v);
    }
    pub fn elapsed(&self) -> f64 {
        self.start.elapsed().as_secs_f64()
    }

    fn is_known(&self, sig: &str) -> Option<&KnownFinding> {
        if self.strict {
            return None;
        }
        self.known.iter().find(|k| k.matches(&self.id, sig))
    }

    /// Whether a signature is a listed known finding (for audits that must *skip* the input class).
    pub fn known(&self, sig: &str) -> bool {
        self.is_known(sig).is_some()
    }

    fn hit_known(&mut self, sig: &str) {
        let what = self.is_known(sig).map(|k| k.what.clone()).unwrap_or_default();
        let e = self.known_hits.entry(sig.to_string()).or_insert((0, what));
        e.0 += 1;
    }

    /// Records a known-finding hit from an audit outside the `Check` machinery.
    pub fn note_known(&mut self, sig: &str) {
        self.hit_known(sig);
    }

    fn seed_for(&self, name: &str) -> [u8; 32] {
        let mut seed = [0u8; 32];
        let a = hash_of(&(self.seed, name, 1u8));
        let b = hash_of(&(self.seed, name, 2u8));
        let c = hash_of(&(self.seed, &self.id, 3u8));
        let d = hash_of(&(self.seed, name, 4u8));
        seed[0..8].copy_from_slice(&a.to_le_bytes());
        seed[8..16].copy_from_slice(&b.to_le_bytes());
        seed[16..24].copy_from_slice(&c.to_le_bytes());
        seed[24..32].copy_from_slice(&d.to_le_bytes());
        seed
    }

    /// A deterministic 64-bit seed derived from VERIF_SEED and a label.
    pub fn derive_seed(&self, label: &str) -> u64 {
        hash_of(&(self.seed, &self.id, label))
    }

    fn write_replay<C: Serialize>(&self, check: &str, case: &C, f: &Failure) -> String {
        let dir = format!("{VERIF_DIR}/out/replays");
        let _ = std::fs::create_dir_all(&dir);
        let body = json!({
            "property": self.id,
            "check": check,
            "signature": f.sig,
            "message": f.msg,
            "seed": self.seed,
            "tier": self.tier.name(),
            "case": case,
        });
        let h = hash_of(&(check, &f.sig, body["case"].to_string()));
        let path = format!("{dir}/{}-{:016x}.json", self.id, h);
        let _ = std::fs::write(&path, serde_json::to_string_pretty(&body).unwrap());
        path
    }

    fn record_violation<C: Serialize>(&mut self, check: &str, case: &C, f: &Failure) {
        if self.violations.iter().any(|v| v.sig == f.sig && v.check == check) {
            return;
        }
        let path = self.write_replay(check, case, f);
        VIOLATION_SEEN.store(true, std::sync::atomic::Ordering::SeqCst);
        println!("VIOLATION property={} replay={}", self.id, path);
        println!("  check={} signature={}", check, f.sig);
        println!("  {}", f.msg.lines().take(12).collect::<Vec<_>>().join("\n  "));
        self.violations.push(Violation {
            check: check.to_string(),
            sig: f.sig.clone(),
            msg: f.msg.clone(),
            replay: path,
        });
    }

    /// Reports a violation found by an audit that has its own case representation.
    pub fn violation<C: Serialize>(&mut self, check: &str, case: &C, f: Failure) {
        if self.is_known(&f.sig).is_some() {
            self.hit_known(&f.sig);
        } else {
            self.record_violation(check, case, &f);
        }
    }

    fn eval<K: Check>(k: &K, case: &K::Case) -> Outcome {
        match catch(|| k.oracle(case)) {
            Ok(o) => o,
            Err(p) => Outcome {
                nontrivial: false,
                classes: 0,
                result: Err(Failure::new(
                    format!("{} unexpected panic: {}", k.name(), sig_of_panic(&p)),
                    format!("panic outside the places where the oracle expects one: {p}"),
                )),
            },
        }
    }

    fn account<K: Check>(
        k: &K,
        sub: &mut SubStats,
        seen: &mut HashSet<u64>,
        samples: &mut Vec<Value>,
        case: &K::Case,
        o: &Outcome,
        n_samples_of_sub: &mut u32,
    ) {
        sub.evaluations += 1;
        let names = k.classes();
        let mut bits = o.classes;
        while bits != 0 {
            let i = bits.trailing_zeros() as usize;
            bits &= bits - 1;
            if let Some(n) = names.get(i) {
                *sub.classes.entry(n.to_string()).or_insert(0) += 1;
            }
        }
        if o.nontrivial {
            // hashing the debug form is cheaper than JSON and good enough for distinctness
            let h = hash_of(&format!("{case:?}"));
            if seen.insert(h) {
                sub.distinct_nontrivial += 1;
                if *n_samples_of_sub < 2 {
                    *n_samples_of_sub += 1;
                    samples.push(truncate_value(json!({"check": k.name(), "nontrivial": true, "case": case})));
                }
            }
        }
    }

    /// Bounded-exhaustive enumeration. Stops this enumeration at the first failure that is not a known finding.
    pub fn exhaustive<K: Check>(&mut self, k: &K, bound: &str, cases: impl Iterator<Item = K::Case>) {
        let name = k.name();
        set_phase(format!("{name}: exhaustive enumeration ({bound})"));
        let mut sub = SubStats { name: name.clone(), engine: "exhaustive".into(), exhaustive: true, bound: bound.into(), ..Default::default() };
        let mut seen = HashSet::new();
        let mut ns = 0u32;
        let mut samples = Vec::new();
        for case in cases {
            let o = Self::eval(k, &case);
            Self::account(k, &mut sub, &mut seen, &mut samples, &case, &o, &mut ns);
            if let Err(f) = &o.result {
                if self.is_known(&f.sig).is_some() {
                    self.hit_known(&f.sig);
                } else {
                    self.record_violation(&name, &case, f);
                    sub.exhaustive = false;
                    break;
                }
            }
        }
        self.samples.extend(samples);
        self.subs.push(sub);
    }

    /// Random generation with proptest (integrated shrinking). Stops at the first failure that is not known.
    pub fn random<K: Check, S: Strategy<Value = K::Case>>(&mut self, k: &K, strategy: S, cases: u32) {
        let name = k.name();
        set_phase(format!("{name}: {cases} proptest cases"));
        let mut sub = SubStats { name: name.clone(), engine: "proptest".into(), bound: format!("{cases} cases"), ..Default::default() };
        let config = Config {
            cases,
            failure_persistence: None,
            max_shrink_iters: 4000,
            max_global_rejects: 100_000,
            max_local_rejects: 100_000,
            ..Config::default()
        };
        let rng = TestRng::from_seed(RngAlgorithm::ChaCha, &self.seed_for(&name));
        let mut runner = TestRunner::new_with_rng(config, rng);
        let seen = RefCell::new(HashSet::new());
        let samples = RefCell::new(Vec::new());
        let subc = RefCell::new(&mut sub);
        let ns = RefCell::new(0u32);
        let failed_once = RefCell::new(false);
        let known_hits: RefCell<Vec<String>> = RefCell::new(Vec::new());
        let this: &Ctx = self;
        let result = runner.run(&strategy, |case| {
            let o = Self::eval(k, &case);
            if !*failed_once.borrow() {
                Self::account(k, &mut subc.borrow_mut(), &mut seen.borrow_mut(), &mut samples.borrow_mut(), &case, &o, &mut ns.borrow_mut());
            }
            match &o.result {
                Ok(()) => Ok(()),
                Err(f) => {
                    if this.is_known(&f.sig).is_some() {
                        if !*failed_once.borrow() {
                            known_hits.borrow_mut().push(f.sig.clone());
                        }
                        Ok(())
                    } else {
                        *failed_once.borrow_mut() = true;
                        Err(TestCaseError::fail(f.sig.clone()))
                    }
                }
            }
        });
        drop(subc);
        for sig in known_hits.into_inner() {
            self.hit_known(&sig);
        }
        self.samples.extend(samples.into_inner());
        match result {
            Ok(()) => {}
            Err(TestError::Fail(_, case)) => {
                // re-evaluate the shrunk case to get its own signature and message
                let o = Self::eval(k, &case);
                let f = match o.result {
                    Err(f) => f,
                    Ok(()) => Failure::new(format!("{name} non-reproducible failure"), "shrunk case passed on re-evaluation".to_string()),
                };
                if self.is_known(&f.sig).is_some() {
                    self.hit_known(&f.sig);
                } else {
                    self.record_violation(&name, &case, &f);
                }
            }
            Err(TestError::Abort(reason)) => {
                eprintln!("INCONCLUSIVE: proptest aborted {name}: {reason}");
                self.extra.insert(format!("aborted:{name}"), json!(reason.to_string()));
            }
        }
        self.subs.push(sub);
    }

    /// Replays committed regression cases `/verif/replays/<ID>-*.json` that belong to check `k`.
    pub fn regressions<K: Check>(&mut self, k: &K) {
        let name = k.name();
        let dir = format!("{VERIF_DIR}/replays");
        let mut files: Vec<PathBuf> = std::fs::read_dir(&dir)
            .map(|rd| rd.filter_map(|e| e.ok().map(|e| e.path())).collect())
            .unwrap_or_default();
        files.sort();
        let mut sub = SubStats { name: format!("{name} (regression replays)"), engine: "replay".into(), ..Default::default() };
        let mut seen = HashSet::new();
        let mut samples = Vec::new();
        let mut ns = 2;
        for p in files {
            let fname = p.file_name().and_then(|f| f.to_str()).unwrap_or("");
            if !fname.starts_with(&format!("{}-", self.id)) || !fname.ends_with(".json") {
                continue;
            }
            let Ok(text) = std::fs::read_to_string(&p) else { continue };
            let Ok(v) = serde_json::from_str::<Value>(&text) else { continue };
            if v["check"].as_str() != Some(name.as_str()) {
                continue;
            }
            let Ok(case) = serde_json::from_value::<K::Case>(v["case"].clone()) else {
                eprintln!("warning: replay file {fname} does not decode as a case of {name}");
                continue;
            };
            set_phase(format!("{name}: regression replay {fname}"));
            let o = Self::eval(k, &case);
            Self::account(k, &mut sub, &mut seen, &mut samples, &case, &o, &mut ns);
            if let Err(f) = &o.result {
                if self.is_known(&f.sig).is_some() {
                    self.hit_known(&f.sig);
                } else {
                    self.record_violation(&name, &case, f);
                }
            }
        }
        if sub.evaluations > 0 {
            self.subs.push(sub);
        }
    }

    /// Replays one file against check `k` if it belongs to it. Returns true if it was handled.
    pub fn replay_file<K: Check>(&mut self, k: &K, path: &Path) -> bool {
        let Ok(text) = std::fs::read_to_string(path) else { return false };
        let Ok(v) = serde_json::from_str::<Value>(&text) else { return false };
        if v["check"].as_str() != Some(k.name().as_str()) {
            return false;
        }
        let Ok(case) = serde_json::from_value::<K::Case>(v["case"].clone()) else { return false };
        set_phase(format!("{}: replay of {}", k.name(), path.display()));
        let o = Self::eval(k, &case);
        let mut sub = SubStats { name: format!("{} (replay)", k.name()), engine: "replay".into(), ..Default::default() };
        let mut seen = HashSet::new();
        let mut samples = Vec::new();
        let mut ns = 0;
        Self::account(k, &mut sub, &mut seen, &mut samples, &case, &o, &mut ns);
        self.samples.push(truncate_value(json!({"check": k.name(), "case": case})));
        self.subs.push(sub);
        match o.result {
            Ok(()) => println!("replay {}: property held on this case", path.display()),
            Err(f) => self.record_violation(&k.name(), &case, &f),
        }
        true
    }

    /// Accounting for audits that do not go through `Check` (template runs with the step observer).
    pub fn account_manual(&mut self, name: &str, engine: &str, evaluations: u64, distinct_nontrivial: u64, classes: BTreeMap<String, u64>, samples: Vec<Value>, bound: &str) {
        self.subs.push(SubStats {
            name: name.into(),
            engine: engine.into(),
            evaluations,
            distinct_nontrivial,
            exhaustive: false,
            bound: bound.into(),
            classes,
        });
        self.samples.extend(samples.into_iter().map(truncate_value));
    }

    /// Replay mode: known findings suppress nothing.
    pub fn set_strict(&mut self) {
        self.strict = true;
        SOFT_KNOWN.write().unwrap().clear();
    }

    pub fn finish(mut self) -> i32 {
        let soft: Vec<(String, u64)> = SOFT_HITS.lock().unwrap().iter().map(|(k, v)| (k.clone(), *v)).collect();
        for (sig, n) in soft {
            let what = self.is_known(&sig).map(|k| k.what.clone()).unwrap_or_default();
            let e = self.known_hits.entry(sig).or_insert((0, what));
            e.0 += n;
        }
        let evaluations: u64 = self.subs.iter().map(|s| s.evaluations).sum();
        let distinct: u64 = self.subs.iter().map(|s| s.distinct_nontrivial).sum();
        let all_exhaustive = !self.subs.is_empty() && self.subs.iter().all(|s| s.exhaustive);
        for (sig, (n, what)) in &self.known_hits {
            println!("KNOWN-FINDING: property={} {} [signature: {}; hit {} times, excluded]", self.id, what, sig, n);
        }
        let excluded: u64 = self.known_hits.values().map(|v| v.0).sum();
        if self.samples.is_empty() {
            self.samples.push(json!("no sample recorded"));
        }
        // keep evidence files small
        let samples: Vec<Value> = self.samples.iter().take(24).cloned().collect();
        let mut coverage = json!({
            "evaluations": evaluations,
            "distinct_nontrivial": distinct,
            "rule": self.rule,
            "samples": samples,
            "exhaustive": all_exhaustive,
            "subchecks": self.subs,
            "excluded_known": excluded,
            "known_findings_hit": self.known_hits.iter().map(|(k, v)| json!({"signature": k, "hits": v.0})).collect::<Vec<_>>(),
            "violations": self.violations,
        });
        for (k, v) in &self.extra {
            coverage[k] = v.clone();
        }
        let evidence = json!({
            "property_id": self.id,
            "tier": self.tier.name(),
            "seed": self.seed,
            "level": self.level,
            "coverage": coverage,
            "assumptions": self.assumptions,
            "wall_s": self.start.elapsed().as_secs_f64(),
            "violations": self.violations.len(),
        });
        if !self.strict {
            let dir = format!("{VERIF_DIR}/evidence");
            let _ = std::fs::create_dir_all(&dir);
            let path = format!("{dir}/{}.json", self.id);
            if let Err(e) = std::fs::write(&path, serde_json::to_string_pretty(&evidence).unwrap()) {
                eprintln!("cannot write evidence {path}: {e}");
                return 2;
            }
        }
        println!(
            "{} {} seed={} evaluations={} distinct_nontrivial={} violations={} known_excluded={} wall={:.1}s",
            self.id,
            self.tier.name(),
            self.seed,
            evaluations,
            distinct,
            self.violations.len(),
            excluded,
            self.start.elapsed().as_secs_f64()
        );
        if self.violations.is_empty() {
            0
        } else {
            1
        }
    }
}

/// Maps a 16-bit draw monotonically onto `0..len` (keeps proptest shrinking effective).
pub fn idx(i: u16, len: usize) -> usize {
    if len == 0 {
        0
    } else {
        ((i as usize) * len) >> 16
    }
}
