//! C08 — same seed, same run: independent of evaluator, threads, scheduling and cloning.

use std::path::Path;

use mahf::{
    conditions::EveryN,
    experiments::par_experiment,
    lens::common::BestObjectiveValueLens,
    problems::{Parallel, Sequential},
    state::common::{Evaluations, Iterations},
    Configuration, ExecResult, Random, State,
};
use proptest::prelude::*;
use rand::{RngCore, SeedableRng};
use serde::{Deserialize, Serialize};

use crate::{
    engine::{catch, soft_fail, Check, Ctx, Failure, Outcome},
    ensure_that, fail,
    fixtures::{
        genconf::{gen_conf_strategy, GenConf},
        pool,
        problems::{Instrumented, RealKind, RealP},
        run::{dispatch, inst_strategy, real_of, run_spec_strategy, Inst, Kind, RunSpec, RunVisitor},
    },
};

#[derive(Clone, Debug, Serialize, Deserialize)]
pub enum What {
    Template(RunSpec),
    Generated(GenConf, Inst, u64),
}

#[derive(Clone, Debug, Serialize, Deserialize)]
pub struct DetCase {
    pub what: What,
    pub threads: u8,
    pub jitter: u64,
}

/// Everything a run leaves behind, as a comparable string.
fn digest<P: Instrumented>(state: &State<P>) -> String {
    let mut s = String::new();
    {
        let ps = state.populations();
        for d in (0..ps.len()).rev() {
            s.push_str(&format!("pop[{d}]:"));
            for i in ps.peek(d) {
                s.push_str(&format!("{:x}/{:?};", P::sol_hash(i.solution()), i.get_objective().map(|o| o.value().to_bits())));
            }
        }
    }
    s.push_str(&format!("|best:{:?}", state.best_individual().map(|i| (P::sol_hash(i.solution()), i.objective().value().to_bits()))));
    s.push_str(&format!("|evals:{:?}|iters:{:?}", state.try_get_value::<Evaluations>().ok(), state.try_get_value::<Iterations>().ok()));
    s.push_str(&format!("|log:{}", serde_json::to_string(&*state.log()).unwrap_or_default()));
    {
        use mahf::components::diversity::*;
        macro_rules! div {
            ($($T:ty),*) => {$(
                if let Ok(d) = state.try_borrow::<Diversity<$T>>() {
                    s.push_str(&format!("|{}:{:x}/{:x}", stringify!($T), d.diversity.to_bits(), d.max_diversity.to_bits()));
                }
            )*};
        }
        div!(DimensionWiseDiversity, PairwiseDistanceDiversity, TrueDiversity, DistanceToAveragePointDiversity);
    }
    s
}

fn run_variant<P: Instrumented + Clone + 'static>(cfg: &Configuration<P>, problem: &P, seed: u64, parallel: Option<usize>, jitter: u64) -> Result<(String, u64), String> {
    // a fresh instrument per variant so that out-of-order counts are per run
    problem.instr().0.jitter.store(jitter, std::sync::atomic::Ordering::Relaxed);
    let before_ooo = problem.instr().out_of_order();
    let body = || {
        catch(|| {
            cfg.optimize_with(problem, |state| {
                state.insert(Random::new(seed));
                match parallel {
                    None => state.insert_evaluator(Sequential::<P>::new()),
                    Some(_) => state.insert_evaluator(Parallel::<P>::new()),
                }
                state.configure_log(|c| {
                    c.with_common(EveryN::iterations(1)).with(EveryN::iterations(2), BestObjectiveValueLens::<P>::entry());
                    Ok(())
                })
            })
        })
    };
    let r = match parallel {
        Some(t) => pool(t).install(body),
        None => body(),
    };
    match r {
        Ok(Ok(state)) => Ok((digest(&state), problem.instr().out_of_order() - before_ooo)),
        Ok(Err(e)) => Err(format!("Err: {e:#}")),
        Err(p) => Err(format!("PANIC: {p}")),
    }
}

fn compare<P: Instrumented + Clone + 'static>(cfg: &Configuration<P>, problem: &P, seed: u64, threads: usize, jitter: u64, name: &str, at: &str, cl: &mut u64) -> Result<(), Failure> {
    // taken before `cfg` is used for the first time, and used on the sibling instance first (see below)
    let reused = cfg.clone();
    let sibling = problem.sibling();
    let reference = match run_variant(cfg, problem, seed, None, 0) {
        Ok(r) => r.0,
        Err(_) => return Ok(()), // failing runs are C16's subject
    };
    let cloned = cfg.clone();
    let cloned2 = cloned.clone();
    let variants: Vec<(&str, Result<(String, u64), String>)> = vec![
        ("sequential, second run", run_variant(cfg, problem, seed, None, 0)),
        ("sequential with objective latency jitter", run_variant(cfg, problem, seed, None, jitter.max(1))),
        ("parallel evaluator", run_variant(cfg, problem, seed, Some(threads), jitter.max(1))),
        ("parallel evaluator, 16 threads", run_variant(cfg, problem, seed, Some(16), jitter.max(1) + 1)),
        ("cloned configuration", run_variant(&cloned, problem, seed, None, 0)),
        ("clone of a clone, parallel", run_variant(&cloned2, problem, seed, Some(threads), jitter.max(1))),
    ];
    for (how, v) in variants {
        match v {
            Ok((d, ooo)) => {
                if ooo > 0 {
                    *cl |= 1;
                }
                if d != reference {
                    let pos = d.bytes().zip(reference.bytes()).position(|(a, b)| a != b).unwrap_or(0);
                    let lo = pos.saturating_sub(60);
                    let hi = (pos + 60).min(d.len()).min(reference.len());
                    return soft_fail(Failure::new(
                        format!("C08 {name} result depends on: {how}"),
                        format!("{at}: the run with `{how}` differs from the sequential reference with the same seed; first difference near byte {pos}:\n reference ...{}...\n variant   ...{}...", &reference[lo..hi], &d[lo..hi]),
                    ));
                }
            }
            Err(e) => return soft_fail(Failure::new(format!("C08 {name} fails only under: {how}"), format!("{at}: reference run succeeded, variant failed: {e}"))),
        }
    }
    // a configuration object whose FIRST use was on another instance of the problem type (another dimension and
    // domain / matrix): a configuration is a description, runs must not leave anything behind in it
    let _ = run_variant(&reused, &sibling, seed, None, 0);
    match run_variant(&reused, problem, seed, None, 0) {
        Ok((d, _)) => {
            *cl |= 16;
            if d != reference {
                let pos = d.bytes().zip(reference.bytes()).position(|(a, b)| a != b).unwrap_or(0);
                let lo = pos.saturating_sub(60);
                let hi = (pos + 60).min(d.len()).min(reference.len());
                return soft_fail(Failure::new(
                    format!("C08 {name} result depends on: earlier use of the configuration object on another problem"),
                    format!("{at}: after the same configuration object was run on another instance ({}), its run on the original instance differs from the first one with the same seed; first difference near byte {pos}:\n reference ...{}...\n variant   ...{}...", sibling.name(), &reference[lo..hi], &d[lo..hi]),
                ));
            }
        }
        Err(e) => return soft_fail(Failure::new(format!("C08 {name} fails only under: earlier use of the configuration object on another problem"), format!("{at}: reference run succeeded, variant failed: {e}"))),
    }
    // a different seed gives (almost surely) a different run: guards against a harness that ignores the seed
    if let Ok((d, _)) = run_variant(cfg, problem, seed ^ 0x5555_5555, None, 0) {
        if d != reference {
            *cl |= 2;
        }
    }
    Ok(())
}

struct V8<'a> {
    case: &'a DetCase,
    cl: u64,
}

impl<'a> RunVisitor for V8<'a> {
    type Out = Result<(), Failure>;
    fn visit<P: Instrumented + Clone + 'static>(&mut self, cfg: ExecResult<Configuration<P>>, problem: P, spec: &RunSpec) -> Self::Out {
        let Ok(cfg) = cfg else { return Ok(()) };
        let at = format!("{:?}", self.case);
        compare(&cfg, &problem, spec.seed, self.case.threads as usize, self.case.jitter, spec.tpl.name(), &at, &mut self.cl)
    }
}

pub struct DetCheck;

impl Check for DetCheck {
    type Case = DetCase;
    fn name(&self) -> String {
        "C08/determinism".into()
    }
    fn classes(&self) -> &'static [&'static str] {
        &["completion order differed from call order in a parallel variant", "another seed gives a different run", ">= 4 threads", "generated configuration", "configuration object reused after a run on another problem instance"]
    }
    fn oracle(&self, c: &DetCase) -> Outcome {
        let mut cl = 0u64;
        if c.threads >= 4 {
            cl |= 4;
        }
        let r = match &c.what {
            What::Template(spec) => {
                let mut v = V8 { case: c, cl: 0 };
                let r = dispatch(spec, &mut v);
                cl |= v.cl;
                r
            }
            What::Generated(g, inst, seed) => {
                cl |= 8;
                let cfg = g.build();
                let problem = real_of(inst);
                compare(&cfg, &problem, *seed, c.threads as usize, c.jitter, "generated configuration", &format!("{c:?}"), &mut cl)
            }
        };
        Outcome::new(cl & 1 != 0, cl, r)
    }
}

// ------------------------------------------------------------------------------------------------
// random generator
// ------------------------------------------------------------------------------------------------

#[derive(Clone, Debug, Serialize, Deserialize)]
pub struct RngCase {
    pub seed: u64,
    pub other: u64,
    pub depth: u8,
}

pub struct RngCheck;

fn prefix(r: &mut Random, n: usize) -> Vec<u64> {
    (0..n).map(|_| r.next_u64()).collect()
}

fn children_digest(r: &mut Random, depth: u8) -> Vec<u64> {
    let mut out = prefix(r, 4);
    if depth > 0 {
        let kids: Vec<Random> = r.iter_children().take(3).collect();
        for mut k in kids {
            out.push(k.config().seed);
            out.extend(children_digest(&mut k, depth - 1));
        }
    }
    out
}

impl Check for RngCheck {
    type Case = RngCase;
    fn name(&self) -> String {
        "C08/random".into()
    }
    fn classes(&self) -> &'static [&'static str] {
        &["children depth >= 2", "edge seed (0, 1, MAX)"]
    }
    fn oracle(&self, c: &RngCase) -> Outcome {
        let mut cl = 0;
        if c.depth >= 2 {
            cl |= 1;
        }
        if [0, 1, u64::MAX].contains(&c.seed) {
            cl |= 2;
        }
        Outcome::new(c.depth >= 1, cl, rng_oracle(c))
    }
}

fn rng_oracle(c: &RngCase) -> Result<(), Failure> {
    let mut a = Random::new(c.seed);
    let mut b = Random::new(c.seed);
    ensure_that!(a.config().seed == c.seed, "C08 Random::config reports another seed", "seed {}: config {:?}", c.seed, a.config());
    ensure_that!(a.config().name.contains("ChaCha12Rng"), "C08 Random::config reports another generator", "{:?}", a.config());
    let (da, db) = (children_digest(&mut a, c.depth % 4), children_digest(&mut b, c.depth % 4));
    ensure_that!(da == db, "C08 seeded generator (or its children) is not a function of the seed", "seed {}: two constructions give different streams/children", c.seed);
    if c.other != c.seed {
        let mut o = Random::new(c.other);
        let (pa, po) = (prefix(&mut Random::new(c.seed), 16), prefix(&mut o, 16));
        ensure_that!(pa != po, "C08 different seeds give the same stream", "seeds {} and {} give the same 16-word prefix", c.seed, c.other);
    }
    // other generator types keep their type in the children and in config()
    let mut x = Random::with_rng::<rand_chacha::ChaCha8Rng>(c.seed);
    ensure_that!(x.config().name.contains("ChaCha8Rng") && x.config().seed == c.seed, "C08 Random::with_rng config", "{:?}", x.config());
    let kid = x.iter_children().next().unwrap();
    ensure_that!(kid.config().name.contains("ChaCha8Rng"), "C08 child generator changes its type", "{:?}", kid.config());
    let mut reference = rand_chacha::ChaCha12Rng::seed_from_u64(c.seed);
    let mut r = Random::new(c.seed);
    ensure_that!(r.next_u64() == reference.next_u64() && r.next_u32() == reference.next_u32(), "C08 Random::new is not the documented ChaCha12 stream", "seed {}", c.seed);
    // a user-supplied generator is never replaced; one is inserted when none is given
    let problem = RealP::new(2, -1.0, 1.0, RealKind::Sphere);
    let cfg = Configuration::<RealP>::builder().do_(mahf::components::initialization::RandomSpread::new(2)).build();
    let seed = c.seed;
    let st = cfg
        .optimize_with(&problem, |s| {
            s.insert(Random::with_rng::<rand_chacha::ChaCha8Rng>(seed));
            s.insert_evaluator(Sequential::<RealP>::new());
            Ok(())
        })
        .map_err(|e| Failure::new("C08 optimize_with fails", format!("{e:#}")))?;
    {
        let r = st.borrow::<Random>();
        ensure_that!(r.config().seed == seed && r.config().name.contains("ChaCha8Rng"), "C08 optimize_with replaces the user's generator", "inserted ChaCha8Rng seed {seed}, found {:?}", r.config());
    }
    let st2 = cfg
        .optimize_with(&problem, |s| {
            s.insert_evaluator(Sequential::<RealP>::new());
            Ok(())
        })
        .map_err(|e| Failure::new("C08 optimize_with fails", format!("{e:#}")))?;
    ensure_that!(st2.contains::<Random>(), "C08 optimize_with does not provide a generator", "no Random in the state");
    // same seed, same initial population (the generator actually drives the run)
    let sols = |s: &State<RealP>| s.populations().current().iter().map(|i| i.solution().clone()).collect::<Vec<_>>();
    let st3 = cfg
        .optimize_with(&problem, |s| {
            s.insert(Random::with_rng::<rand_chacha::ChaCha8Rng>(seed));
            s.insert_evaluator(Sequential::<RealP>::new());
            Ok(())
        })
        .map_err(|e| Failure::new("C08 optimize_with fails", format!("{e:#}")))?;
    ensure_that!(sols(&st) == sols(&st3), "C08 same generator and seed give different runs", "seed {seed}");
    // the user supplies the generator with insert-if-absent semantics (a set-up function shared between single runs and
    // the batch runner, which has already inserted one): the state handed to the set-up holds no generator yet, so the
    // user's is used
    for how in 0..2 {
        let st4 = cfg
            .optimize_with(&problem, |s| {
                if how == 0 {
                    s.entry::<Random>().or_insert_with(|| Random::with_rng::<rand_chacha::ChaCha8Rng>(seed));
                } else if !s.contains::<Random>() {
                    s.insert(Random::with_rng::<rand_chacha::ChaCha8Rng>(seed));
                }
                s.insert_evaluator(Sequential::<RealP>::new());
                Ok(())
            })
            .map_err(|e| Failure::new("C08 optimize_with fails", format!("{e:#}")))?;
        {
            let r = st4.borrow::<Random>();
            ensure_that!(r.config().seed == seed && r.config().name.contains("ChaCha8Rng"), "C08 optimize_with replaces the user's generator", "generator supplied with insert-if-absent semantics (variant {how}): ChaCha8Rng seed {seed}, found {:?}", r.config());
        }
        ensure_that!(sols(&st) == sols(&st4), "C08 same generator and seed give different runs", "seed {seed}, generator supplied with insert-if-absent semantics");
    }
    Ok(())
}

// ------------------------------------------------------------------------------------------------
// batch experiment runner
// ------------------------------------------------------------------------------------------------

#[derive(Clone, Debug, Serialize, Deserialize)]
pub struct BatchCase {
    pub conf: GenConf,
    pub runs: u64,
    pub problems: u8,
    pub threads: u8,
    /// run the shipped particle-swarm template (whose components keep memories across iterations) instead of the
    /// generated configuration
    #[serde(default)]
    pub pso: bool,
}

pub struct BatchCheck;

impl Check for BatchCheck {
    type Case = BatchCase;
    fn name(&self) -> String {
        "C08/batch-runner".into()
    }
    fn classes(&self) -> &'static [&'static str] {
        &[">= 4 runs", ">= 2 problems", ">= 4 threads"]
    }
    fn oracle(&self, c: &BatchCase) -> Outcome {
        let mut cl = 0;
        if c.runs >= 4 {
            cl |= 1;
        }
        if c.problems >= 2 {
            cl |= 2;
        }
        if c.threads >= 4 {
            cl |= 4;
        }
        Outcome::new(c.runs >= 4, cl, batch_oracle(c))
    }
}

fn log_setup(state: &mut State<RealP>) -> ExecResult<()> {
    state.insert_evaluator(Sequential::<RealP>::new());
    state.configure_log(|c| {
        c.with_common(EveryN::iterations(1)).with(EveryN::iterations(1), BestObjectiveValueLens::<RealP>::entry());
        Ok(())
    })
}

/// A set-up function that also supplies the generator (a fixed seed, another backend): it overrides the runner's.
fn log_setup_own_rng(state: &mut State<RealP>) -> ExecResult<()> {
    state.insert(Random::with_rng::<rand_chacha::ChaCha8Rng>(4242));
    log_setup(state)
}

fn batch_oracle(c: &BatchCase) -> Result<(), Failure> {
    let own = c.runs % 3 == 2;
    let setup: fn(&mut State<RealP>) -> ExecResult<()> = if own { log_setup_own_rng } else { log_setup };
    let cfg = if c.pso {
        match crate::fixtures::run::build_real(&crate::fixtures::run::Tpl::Pso { n: 2 + c.conf.pop % 5, w0: 0.9, w1: 0.4, c1: 1.5, c2: 1.5, vmax: 1.0 }, c.conf.iters.max(2)) {
            Some(Ok(cfg)) => cfg,
            _ => return Ok(()),
        }
    } else {
        c.conf.build()
    };
    let nprob = (c.problems % 3) as usize + 1;
    let problems: Vec<RealP> = (0..nprob)
        .map(|k| {
            let mut p = RealP::new(2 + k, -5.0, 5.0, [RealKind::Sphere, RealKind::Rastrigin, RealKind::Slope][k]);
            p.name = format!("problem{k}");
            p
        })
        .collect();
    let runs = c.runs % 9;
    let at = format!("{c:?}");
    let mut per_pool: Vec<std::collections::BTreeMap<String, Vec<u8>>> = Vec::new();
    for t in [c.threads.max(1) as usize, 1usize] {
        let dir = format!("{}/target/scratch/{}-batch-{}", crate::engine::VERIF_DIR, std::process::id(), t);
        let _ = std::fs::remove_dir_all(&dir);
        // every other case: the single-threaded batch goes into a folder that already holds the logs of an earlier
        // experiment with ANOTHER configuration (same problems, same run numbers): a batch always runs and overwrites
        if t == 1 && c.runs % 2 == 1 {
            let mut pilot = c.conf.clone();
            pilot.iters += 3;
            let pilot = pilot.build();
            let _ = pool(1).install(|| catch(|| par_experiment(&pilot, setup, &problems, runs, &dir, true)));
        }
        let r = pool(t).install(|| catch(|| par_experiment(&cfg, setup, &problems, runs, &dir, true)));
        match r {
            Ok(Ok(())) => {}
            Ok(Err(e)) => {
                let _ = std::fs::remove_dir_all(&dir);
                return soft_fail(Failure::new("C08 par_experiment fails", format!("{at}: {e:#}")));
            }
            Err(p) => {
                let _ = std::fs::remove_dir_all(&dir);
                return soft_fail(Failure::new("C08 par_experiment panics", format!("{at}: {p}")));
            }
        }
        let mut files = std::collections::BTreeMap::new();
        if let Ok(rd) = std::fs::read_dir(&dir) {
            for e in rd.flatten() {
                files.insert(e.file_name().to_string_lossy().to_string(), std::fs::read(e.path()).unwrap_or_default());
            }
        }
        let _ = std::fs::remove_dir_all(&dir);
        let mut want: Vec<String> = vec!["configuration.ron".into()];
        for p in &problems {
            for r in 0..runs {
                want.push(format!("{}_{r}.cbor", p.name));
            }
        }
        want.sort();
        let got: Vec<String> = files.keys().cloned().collect();
        ensure_that!(got == want, "C08 batch runner writes a different set of files", "{at} ({t} threads): files {got:?}, expected {want:?}");
        per_pool.push(files);
    }
    // the exported maps come from HashMaps (byte order varies): compare the decoded content
    for (name, bytes) in &per_pool[0] {
        let other = &per_pool[1][name];
        let same = if name.ends_with(".cbor") {
            let a: Result<ciborium::value::Value, _> = ciborium::de::from_reader(bytes.as_slice());
            let b: Result<ciborium::value::Value, _> = ciborium::de::from_reader(other.as_slice());
            matches!((a, b), (Ok(a), Ok(b)) if canonical(&a) == canonical(&b))
        } else {
            bytes == other
        };
        ensure_that!(same, "C08 batch results depend on the thread-pool size", "{at}: file {name} differs between {} threads and 1 thread", c.threads.max(1));
    }
    // each log equals the log of a direct run with Random::new(run)
    for p in &problems {
        for r in 0..runs {
            let st = cfg
                .optimize_with(p, |s| {
                    s.insert(Random::new(r));
                    setup(s)
                })
                .map_err(|e| Failure::new("C08 direct run fails", format!("{at}: {e:#}")))?;
            let path = format!("{}/target/scratch/{}-direct.cbor", crate::engine::VERIF_DIR, std::process::id());
            st.log().to_cbor(&path).map_err(|e| Failure::new("C08 to_cbor fails", format!("{e:#}")))?;
            let direct = std::fs::read(&path).unwrap_or_default();
            let _ = std::fs::remove_file(&path);
            let batch = &per_pool[0][&format!("{}_{r}.cbor", p.name)];
            // the compressed log is a map; decode both and compare as values
            let a: Result<ciborium::value::Value, _> = ciborium::de::from_reader(direct.as_slice());
            let b: Result<ciborium::value::Value, _> = ciborium::de::from_reader(batch.as_slice());
            match (a, b) {
                (Ok(a), Ok(b)) => ensure_that!(canonical(&a) == canonical(&b), "C08 batch log differs from a direct run with the same seed", "{at}: problem {} run {r}", p.name),
                _ => fail!("C08 batch log does not decode", "{at}: problem {} run {r}", p.name),
            }
        }
    }
    Ok(())
}

/// CBOR maps come from HashMaps: compare order-insensitively.
fn canonical(v: &ciborium::value::Value) -> String {
    use ciborium::value::Value as C;
    match v {
        C::Map(m) => {
            let mut items: Vec<String> = m.iter().map(|(k, v)| format!("{}=>{}", canonical(k), canonical(v))).collect();
            items.sort();
            format!("{{{}}}", items.join(","))
        }
        C::Array(a) => format!("[{}]", a.iter().map(canonical).collect::<Vec<_>>().join(",")),
        C::Float(f) => format!("f{:x}", f.to_bits()),
        other => format!("{other:?}"),
    }
}

fn det_strategy(max_iters: u32) -> impl Strategy<Value = DetCase> {
    let what = prop_oneof![
        3 => run_spec_strategy(None, max_iters).prop_map(What::Template),
        1 => (gen_conf_strategy(max_iters), inst_strategy(Kind::Real), any::<u64>()).prop_map(|(g, i, s)| What::Generated(g, i, s)),
        // large populations (>= 128) with a diversity measure: collective computations over the whole population
        1 => (gen_conf_strategy(max_iters), inst_strategy(Kind::Real), any::<u64>(), 1u8..5).prop_map(|(mut g, i, s, d)| {
            g.big = true;
            g.diversity = d;
            g.iters = g.iters.max(2);
            What::Generated(g, i, s)
        }),
    ];
    (what, prop_oneof![Just(1u8), Just(2), Just(3), Just(4), Just(8), Just(16)], 1u64..4).prop_map(|(what, threads, jitter)| DetCase { what, threads, jitter })
}

pub fn run_all(ctx: &mut Ctx, replay: Option<&Path>) {
    ctx.rule("(batch runner: every other single-threaded batch goes into a folder that already holds the logs of an experiment with another configuration - it must run and overwrite.) determinism: case = (template with valid parameters and instance, or a generated configuration of shipped components; seed; thread-pool size in {1,2,3,4,8,16}; latency-jitter stream); the digest (every population level with solutions bit-exact and objectives, best individual, Evaluations, Iterations, serialised log) of a sequential unjittered run is compared with: a second sequential run, a sequential run with jittered objective latency, the parallel evaluator in the chosen pool and in a 16-thread pool with different jitter, the cloned configuration, a clone of the clone run in parallel, and the same configuration object after it has been run on another instance of the problem type (other dimension and domain / matrix); generated configurations optionally contain one of the four diversity measures (their state is part of the digest) and populations of 130-139 individuals; non-trivial = a parallel variant in which objective calls actually completed out of call order (measured by the instrumented objective). random: Random::new(seed) twice gives identical streams and identical children recursively (depth <= 3), different seeds give different 16-word prefixes, config() reports name/seed, children keep the generator type, optimize_with keeps a user-supplied generator and provides one otherwise. batch: par_experiment (generated configurations or the shipped particle-swarm template) over 0-8 runs, 1-3 named problems, pools of 1..16 threads: exact file set (configuration.ron + name_run.cbor), identical files across pool sizes, every log equal to a direct optimize_with(Random::new(run)) followed by the same set-up function (which, in a third of the cases, inserts a generator of its own that must win); distinct by case");
    ctx.assume("rayon's scheduler is not owned by the harness: pool sizes and pseudo-random objective latencies perturb completion order (measured), they do not enumerate interleavings");
    let d = DetCheck;
    let r = RngCheck;
    let b = BatchCheck;
    if let Some(p) = replay {
        let _ = ctx.replay_file(&d, p) || ctx.replay_file(&r, p) || ctx.replay_file(&b, p);
        return;
    }
    ctx.regressions(&d);
    ctx.regressions(&r);
    ctx.regressions(&b);
    ctx.random(&d, det_strategy(10), ctx.tier.pick(500, 5000));
    ctx.exhaustive(&r, "seeds {0, 1, 2, MAX, MAX-1, 0xDEADBEEF} x other seed x children depth 0..3", [0u64, 1, 2, u64::MAX, u64::MAX - 1, 0xDEAD_BEEF].into_iter().flat_map(|s| [0u64, 1, 3, u64::MAX].into_iter().flat_map(move |o| (0u8..4).map(move |d| RngCase { seed: s, other: o, depth: d }))));
    ctx.random(&r, (any::<u64>(), any::<u64>(), 0u8..4).prop_map(|(seed, other, depth)| RngCase { seed, other, depth }), ctx.tier.pick(2000, 20_000));
    ctx.random(&b, (gen_conf_strategy(4), 0u64..9, 0u8..3, prop_oneof![Just(1u8), Just(4), Just(16)], prop_oneof![2 => Just(false), 1 => Just(true)]).prop_map(|(conf, runs, problems, threads, pso)| BatchCase { conf, runs, problems, threads, pso }), ctx.tier.pick(25, 250));
}
