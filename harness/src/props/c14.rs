//! C14 — initialisation and boundary repair keep every coordinate inside the domain.

use std::{ops::Range, path::Path, sync::mpsc, time::Duration};

use mahf::{
    components::{
        boundary::{CompleteOneTailedNormalCorrection, Mirror, Saturation, Toroidal},
        initialization::{functional as inf, Empty, RandomBitstring, RandomPermutation, RandomSpread},
    },
    Component, Individual, Random,
};
use proptest::prelude::*;
use serde::{Deserialize, Serialize};

use crate::{
    engine::{catch, soft_fail, Check, Ctx, Failure, Outcome},
    ensure_that, fail,
    fixtures::{
        is_permutation,
        problems::{BitsP, RealKind, RealP, TspP},
        state_with,
    },
    props::{
        c09::Fb,
        c10::{next_down, next_up},
    },
};

pub fn domains() -> Vec<(f64, f64)> {
    vec![(-1.0, 1.0), (0.0, 1.0), (-5.0, 5.0), (3.0, 7.0), (-1e6, 1e6), (1e-3, 2e-3), (-1e-300, 1e-300), (5.0, 6.0), (-8.0, -7.0), (1.0, 3.0), (10.0, 20.0)]
}

// ------------------------------------------------------------------------------------------------
// initialisation
// ------------------------------------------------------------------------------------------------

#[derive(Clone, Debug, Serialize, Deserialize)]
pub enum InitCase {
    Spread { size: u32, domain: Vec<(Fb, Fb)>, seed: u64, functional: bool },
    Permutation { size: u32, dim: usize, seed: u64, functional: bool },
    Bitstring { size: u32, dim: usize, p: Fb, seed: u64, functional: bool },
    Empty { below: u8 },
}

pub struct InitCheck;

impl Check for InitCheck {
    type Case = InitCase;
    fn name(&self) -> String {
        "C14/initialisation".into()
    }
    fn classes(&self) -> &'static [&'static str] {
        &["size>=2 and dim>=2", "size 0", "dim 0", "functional helper", "p in {0,1}", "the generator first replays a script of edge-value words (derived from the seed)"]
    }
    fn oracle(&self, c: &InitCase) -> Outcome {
        let mut cl = 0;
        let r = init_oracle(c, &mut cl);
        Outcome::new(cl & 1 != 0, cl, r)
    }
}

fn init_oracle(c: &InitCase, cl: &mut u64) -> Result<(), Failure> {
    let seed_of = match c {
        InitCase::Spread { seed, .. } | InitCase::Permutation { seed, .. } | InitCase::Bitstring { seed, .. } => Some(*seed),
        #[allow(unreachable_patterns)]
        _ => None,
    };
    if seed_of.map_or(false, |s| !crate::fixtures::script_of(s).is_empty()) {
        *cl |= 32;
    }
    match c {
        InitCase::Spread { size, domain, seed, functional } => {
            let dom: Vec<Range<f64>> = domain.iter().map(|(a, b)| a.f()..b.f()).collect();
            let dim = dom.len();
            if *size >= 2 && dim >= 2 {
                *cl |= 1;
            }
            if *size == 0 {
                *cl |= 2;
            }
            if dim == 0 {
                *cl |= 4;
            }
            let at = format!("RandomSpread({size}) on domain {dom:?} (seed {seed})");
            let sols: Vec<Vec<f64>> = if *functional {
                *cl |= 8;
                let mut rng = crate::fixtures::random_for(*seed);
                match catch(|| inf::random_spread(&dom, *size as usize, &mut rng)) {
                    Ok(v) => v,
                    Err(p) => fail!("C14 random_spread panics", "{at}: {p}"),
                }
            } else {
                let problem = RealP::with_domain(dom.clone(), RealKind::Sphere);
                let mut st = crate::fixtures::state_with_scripted::<RealP>(vec![vec![Individual::new_unevaluated(vec![42.0])]], *seed);
                let comp = crate::fixtures::maybe_nested(RandomSpread::new::<RealP, f64>(*size), *seed);
                match catch(|| comp.execute(&problem, &mut st)) {
                    Ok(Ok(())) => {}
                    r => fail!("C14 RandomSpread fails", "{at}: {r:?}"),
                }
                let ps = st.populations();
                ensure_that!(ps.len() == 2 && ps.peek(1).len() == 1 && ps.peek(1)[0].solution() == &vec![42.0], "C14 RandomSpread does not push exactly one population", "{at}: stack height {}", ps.len());
                ensure_that!(ps.current().iter().all(|i| !i.is_evaluated()), "C14 RandomSpread creates evaluated individuals", "{at}");
                ps.current().iter().map(|i| i.solution().clone()).collect()
            };
            ensure_that!(sols.len() == *size as usize, "C14 RandomSpread count", "{at}: created {} individuals", sols.len());
            for s in &sols {
                ensure_that!(s.len() == dim, "C14 RandomSpread dimension", "{at}: solution of dimension {}", s.len());
                for (x, r) in s.iter().zip(&dom) {
                    ensure_that!(*x >= r.start && *x < r.end, "C14 RandomSpread coordinate outside the domain", "{at}: coordinate {x:?} outside [{:?}, {:?})", r.start, r.end);
                }
            }
        }
        InitCase::Permutation { size, dim, seed, functional } => {
            if *size >= 2 && *dim >= 2 {
                *cl |= 1;
            }
            if *size == 0 {
                *cl |= 2;
            }
            if *dim == 0 {
                *cl |= 4;
            }
            let at = format!("RandomPermutation({size}) dim {dim} (seed {seed})");
            let sols: Vec<Vec<usize>> = if *functional {
                *cl |= 8;
                let mut rng = crate::fixtures::random_for(*seed);
                match catch(|| inf::random_permutation(*dim, *size as usize, &mut rng)) {
                    Ok(v) => v,
                    Err(p) => fail!("C14 random_permutation panics", "{at}: {p}"),
                }
            } else {
                let problem = TspP::generated(*dim, 0, 3);
                let mut st = crate::fixtures::state_with_scripted::<TspP>(vec![], *seed);
                let comp = crate::fixtures::maybe_nested(RandomPermutation::new::<TspP>(*size), *seed);
                match catch(|| comp.execute(&problem, &mut st)) {
                    Ok(Ok(())) => {}
                    r => fail!("C14 RandomPermutation fails", "{at}: {r:?}"),
                }
                let ps = st.populations();
                ensure_that!(ps.len() == 1, "C14 RandomPermutation does not push exactly one population", "{at}: stack height {}", ps.len());
                ensure_that!(ps.current().iter().all(|i| !i.is_evaluated()), "C14 RandomPermutation creates evaluated individuals", "{at}");
                ps.current().iter().map(|i| i.solution().clone()).collect()
            };
            ensure_that!(sols.len() == *size as usize, "C14 RandomPermutation count", "{at}: created {} individuals", sols.len());
            for s in &sols {
                ensure_that!(s.len() == *dim && is_permutation(s), "C14 RandomPermutation is not a permutation of all positions", "{at}: {s:?}");
            }
        }
        InitCase::Bitstring { size, dim, p, seed, functional } => {
            let p = p.f();
            if *size >= 2 && *dim >= 2 {
                *cl |= 1;
            }
            if *size == 0 {
                *cl |= 2;
            }
            if *dim == 0 {
                *cl |= 4;
            }
            let at = format!("RandomBitstring({size}, p = {p}) dim {dim} (seed {seed})");
            let sols: Vec<Vec<bool>> = if *functional {
                *cl |= 8;
                let mut rng = crate::fixtures::random_for(*seed);
                match catch(|| inf::random_bitstring(*dim, p, *size as usize, &mut rng)) {
                    Ok(v) => v,
                    Err(e) => fail!("C14 random_bitstring panics", "{at}: {e}"),
                }
            } else {
                let problem = BitsP::new(*dim);
                let mut st = crate::fixtures::state_with_scripted::<BitsP>(vec![], *seed);
                let comp = crate::fixtures::maybe_nested(if p == 0.5 { RandomBitstring::new_uniform::<BitsP>(*size) } else { RandomBitstring::new::<BitsP>(*size, p) }, *seed);
                match catch(|| comp.execute(&problem, &mut st)) {
                    Ok(Ok(())) => {}
                    r => fail!("C14 RandomBitstring fails", "{at}: {r:?}"),
                }
                let ps = st.populations();
                ensure_that!(ps.len() == 1, "C14 RandomBitstring does not push exactly one population", "{at}: stack height {}", ps.len());
                ensure_that!(ps.current().iter().all(|i| !i.is_evaluated()), "C14 RandomBitstring creates evaluated individuals", "{at}");
                ps.current().iter().map(|i| i.solution().clone()).collect()
            };
            ensure_that!(sols.len() == *size as usize, "C14 RandomBitstring count", "{at}: created {} individuals", sols.len());
            for s in &sols {
                ensure_that!(s.len() == *dim, "C14 RandomBitstring dimension", "{at}: {} bits", s.len());
                if p == 0.0 || p == 1.0 {
                    *cl |= 16;
                    ensure_that!(s.iter().all(|b| *b == (p == 1.0)), "C14 RandomBitstring ignores p", "{at}: {s:?}");
                }
            }
        }
        InitCase::Empty { below } => {
            let problem = RealP::new(2, 0.0, 1.0, RealKind::Sphere);
            let pops: Vec<Vec<Individual<RealP>>> = (0..*below % 3).map(|k| vec![Individual::new_unevaluated(vec![k as f64])]).collect();
            let h = pops.len();
            let mut st = state_with::<RealP>(pops, 1);
            let comp = Empty::new::<RealP>();
            let r = catch(|| comp.execute(&problem, &mut st));
            ensure_that!(matches!(r, Ok(Ok(()))), "C14 Empty fails", "{r:?}");
            let ps = st.populations();
            ensure_that!(ps.len() == h + 1 && ps.current().is_empty(), "C14 Empty does not push exactly one empty population", "height {} current len {}", ps.len(), ps.current().len());
        }
    }
    Ok(())
}

// ------------------------------------------------------------------------------------------------
// boundary repair
// ------------------------------------------------------------------------------------------------

#[derive(Clone, Copy, Debug, Serialize, Deserialize, PartialEq)]
pub enum BOp {
    Saturation,
    Toroidal,
    Mirror,
    OneTailed,
}

#[derive(Clone, Debug, Serialize, Deserialize)]
pub struct BoundCase {
    pub op: BOp,
    /// per coordinate: (a, b, x)
    pub coords: Vec<(Fb, Fb, Fb)>,
    pub seed: u64,
    /// (resampling operator) the generator's backend first hands out these 64-bit words, then continues with the
    /// default backend seeded with `seed`: structured words reach the branches of the normal sampler that a seeded
    /// stream practically never reaches (the outermost layer and the tail, several times in a row)
    #[serde(default)]
    pub script: Vec<u64>,
}

pub use crate::fixtures::{ScriptRng, SCRIPT};

pub struct BoundCheck;

impl Check for BoundCheck {
    type Case = BoundCase;
    fn name(&self) -> String {
        "C14/boundary".into()
    }
    fn classes(&self) -> &'static [&'static str] {
        &["coordinate outside", "coordinate exactly on a bound", "coordinate far outside (>= 1000 widths)", "coordinate on the upper bound", "float neighbour of a bound", "all inside", "an evaluated clone of the individual lies in the population below", "generator backend replays a script of structured words first"]
    }
    fn oracle(&self, c: &BoundCase) -> Outcome {
        let mut cl = 0;
        let r = bound_oracle(c, &mut cl);
        Outcome::new(cl & 1 != 0 && cl & 2 != 0, cl, r)
    }
}

/// A hanging case costs 10 s and leaks a spinning thread, so at most `MAX_TIMEOUTS` are paid per process;
/// inputs that already timed out are remembered and answered from memory (shrinking re-runs them).
static TIMEOUTS: std::sync::atomic::AtomicU32 = std::sync::atomic::AtomicU32::new(0);
static HUNG: std::sync::Mutex<Vec<String>> = std::sync::Mutex::new(Vec::new());
const MAX_TIMEOUTS: u32 = 3;

/// Runs the operator on a worker thread; None = did not finish within the watchdog time.
fn apply(op: BOp, dom: Vec<Range<f64>>, xs: Vec<f64>, seed: u64, other: Vec<f64>, script: Vec<u64>) -> Option<Result<(Vec<f64>, Vec<f64>, bool), String>> {
    let key = format!("{op:?} {dom:?} {xs:?} {script:?}");
    if HUNG.lock().unwrap().contains(&key) {
        return None;
    }
    if TIMEOUTS.load(std::sync::atomic::Ordering::SeqCst) >= MAX_TIMEOUTS && matches!(op, BOp::Mirror | BOp::OneTailed) {
        // budget used up: treat as skipped (the violation is already recorded)
        return Some(Err("SKIPPED".into()));
    }
    let r = apply_inner(op, dom, xs, seed, other, script);
    if r.is_none() {
        TIMEOUTS.fetch_add(1, std::sync::atomic::Ordering::SeqCst);
        HUNG.lock().unwrap().push(key);
    }
    r
}

fn apply_inner(op: BOp, dom: Vec<Range<f64>>, xs: Vec<f64>, seed: u64, other: Vec<f64>, script: Vec<u64>) -> Option<Result<(Vec<f64>, Vec<f64>, bool), String>> {
    let (tx, rx) = mpsc::channel();
    std::thread::spawn(move || {
        let r = catch(|| {
            let problem = RealP::with_domain(dom, RealKind::Sphere);
            let mut st = state_with::<RealP>(vec![vec![if other.iter().map(|x| x.to_bits()).eq(xs.iter().map(|x| x.to_bits())) { Individual::new(other.clone(), 1.0.try_into().unwrap()) } else { Individual::new_unevaluated(other.clone()) }], vec![Individual::new(xs, 1.0.try_into().unwrap())]], seed);
            if !script.is_empty() {
                SCRIPT.with(|s| *s.borrow_mut() = script.clone());
                st.insert(Random::with_rng::<ScriptRng>(seed));
            }
            let comp: Box<dyn Component<RealP>> = match op {
                BOp::Saturation => Saturation::new(),
                BOp::Toroidal => Toroidal::new(),
                BOp::Mirror => Mirror::new(),
                BOp::OneTailed => CompleteOneTailedNormalCorrection::new(),
            };
            let comp = crate::fixtures::maybe_nested(comp, seed ^ crate::engine::hash_of(&other.iter().map(|x| x.to_bits()).collect::<Vec<_>>()));
            comp.execute(&problem, &mut st).map(|_| {
                let ps = st.populations();
                (ps.current()[0].solution().clone(), ps.peek(1)[0].solution().clone(), ps.len() == 2 && ps.current().len() == 1)
            })
        });
        let _ = tx.send(match r {
            Ok(Ok(v)) => Ok(v),
            Ok(Err(e)) => Err(format!("Err: {e:#}")),
            Err(p) => Err(format!("PANIC: {p}")),
        });
    });
    rx.recv_timeout(Duration::from_secs(10)).ok()
}

fn op_name(op: BOp) -> &'static str {
    match op {
        BOp::Saturation => "Saturation",
        BOp::Toroidal => "Toroidal",
        BOp::Mirror => "Mirror",
        BOp::OneTailed => "CompleteOneTailedNormalCorrection",
    }
}

fn bound_oracle(c: &BoundCase, cl: &mut u64) -> Result<(), Failure> {
    let dom: Vec<Range<f64>> = c.coords.iter().map(|(a, b, _)| a.f()..b.f()).collect();
    let xs: Vec<f64> = c.coords.iter().map(|(_, _, x)| x.f()).collect();
    let name = op_name(c.op);
    for (r, x) in dom.iter().zip(&xs) {
        let w = r.end - r.start;
        if *x < r.start || *x > r.end {
            *cl |= 1;
            if (x - r.start).abs() >= 1000.0 * w {
                *cl |= 4;
            }
        }
        if *x == r.start || *x == r.end {
            *cl |= 2;
        }
        if *x == r.end {
            *cl |= 8;
        }
        if [next_up(r.start), next_down(r.start), next_up(r.end), next_down(r.end)].contains(x) {
            *cl |= 16;
        }
    }
    if dom.iter().zip(&xs).all(|(r, x)| *x >= r.start && *x <= r.end) {
        *cl |= 32;
    }
    let at = format!("{name} on x = {xs:?} with domain {dom:?} (seed {})", c.seed);
    // one case in five: the population below holds an evaluated clone of the individual under repair (what a cloning
    // selection leaves there); repair looks at the individual it is given, not at its neighbours on the stack
    let other = if c.seed % 5 == 4 { xs.clone() } else { vec![1e9, -1e9] };
    if c.seed % 5 == 4 {
        *cl |= 64;
    }
    if !c.script.is_empty() {
        *cl |= 128;
    }
    let out = match apply(c.op, dom.clone(), xs.clone(), c.seed, other.clone(), c.script.clone()) {
        None => {
            let on_upper = dom.iter().zip(&xs).any(|(r, x)| *x == r.end);
            let sig = if on_upper { format!("C14 {name} does not terminate for a coordinate on the upper bound") } else { format!("C14 {name} does not terminate") };
            return soft_fail(Failure::new(sig, format!("{at}: no result within 10 s (a case normally takes microseconds)")));
        }
        Some(Err(e)) if e == "SKIPPED" => return Ok(()),
        Some(Err(e)) => fail!(format!("C14 {name} fails"), "{at}: {e}"),
        Some(Ok(v)) => v,
    };
    let (ys, below, shape_ok) = out;
    ensure_that!(shape_ok && below == other, format!("C14 {name} touches other populations"), "{at}: stack shape or the population below changed");
    ensure_that!(ys.len() == xs.len(), format!("C14 {name} changes the dimension"), "{at}: {ys:?}");
    let mut exactly_inside = true;
    for i in 0..xs.len() {
        let (a, b, x, y) = (dom[i].start, dom[i].end, xs[i], ys[i]);
        let w = b - a;
        let scale = a.abs().max(b.abs()).max(w);
        let tau = 4.0 * f64::EPSILON * scale;
        ensure_that!(y >= a - tau && y <= b + tau, format!("C14 {name} leaves a coordinate outside the domain"), "{at}: coordinate {i}: {x:?} -> {y:?}, outside [{a:?}, {b:?}] (tolerance {tau:e})");
        if x >= a && x <= b {
            ensure_that!(y.to_bits() == x.to_bits(), format!("C14 {name} changes a coordinate that was inside"), "{at}: coordinate {i}: {x:?} -> {y:?} although it was inside [{a:?}, {b:?}]");
        }
        if !(y >= a && y <= b) {
            exactly_inside = false;
        }
    }
    if exactly_inside {
        match apply(c.op, dom.clone(), ys.clone(), c.seed.wrapping_add(1), other.clone(), c.script.clone()) {
            None => {
                return soft_fail(Failure::new(format!("C14 {name} does not terminate for a coordinate on the upper bound"), format!("{at}: second application on {ys:?} did not finish within 10 s")));
            }
            Some(Err(e)) if e == "SKIPPED" => {}
            Some(Err(e)) => fail!(format!("C14 {name} fails"), "{at}: second application: {e}"),
            Some(Ok((zs, _, _))) => {
                ensure_that!(zs.iter().zip(&ys).all(|(z, y)| z.to_bits() == y.to_bits()), format!("C14 {name} is not idempotent"), "{at}: first result {ys:?}, second {zs:?}");
            }
        }
    }
    Ok(())
}

fn coord_grid(a: f64, b: f64, big: bool) -> Vec<f64> {
    let w = b - a;
    let mut v = vec![a, b, next_up(a), next_down(a), next_up(b), next_down(b), a + w / 2.0];
    let mut ks = vec![0.25, 0.5, 1.0, 1.5, 2.0, 3.0, 10.0, 1e3];
    if big {
        ks.push(1e6);
    }
    for k in ks {
        v.push(a - k * w);
        v.push(a + k * w);
        v.push(b - k * w);
        v.push(b + k * w);
    }
    v.retain(|x| x.is_finite());
    v
}

fn bound_cases(seeds: u64, base_seed: u64) -> Vec<BoundCase> {
    let mut out = Vec::new();
    for op in [BOp::Saturation, BOp::Toroidal, BOp::Mirror, BOp::OneTailed] {
        for (a, b) in domains() {
            let big = matches!(op, BOp::Saturation | BOp::Toroidal | BOp::Mirror);
            for x in coord_grid(a, b, big) {
                let n_seeds = if op == BOp::OneTailed { seeds } else { 1 };
                for s in 0..n_seeds {
                    // single coordinate, and the same coordinate next to an inside and an on-bound one
                    out.push(BoundCase { op, coords: vec![(Fb::of(a), Fb::of(b), Fb::of(x))], seed: base_seed.wrapping_add(s), script: Vec::new() });
                    if s == 0 {
                        out.push(BoundCase { op, coords: vec![(Fb::of(a), Fb::of(b), Fb::of(a + (b - a) / 4.0)), (Fb::of(a), Fb::of(b), Fb::of(x)), (Fb::of(-5.0), Fb::of(5.0), Fb::of(5.0))], seed: base_seed.wrapping_add(s), script: Vec::new() });
                    }
                }
            }
        }
        // O(1) operators: astronomically far away
        if matches!(op, BOp::Saturation | BOp::Toroidal | BOp::Mirror | BOp::OneTailed) {
            for x in [1e300, -1e300, f64::MAX, -f64::MAX, 1e100, -1e17] {
                out.push(BoundCase { op, coords: vec![(Fb::of(-1.0), Fb::of(1.0), Fb::of(x)), (Fb::of(3.0), Fb::of(7.0), Fb::of(-x))], seed: 1, script: Vec::new() });
            }
            // dimensions of equal width at different positions next to each other, the first inside or outside
            for first in [0.5, 1.5, -0.25] {
                for (x2, x3) in [(5.5, -7.5), (6.5, -7.5), (5.5, -8.5), (4.0, -6.0)] {
                    for seed in 0..3 {
                        out.push(BoundCase { op, coords: vec![(Fb::of(0.0), Fb::of(1.0), Fb::of(first)), (Fb::of(5.0), Fb::of(6.0), Fb::of(x2)), (Fb::of(-8.0), Fb::of(-7.0), Fb::of(x3)), (Fb::of(0.0), Fb::of(1.0), Fb::of(0.25))], seed, script: Vec::new() });
                    }
                }
            }
            // ... also relative to narrow domains, where distance / width exceeds the largest finite number
            for (a, b) in [(0.0, 0.1), (1e-3, 2e-3), (-1e-3, 1e-3), (-1e-300, 1e-300), (0.25, 0.5)] {
                for x in [1e308, -1e308, 1e306, f64::MAX, -f64::MAX, 1e300, -1e200, 1e17] {
                    out.push(BoundCase { op, coords: vec![(Fb::of(a), Fb::of(b), Fb::of(x))], seed: 2, script: Vec::new() });
                }
            }
        }
    }
    out
}

fn bound_strategy() -> impl Strategy<Value = BoundCase> {
    let dom = proptest::sample::select(domains());
    let coord = (dom, prop_oneof![
        3 => (-3.0f64..4.0),
        2 => (-40.0f64..40.0),
        1 => (-2000.0f64..2000.0),
        1 => prop_oneof![Just(0.0), Just(1.0)],
    ], 0u8..6)
        .prop_map(|((a, b), t, nudge)| {
            // x = a + t * width, optionally nudged to a float neighbour
            let x = a + t * (b - a);
            let x = match nudge {
                1 => next_up(x),
                2 => next_down(x),
                _ => x,
            };
            (Fb::of(a), Fb::of(b), Fb::of(x))
        });
    (prop_oneof![Just(BOp::Saturation), Just(BOp::Toroidal), Just(BOp::Mirror), Just(BOp::OneTailed)], proptest::collection::vec(coord, 1..7), any::<u64>()).prop_map(|(op, coords, seed)| BoundCase { op, coords, seed, script: Vec::new() })
}

/// Resampling cases whose generator first replays a script built from words that steer the normal sampler: words with
/// a zero low byte select its outermost layer, high bits near the ends of the range give draws beyond three standard
/// deviations (one overshoot each), an all-zero word enters the tail routine, and words with many leading zero bits
/// make the tail routine return draws far beyond six standard deviations.
fn scripted_strategy() -> impl Strategy<Value = BoundCase> {
    let word = prop_oneof![
        3 => Just(0xF000_0000_0000_0000u64),
        3 => Just(0x1000_0000_0000_0000u64),
        2 => Just(0xE800_0000_0000_0000u64),
        2 => Just(0u64),
        2 => any::<u64>().prop_map(|r| r >> 13),
        1 => any::<u64>().prop_map(|r| r >> 20),
        1 => any::<u64>().prop_map(|r| r >> 41),
        1 => any::<u64>().prop_map(|r| r >> 5),
        1 => any::<u64>().prop_map(|r| r & !0xff),
        1 => any::<u64>(),
    ];
    let dom = proptest::sample::select(domains());
    (dom, prop_oneof![-3.0f64..0.0, 1.0f64..4.0, Just(-0.001), Just(1.001)], proptest::collection::vec(word, 1..12), any::<u64>(), any::<bool>()).prop_map(|((a, b), t, script, seed, second)| {
        let x = a + t * (b - a);
        let mut coords = vec![(Fb::of(a), Fb::of(b), Fb::of(x))];
        if second {
            coords.push((Fb::of(a), Fb::of(b), Fb::of(b + (b - a))));
        }
        BoundCase { op: BOp::OneTailed, coords, seed, script }
    })
}

fn init_strategy() -> impl Strategy<Value = InitCase> {
    let dom = proptest::sample::select(domains()).prop_map(|(a, b)| (Fb::of(a), Fb::of(b)));
    let rand_dom = (-1e3f64..1e3, 1e-6f64..1e3).prop_map(|(a, w)| (Fb::of(a), Fb::of(a + w)));
    let dom2 = proptest::sample::select(domains()).prop_map(|(a, b)| (Fb::of(a), Fb::of(b)));
    prop_oneof![
        // many samples (>= 1024 coordinates) over domains whose dimensions differ, also with equal first and last dimension
        1 => (prop_oneof![Just(256u32), Just(300), Just(1100), Just(2048)], proptest::collection::vec(dom2, 1..6), any::<bool>(), any::<u64>(), any::<bool>()).prop_map(|(size, mut domain, wrap, seed, functional)| {
            if wrap {
                let first = domain[0];
                domain.push(first);
            }
            InitCase::Spread { size, domain, seed, functional }
        }),
        4 => (0u32..21, proptest::collection::vec(prop_oneof![3 => dom, 1 => rand_dom], 0..9), any::<u64>(), any::<bool>()).prop_map(|(size, domain, seed, functional)| InitCase::Spread { size, domain, seed, functional }),
        3 => (0u32..21, 0usize..9, any::<u64>(), any::<bool>()).prop_map(|(size, dim, seed, functional)| InitCase::Permutation { size, dim, seed, functional }),
        3 => (0u32..21, 0usize..9, prop_oneof![Just(0.0), Just(1.0), Just(0.5), 0.0f64..=1.0].prop_map(Fb::of), any::<u64>(), any::<bool>()).prop_map(|(size, dim, p, seed, functional)| InitCase::Bitstring { size, dim, p, seed, functional }),
        1 => (0u8..3).prop_map(|below| InitCase::Empty { below }),
    ]
}

pub fn run_all(ctx: &mut Ctx, replay: Option<&Path>) {
    ctx.rule("initialisation: case = (operator, size 0-20, dimension 0-8, domain per dimension from 7 fixed domains or random, seed, component or functional helper); exact count, unevaluated, dimension, a <= x < b, permutation of 0..dim, p in {0,1} exact, exactly one population pushed; non-trivial = size >= 2 and dim >= 2. boundary: case = (operator, per coordinate (a, b, x), seed) with x on a grid around each of 7 domains (bounds, their float neighbours, a/b -+ k*width for k in {1/4,1/2,1,3/2,2,3,10,1e3,1e6}, midpoint) alone and next to an inside and an on-bound coordinate, plus random multiples; for the resampling operator also with a generator backend that first replays 1-11 structured 64-bit words (outermost layer and tail of the normal sampler, up to 11 overshoots in a row, draws beyond six standard deviations) and then continues with the seeded default backend; each application runs on a worker thread with a 10 s watchdog; terminates, every coordinate within [a - tau, b + tau] (tau = 4 ulp of max(|a|,|b|,w)), coordinates already in [a, b] bit-identical, second application the identity when the first result is exactly inside, other populations untouched; non-trivial = a case with a coordinate outside and one exactly on a bound; distinct by case");
    ctx.assume("grid magnitudes go up to 1e6 widths (1e3 for the resampling operator), plus six astronomically distant coordinates (1e17 .. f64::MAX) per operator");
    ctx.assume("a watchdog expiry (10 s for a microsecond operation) is the stated proxy for non-termination");
    let i = InitCheck;
    let b = BoundCheck;
    if let Some(p) = replay {
        let _ = ctx.replay_file(&i, p) || ctx.replay_file(&b, p);
        return;
    }
    ctx.regressions(&i);
    ctx.regressions(&b);
    ctx.random(&i, init_strategy(), ctx.tier.pick(20_000, 200_000));
    let seeds = ctx.tier.pick(3, 40);
    let base = ctx.derive_seed("boundary");
    ctx.exhaustive(&b, &format!("4 operators x 7 domains x ~40 grid coordinates (single and embedded in a 3-coordinate solution) x {seeds} seeds for the resampling operator"), bound_cases(seeds, base).into_iter());
    ctx.random(&b, bound_strategy(), ctx.tier.pick(10_000, 100_000));
    ctx.random(&b, scripted_strategy(), ctx.tier.pick(30_000, 300_000));
}
