//! C15 — experiment records are exact: log entries, log export, configuration export.

use std::{
    collections::BTreeMap,
    ops::{Deref, DerefMut},
    path::Path,
};

use better_any::{Tid, TidAble};
use mahf::{
    components::{
        archive, boundary, initialization, mapping, mutation, recombination, replacement, selection,
        swarm::pso::{InertiaWeight, ParticleVelocitiesUpdate},
        utils,
    },
    conditions::{common::PartialEqChecker, ChangeOf, Condition, EveryN, LessThanN, RandomChance},
    lens::{common::BestObjectiveValueLens, AnyLens, IdLens, Lens, ValueOf},
    logging::{extractor::EntryName, Logger},
    state::common::{BestIndividual, Evaluations, Iterations, Progress},
    Component, Configuration, CustomState, ExecResult, Individual, Problem, State,
};
use proptest::prelude::*;
use serde::{Deserialize, Serialize};

use crate::{
    engine::{catch, soft_fail, Check, Ctx, Failure, Outcome},
    ensure_that, fail,
    fixtures::{
        problems::{RealKind, RealP},
        run::{build_bits, build_perm, build_real, inst_strategy, kind_of_index, tpl_strategy, Kind, Tpl},
        snode::{record, SNode},
    },
    props::c03::{tl_reset, ScriptC},
};

// ------------------------------------------------------------------------------------------------
// harness states and lenses
// ------------------------------------------------------------------------------------------------

macro_rules! hval {
    ($n:ident, $l:ident, $name:expr) => {
        #[derive(Tid)]
        pub struct $n(pub i64);
        impl CustomState<'_> for $n {}
        impl Deref for $n {
            type Target = i64;
            fn deref(&self) -> &i64 {
                &self.0
            }
        }
        impl DerefMut for $n {
            fn deref_mut(&mut self) -> &mut i64 {
                &mut self.0
            }
        }
        #[derive(Clone, Default, Serialize)]
        pub struct $l;
        impl AnyLens for $l {
            type Target = i64;
        }
        impl Lens<RealP> for $l {
            fn get(&self, _p: &RealP, state: &State<RealP>) -> ExecResult<i64> {
                Ok(state.try_get_value::<$n>()?)
            }
        }
        impl EntryName for $l {
            fn entry_name() -> &'static str {
                $name
            }
        }
    };
}
hval!(HV0, HL0, "h0");
hval!(HV1, HL1, "h1");
hval!(HV2, HL2, "h2");
hval!(HV3, HL3, "shared");
hval!(HV4, HL4, "shared");

#[derive(Tid)]
pub struct NeverInserted(pub i64);
impl CustomState<'_> for NeverInserted {}
impl Deref for NeverInserted {
    type Target = i64;
    fn deref(&self) -> &i64 {
        &self.0
    }
}

#[derive(Clone, Serialize)]
struct Bump;
impl Component<RealP> for Bump {
    fn execute(&self, _p: &RealP, st: &mut State<RealP>) -> ExecResult<()> {
        macro_rules! b {
            ($t:ident, $k:expr) => {
                if let Ok(v) = st.try_get_value::<$t>() {
                    st.set_value::<$t>(v + $k);
                }
            };
        }
        b!(HV0, 1);
        b!(HV1, 2);
        b!(HV2, 3);
        b!(HV3, 4);
        b!(HV4, 5);
        Ok(())
    }
}

// ------------------------------------------------------------------------------------------------
// log cases
// ------------------------------------------------------------------------------------------------

#[derive(Clone, Debug, Serialize, Deserialize, PartialEq)]
pub enum Trig {
    Always,
    Never,
    EveryN(u32),
    Scripted(u16, Vec<bool>),
    /// ChangeOf over harness value k (at most one per configuration)
    ChangeOf(u8),
    /// `LessThanN::iterations(m)`: fires while iterations < m - and, as every LessThanN, writes iterations / m into the
    /// progress state of the iteration counter (the one the loop condition writes and `with_common` logs)
    LessThan(u32),
    And(Box<Trig>, Box<Trig>),
    Or(Box<Trig>, Box<Trig>),
    Not(Box<Trig>),
}

#[derive(Clone, Debug, Serialize, Deserialize, PartialEq)]
pub enum Extr {
    H(u8),
    Iterations,
    Evaluations,
    Common,
    BestObjective,
    Missing,
    /// size of the current (top) population; the stack holds two populations of different sizes
    PopulationSize,
    /// a custom extractor with its own entry name `wide-k` and the constant value k (for logs with hundreds of
    /// distinct entry names)
    Named(u16),
}

/// Entry names of the `Named` extractors (entry names are `&'static str`).
fn wide_name(k: u16) -> &'static str {
    static NAMES: std::sync::OnceLock<Vec<&'static str>> = std::sync::OnceLock::new();
    NAMES.get_or_init(|| (0..1024u16).map(|k| &*Box::leak(format!("wide-{k}").into_boxed_str())).collect())[k as usize % 1024]
}

#[derive(Clone)]
struct Named(u16);
impl mahf::logging::extractor::EntryExtractor<RealP> for Named {
    fn extract_entry(&self, _problem: &RealP, _state: &State<RealP>) -> mahf::logging::log::Entry {
        mahf::logging::log::Entry { name: wide_name(self.0), value: Box::new(Some(self.0 as i64)) }
    }
}

#[derive(Clone, Debug, Serialize, Deserialize)]
pub struct LogCase {
    pub rules: Vec<(Trig, Extr)>,
    /// 0 logger in the loop body, 1 before and after the loop, 2 twice per pass, 3 inside a branch (every 2nd iteration), 4 inside a scope inside the loop
    pub structure: u8,
    pub iters: u32,
    /// which harness values exist (initial value 10 * k)
    pub present: [bool; 5],
    pub evaluations: Option<u32>,
    pub best: Option<i32>,
    /// (start, len): the rules start .. start+len (clamped) are registered with ONE `with_many` call, all under the
    /// trigger of the first of them (only applied when that trigger is stateless and none of them is `with_common`)
    #[serde(default)]
    pub many: Option<(u8, u8)>,
    /// sizes (1 + x % 5 each; made different) of the two populations on the stack, bottom then top
    #[serde(default)]
    pub pops: (u8, u8),
    /// the loop condition is `LessThanN::iterations(n) | LessThanN::iterations(max(1, n / 2))`: the same passes, but the
    /// progress state (written last by the second operand) runs up to n / (n / 2) >= 2
    #[serde(default)]
    pub half_bound: bool,
    /// after the run, its `Log` is handed to a second run of the same configuration through `init_state`: the second
    /// run appends its steps to it
    #[serde(default)]
    pub carry: bool,
    /// (a, k): one more rule - trigger `Always` (a even) or `EveryN(1 + a / 2)`, harness value k - is registered LAST,
    /// by a component that calls `configure_log` from inside a scope before the loop
    #[serde(default)]
    pub scoped_rule: Option<(u8, u8)>,
}

fn scoped_rule_of(c: &LogCase) -> Option<(Trig, Extr)> {
    c.scoped_rule.map(|(a, k)| (if a % 2 == 0 { Trig::Always } else { Trig::EveryN(1 + a as u32 / 2) }, Extr::H(k % 5)))
}

/// Registers one rule from inside whatever scope it runs in.
#[derive(Clone, Serialize)]
struct AddRule(u8, u8);
impl Component<RealP> for AddRule {
    fn execute(&self, _p: &RealP, st: &mut State<RealP>) -> ExecResult<()> {
        let (t, e) = scoped_rule_of(&LogCase { scoped_rule: Some((self.0, self.1)), ..LogCase::empty() }).unwrap();
        st.configure_log(|cfg| {
            cfg.with(build_trigger(&t), extractor_of(&e));
            Ok(())
        })
    }
}

impl LogCase {
    fn empty() -> Self {
        LogCase { rules: vec![], structure: 0, iters: 0, present: [false; 5], evaluations: None, best: None, many: None, pops: (0, 0), half_bound: false, carry: false, scoped_rule: None }
    }
}

fn pop_sizes(c: &LogCase) -> (usize, usize) {
    let a = 1 + (c.pops.0 % 5) as usize;
    let mut b = 1 + (c.pops.1 % 5) as usize;
    if a == b {
        b += 1;
    }
    (a, b)
}

/// `LogCase::best`: i32::MAX encodes a best individual whose objective value is +inf (an infeasible solution)
fn best_value(b: i32) -> f64 {
    if b == i32::MAX {
        f64::INFINITY
    } else {
        b as f64
    }
}

#[derive(Clone, Debug, PartialEq)]
enum V {
    Null,
    Int(i128),
    F(u64),
}

fn vf(x: f64) -> V {
    V::F(if x.is_nan() { f64::NAN.to_bits() } else { x.to_bits() })
}

fn has_less_than(t: &Trig) -> bool {
    match t {
        Trig::LessThan(_) => true,
        Trig::And(a, b) | Trig::Or(a, b) => has_less_than(a) || has_less_than(b),
        Trig::Not(a) => has_less_than(a),
        _ => false,
    }
}

fn build_trigger(t: &Trig) -> Box<dyn Condition<RealP>> {
    match t {
        Trig::Always => EveryN::iterations(1),
        Trig::Never => !EveryN::iterations::<RealP>(1),
        Trig::EveryN(k) => EveryN::iterations((*k).max(1)),
        Trig::Scripted(id, s) => Box::new(ScriptC { id: *id, script: s.clone() }),
        Trig::ChangeOf(k) => match k % 3 {
            0 => ChangeOf::new::<RealP>(PartialEqChecker::new::<i64>(), ValueOf::<HV0>::new()),
            1 => ChangeOf::new::<RealP>(PartialEqChecker::new::<i64>(), ValueOf::<HV1>::new()),
            _ => ChangeOf::new::<RealP>(PartialEqChecker::new::<u32>(), ValueOf::<Iterations>::new()),
        },
        Trig::LessThan(m) => LessThanN::iterations((*m).max(1)),
        Trig::And(a, b) => build_trigger(a) & build_trigger(b),
        Trig::Or(a, b) => build_trigger(a) | build_trigger(b),
        Trig::Not(a) => !build_trigger(a),
    }
}

struct LogModel<'a> {
    case: &'a LogCase,
    hv: [Option<i64>; 5],
    iterations: u32,
    progress: f64,
    /// the progress state a scoped logger's `LessThan` trigger creates (init) inside the scope, shadowing the loop's
    inner_progress: Option<f64>,
    script_pos: BTreeMap<u16, usize>,
    prev: Option<Option<i64>>, // ChangeOf previous: None = not initialised (error), Some(None) = fresh
    steps: Vec<Vec<(String, V)>>,
}

const IT_NAME: &str = "mahf::state::common::Iterations";
const EV_NAME: &str = "mahf::state::common::Evaluations";
const PR_NAME: &str = "mahf::state::common::Progress<mahf::lens::common::ValueOf<mahf::state::common::Iterations>>";

impl<'a> LogModel<'a> {
    /// Err(()) if the trigger fails (ChangeOf over a missing value)
    fn eval(&mut self, t: &Trig) -> Result<bool, ()> {
        Ok(match t {
            Trig::Always => true,
            Trig::Never => false,
            Trig::EveryN(k) => self.iterations % (*k).max(1) == 0,
            Trig::Scripted(id, s) => {
                let p = self.script_pos.entry(*id).or_insert(0);
                let b = s.get(*p).copied().unwrap_or(false);
                *p += 1;
                b
            }
            Trig::ChangeOf(k) => {
                let cur: Option<i64> = match k % 3 {
                    0 => self.hv[0],
                    1 => self.hv[1],
                    _ => Some(self.iterations as i64),
                };
                let cur = cur.ok_or(())?;
                let prev = self.prev.ok_or(())?;
                let changed = prev != Some(cur);
                if changed {
                    self.prev = Some(Some(cur));
                }
                changed
            }
            Trig::LessThan(m) => {
                let m = (*m).max(1);
                let p = self.iterations as f64 / m as f64;
                match &mut self.inner_progress {
                    Some(ip) => *ip = p,
                    None => self.progress = p,
                }
                self.iterations < m
            }
            Trig::And(a, b) => {
                let (x, y) = (self.eval(a)?, self.eval(b)?);
                x && y
            }
            Trig::Or(a, b) => {
                let (x, y) = (self.eval(a)?, self.eval(b)?);
                x || y
            }
            Trig::Not(a) => !self.eval(a)?,
        })
    }
    fn value(&self, e: &Extr) -> Vec<(String, V)> {
        match e {
            Extr::H(k) => {
                let k = (*k % 5) as usize;
                let name = ["h0", "h1", "h2", "shared", "shared"][k];
                vec![(name.to_string(), self.hv[k].map_or(V::Null, |v| V::Int(v as i128)))]
            }
            Extr::Iterations => vec![(IT_NAME.into(), V::Int(self.iterations as i128))],
            Extr::Evaluations => vec![(EV_NAME.into(), self.case.evaluations.map_or(V::Null, |v| V::Int(v as i128)))],
            Extr::Common => vec![(EV_NAME.into(), self.case.evaluations.map_or(V::Null, |v| V::Int(v as i128))), (PR_NAME.into(), vf(self.inner_progress.unwrap_or(self.progress)))],
            Extr::BestObjective => vec![("BestObjectiveValue".into(), self.case.best.map_or(V::Null, |b| vf(best_value(b))))],
            Extr::Missing => vec![("never-inserted".into(), V::Null)],
            Extr::PopulationSize => vec![("PopulationSize".into(), V::Int(pop_sizes(self.case).1 as i128))],
            Extr::Named(k) => vec![(wide_name(*k).to_string(), V::Int((*k % 1024) as i128))],
        }
    }
    /// One logger execution. Err(()) if a trigger fails (the run then fails).
    fn logger(&mut self) -> Result<(), ()> {
        let mut step: Vec<(String, V)> = Vec::new();
        for (t, e) in &self.case.rules.clone() {
            // `with_common` registers two rules with (a clone of) the same trigger: it is evaluated twice
            let times = if matches!(e, Extr::Common) { 2 } else { 1 };
            for k in 0..times {
                if self.eval(t)? {
                    // the entry is extracted right after its own rule's trigger was evaluated, before the next rule's
                    let (n, v) = self.value(e)[k].clone();
                    if !step.iter().any(|(m, _)| *m == n) {
                        step.push((n, v));
                    }
                }
            }
        }
        if !step.is_empty() {
            if !step.iter().any(|(m, _)| m == IT_NAME) {
                step.insert(0, (IT_NAME.into(), V::Int(self.iterations as i128)));
            }
            self.steps.push(step);
        }
        Ok(())
    }
    fn bump(&mut self) {
        for k in 0..5 {
            if let Some(v) = &mut self.hv[k] {
                *v += k as i64 + 1;
            }
        }
    }
    fn run(&mut self) -> Result<(), ()> {
        let n = self.case.iters;
        let s = self.case.structure % 5;
        // Logger::init at top level initialises the ChangeOf state (not for the scoped logger)
        if s != 4 {
            self.prev = Some(None);
        }
        if s == 1 {
            self.logger()?;
        }
        let mut i = 0;
        loop {
            self.progress = if self.case.half_bound { i as f64 / (n / 2).max(1) as f64 } else { i as f64 / n as f64 };
            if i >= n {
                break;
            }
            self.iterations = i;
            match s {
                0 => {
                    self.bump();
                    self.logger()?;
                }
                1 => self.bump(),
                2 => {
                    self.logger()?;
                    self.bump();
                    self.logger()?;
                }
                3 => {
                    self.bump();
                    if i % 2 == 0 {
                        self.logger()?;
                    }
                }
                _ => {
                    self.bump();
                    // scope entry: the logger (and its triggers) are initialised anew
                    self.prev = Some(None);
                    self.inner_progress = if self.case.rules.iter().any(|(t, _)| has_less_than(t)) { Some(0.0) } else { None };
                    self.logger()?;
                    self.inner_progress = None;
                    self.prev = None;
                }
            }
            i += 1;
        }
        self.iterations = n;
        if s == 1 {
            self.logger()?;
        }
        Ok(())
    }
}

fn json_v(v: &serde_json::Value) -> V {
    match v {
        serde_json::Value::Null => V::Null,
        serde_json::Value::Number(n) => {
            if let Some(i) = n.as_i64() {
                V::Int(i as i128)
            } else if let Some(u) = n.as_u64() {
                V::Int(u as i128)
            } else {
                vf(n.as_f64().unwrap_or(f64::NAN))
            }
        }
        other => V::F(crate::engine::hash_of(&other.to_string())),
    }
}

fn cbor_v(v: &ciborium::value::Value) -> V {
    use ciborium::value::Value as C;
    match v {
        C::Null => V::Null,
        C::Integer(i) => V::Int(i128::from(*i)),
        C::Float(f) => vf(*f),
        other => V::F(crate::engine::hash_of(&format!("{other:?}"))),
    }
}

/// A float that holds an integral value may be written as an integer by an exporter and vice versa; compare numerically.
fn same(a: &V, b: &V) -> bool {
    match (a, b) {
        (V::Int(i), V::F(f)) | (V::F(f), V::Int(i)) => f64::from_bits(*f) == *i as f64,
        _ => a == b,
    }
}

pub struct LogCheck;

impl Check for LogCheck {
    type Case = LogCase;
    fn name(&self) -> String {
        "C15/log".into()
    }
    fn classes(&self) -> &'static [&'static str] {
        &[">= 3 steps", "duplicate name among fired rules", "missing source (null entry)", "execution where nothing fires", "rule produces the iteration entry itself", "logger in a scope", "trigger error", "rules registered through with_many", "progress state above 1 while logged", "log carried into a second run", "rule registered from inside a scope", "more than 256 distinct entry names in one log", "a LessThanN trigger that writes the progress state another rule logs"]
    }
    fn oracle(&self, c: &LogCase) -> Outcome {
        let mut cl = 0;
        let r = log_oracle(c, &mut cl);
        Outcome::new(cl & 0b111 == 0b111, cl, r)
    }
}

/// The group of rules registered through `with_many` (see `LogCase::many`), if the case has a usable one.
fn many_group(c: &LogCase) -> Option<(usize, usize)> {
    let (start, len) = c.many?;
    if c.rules.len() < 2 {
        return None;
    }
    let start = start as usize % c.rules.len();
    let end = (start + 2 + len as usize % 4).min(c.rules.len());
    if end - start < 2 {
        return None;
    }
    if !matches!(c.rules[start].0, Trig::Always | Trig::Never | Trig::EveryN(_)) {
        return None;
    }
    if c.rules[start..end].iter().any(|(_, e)| matches!(e, Extr::Common)) {
        return None;
    }
    Some((start, end))
}

fn extractor_of(e: &Extr) -> Box<dyn mahf::logging::extractor::EntryExtractor<RealP>> {
    match e {
        Extr::H(k) => match k % 5 {
            0 => Box::new(HL0),
            1 => Box::new(HL1),
            2 => Box::new(HL2),
            3 => Box::new(HL3),
            _ => Box::new(HL4),
        },
        Extr::Iterations => ValueOf::<Iterations>::entry::<RealP>(),
        Extr::Evaluations => IdLens::<Evaluations>::entry::<RealP>(),
        Extr::BestObjective => BestObjectiveValueLens::<RealP>::entry(),
        Extr::Missing | Extr::Common => Box::new(MissingLens),
        Extr::PopulationSize => mahf::lens::common::PopulationSizeLens::<RealP>::entry(),
        Extr::Named(k) => Box::new(Named(*k)),
    }
}

fn log_oracle(c: &LogCase, cl: &mut u64) -> Result<(), Failure> {
    // rules registered through one with_many call share (clones of) the first one's trigger
    let mut grouped = c.clone();
    let group = many_group(c);
    if let Some((start, end)) = group {
        let t = grouped.rules[start].0.clone();
        for r in &mut grouped.rules[start + 1..end] {
            r.0 = t.clone();
        }
        *cl |= 128;
    }
    if let Some(r) = scoped_rule_of(c) {
        grouped.rules.push(r);
        *cl |= 1024;
    }
    if grouped.rules.iter().filter(|(_, e)| matches!(e, Extr::Named(_))).count() > 250 {
        *cl |= 2048;
    }
    if grouped.rules.iter().any(|(t, _)| has_less_than(t)) && grouped.rules.iter().any(|(_, e)| matches!(e, Extr::Common)) {
        *cl |= 4096;
    }
    let c = &grouped;
    let mut m = LogModel { case: c, hv: [None; 5], iterations: 0, progress: 0.0, inner_progress: None, script_pos: BTreeMap::new(), prev: None, steps: Vec::new() };
    for k in 0..5 {
        if c.present[k] {
            m.hv[k] = Some(10 * k as i64);
        }
    }
    let expected_ok = m.run().is_ok();
    if !expected_ok {
        *cl |= 64;
    }
    if m.steps.len() >= 3 {
        *cl |= 1;
    }
    if m.steps.iter().any(|s| s.iter().any(|e| e.1 == V::Null)) {
        *cl |= 4;
    }
    if c.structure % 5 == 4 {
        *cl |= 32;
    }
    // duplicate names among the rules
    let names: Vec<String> = c.rules.iter().flat_map(|(_, e)| m.value(e).into_iter().map(|x| x.0)).collect();
    if (0..names.len()).any(|i| (0..i).any(|j| names[i] == names[j])) {
        *cl |= 2;
    }
    if names.iter().any(|n| n == IT_NAME) {
        *cl |= 16;
    }
    // real run
    let n = c.iters;
    let body_logger = |b: mahf::configuration::ConfigurationBuilder<RealP>| b.do_(Logger::new());
    let half = c.half_bound;
    #[allow(non_snake_case)]
    let LessThanN_iterations = move |n: u32| -> Box<dyn Condition<RealP>> {
        if half {
            LessThanN::iterations(n) | LessThanN::iterations((n / 2).max(1))
        } else {
            LessThanN::iterations(n)
        }
    };
    if half {
        *cl |= 256;
    }
    let scoped = c.scoped_rule;
    let start = || match scoped {
        Some((a, k)) => Configuration::builder().scope_(|b| b.do_(Box::new(AddRule(a, k)))),
        None => Configuration::builder(),
    };
    let cfg: Configuration<RealP> = match c.structure % 5 {
        0 => start().while_(LessThanN_iterations(n), |b| body_logger(b.do_(Box::new(Bump)))).build(),
        1 => start().do_(Logger::new()).while_(LessThanN_iterations(n), |b| b.do_(Box::new(Bump))).do_(Logger::new()).build(),
        2 => start().while_(LessThanN_iterations(n), |b| b.do_(Logger::new()).do_(Box::new(Bump)).do_(Logger::new())).build(),
        3 => start().while_(LessThanN_iterations(n), |b| b.do_(Box::new(Bump)).if_(EveryN::iterations(2), body_logger)).build(),
        _ => start().while_(LessThanN_iterations(n), |b| b.do_(Box::new(Bump)).scope_(body_logger)).build(),
    };
    let problem = RealP::new(1, -1.0, 1.0, RealKind::Sphere);
    tl_reset(None);
    let rules: Vec<(Trig, Extr)> = c.rules[..c.rules.len() - scoped.is_some() as usize].to_vec();
    let case = c.clone();
    let setup = |state: &mut State<RealP>| -> ExecResult<()> {
            if case.present[0] {
                state.insert(HV0(0));
            }
            if case.present[1] {
                state.insert(HV1(10));
            }
            if case.present[2] {
                state.insert(HV2(20));
            }
            if case.present[3] {
                state.insert(HV3(30));
            }
            if case.present[4] {
                state.insert(HV4(40));
            }
            if let Some(e) = case.evaluations {
                state.insert(Evaluations(e));
            }
            {
                let (a, b) = pop_sizes(&case);
                let mut ps = state.populations_mut();
                ps.push((0..a).map(|k| Individual::new_unevaluated(vec![k as f64])).collect());
                ps.push((0..b).map(|k| Individual::new_unevaluated(vec![k as f64])).collect());
            }
            if let Some(b) = case.best {
                let mut bi = BestIndividual::<RealP>::new();
                bi.update(&Individual::new(vec![0.0], best_value(b).try_into().unwrap()));
                state.insert(bi);
            }
            state.configure_log(|cfg| {
                for (k, (t, e)) in rules.iter().enumerate() {
                    if let Some((start, end)) = group {
                        if k == start {
                            cfg.with_many(build_trigger(t), rules[start..end].iter().map(|(_, e)| extractor_of(e)).collect::<Vec<_>>());
                        }
                        if k >= start && k < end {
                            continue;
                        }
                    }
                    let trig = build_trigger(t);
                    match e {
                        Extr::H(k) => match k % 5 {
                            0 => cfg.with(trig, Box::new(HL0)),
                            1 => cfg.with(trig, Box::new(HL1)),
                            2 => cfg.with(trig, Box::new(HL2)),
                            3 => cfg.with(trig, Box::new(HL3)),
                            _ => cfg.with(trig, Box::new(HL4)),
                        },
                        Extr::Iterations => cfg.with(trig, ValueOf::<Iterations>::entry::<RealP>()),
                        Extr::Evaluations => cfg.with(trig, IdLens::<Evaluations>::entry::<RealP>()),
                        Extr::Common => cfg.with_common(trig),
                        Extr::BestObjective => cfg.with(trig, BestObjectiveValueLens::<RealP>::entry()),
                        Extr::Missing => cfg.with(trig, Box::new(MissingLens)),
                        Extr::PopulationSize => cfg.with(trig, mahf::lens::common::PopulationSizeLens::<RealP>::entry()),
                        Extr::Named(k) => cfg.with(trig, Box::new(Named(*k))),
                    };
                }
                Ok(())
            })
    };
    let res = catch(|| cfg.optimize_with(&problem, |state| setup(state)));
    let at = format!("{c:?}");
    let mut state = match res {
        Ok(Ok(s)) => {
            ensure_that!(expected_ok, "C15 run succeeds although a trigger must fail", "{at}");
            s
        }
        Ok(Err(e)) => {
            if expected_ok {
                fail!("C15 logging run fails", "{at}: {e:#}");
            }
            return Ok(());
        }
        Err(p) => fail!("C15 logging run panics", "{at}: {p}"),
    };
    // (i) the in-memory log, order preserving (read through serde_json, which writes non-finite floats as null)
    let jsonify = |v: &V| match v {
        V::F(bits) if !f64::from_bits(*bits).is_finite() => V::Null,
        other => other.clone(),
    };
    let mj: Vec<Vec<(String, V)>> = m.steps.iter().map(|s| s.iter().map(|(n, v)| (n.clone(), jsonify(v))).collect()).collect();
    let log = state.log();
    let read_log = |log: &mahf::logging::Log| -> Result<Vec<Vec<(String, V)>>, Failure> {
        let direct = serde_json::to_value(log).map_err(|e| Failure::new("C15 log not serialisable", format!("{at}: {e}")))?;
        Ok(direct
            .as_array()
            .map(|steps| steps.iter().map(|s| s.as_array().map(|es| es.iter().map(|e| (e["name"].as_str().unwrap_or("?").to_string(), json_v(&e["value"]))).collect()).unwrap_or_default()).collect())
            .unwrap_or_default())
    };
    let got = read_log(&log)?;
    if got.len() != mj.len() || got.iter().zip(&mj).any(|(a, b)| a.len() != b.len() || a.iter().zip(b).any(|(x, y)| x.0 != y.0 || !same(&x.1, &y.1))) {
        let k = got.iter().zip(&mj).position(|(a, b)| a.len() != b.len() || a.iter().zip(b).any(|(x, y)| x.0 != y.0 || !same(&x.1, &y.1))).unwrap_or(got.len().min(mj.len()));
        let sig = if got.len() > mj.len() && got.iter().any(|s| s.is_empty() || s.iter().all(|e| e.0 == IT_NAME)) {
            "C15 a step was recorded although nothing fired"
        } else if got.len() != mj.len() {
            "C15 number of log steps"
        } else if got[k].len() == mj[k].len() && got[k].iter().map(|e| &e.0).collect::<Vec<_>>() != mj[k].iter().map(|e| &e.0).collect::<Vec<_>>() {
            "C15 entry order / first-rule-wins / iteration entry position"
        } else if got[k].len() != mj[k].len() {
            "C15 number of entries in a step"
        } else {
            "C15 logged value differs from the state at that moment"
        };
        fail!(sig, "{at}: step {k}: recorded {:?}, expected {:?} ({} steps recorded, {} expected)", got.get(k), mj.get(k), got.len(), mj.len());
    }
    let expected_maps: Vec<BTreeMap<String, V>> = m.steps.iter().map(|s| s.iter().cloned().collect()).collect();
    // (ii) JSON export
    let dir = format!("{}/target/scratch/{}", crate::engine::VERIF_DIR, std::process::id());
    let _ = std::fs::create_dir_all(&dir);
    let jpath = format!("{dir}/log.json");
    log.to_json(&jpath).map_err(|e| Failure::new("C15 to_json fails", format!("{at}: {e:#}")))?;
    let text = std::fs::read_to_string(&jpath).unwrap_or_default();
    let j: serde_json::Value = serde_json::from_str(&text).map_err(|e| Failure::new("C15 JSON export does not parse", format!("{at}: {e}")))?;
    let jnames: Vec<String> = j["names"].as_array().map(|a| a.iter().map(|x| x.as_str().unwrap_or("?").to_string()).collect()).unwrap_or_default();
    let jsteps: Vec<BTreeMap<String, V>> = j["entries"]
        .as_array()
        .map(|a| a.iter().map(|s| s.as_object().map(|o| o.iter().map(|(k, v)| (k.parse::<usize>().ok().and_then(|i| jnames.get(i).cloned()).unwrap_or_else(|| format!("bad key {k}")), json_v(v))).collect()).unwrap_or_default()).collect())
        .unwrap_or_default();
    let maps_equal = |a: &Vec<BTreeMap<String, V>>, b: &Vec<BTreeMap<String, V>>| a.len() == b.len() && a.iter().zip(b).all(|(x, y)| x.len() == y.len() && x.iter().zip(y).all(|(p, q)| p.0 == q.0 && same(p.1, q.1)));
    let expected_json_maps: Vec<BTreeMap<String, V>> = mj.iter().map(|s| s.iter().cloned().collect()).collect();
    ensure_that!(maps_equal(&jsteps, &expected_json_maps), "C15 JSON export does not decode to the recorded steps", "{at}: decoded {jsteps:?}, expected {expected_maps:?} (name table {jnames:?})");
    // (iii) CBOR export
    let cpath = format!("{dir}/log.cbor");
    log.to_cbor(&cpath).map_err(|e| Failure::new("C15 to_cbor fails", format!("{at}: {e:#}")))?;
    let bytes = std::fs::read(&cpath).unwrap_or_default();
    let cv: ciborium::value::Value = ciborium::de::from_reader(bytes.as_slice()).map_err(|e| Failure::new("C15 CBOR export does not parse", format!("{at}: {e}")))?;
    let mut cnames: Vec<String> = Vec::new();
    let mut csteps: Vec<BTreeMap<String, V>> = Vec::new();
    if let ciborium::value::Value::Map(top) = &cv {
        for (k, v) in top {
            match (k.as_text(), v) {
                (Some("names"), ciborium::value::Value::Array(a)) => cnames = a.iter().map(|x| x.as_text().unwrap_or("?").to_string()).collect(),
                _ => {}
            }
        }
        for (k, v) in top {
            if let (Some("entries"), ciborium::value::Value::Array(a)) = (k.as_text(), v) {
                for s in a {
                    let mut map = BTreeMap::new();
                    if let ciborium::value::Value::Map(es) = s {
                        for (ek, ev) in es {
                            let idx: Option<usize> = ek.as_integer().and_then(|i| usize::try_from(i128::from(i)).ok());
                            map.insert(idx.and_then(|i| cnames.get(i).cloned()).unwrap_or_else(|| format!("bad key {ek:?}")), cbor_v(ev));
                        }
                    }
                    csteps.push(map);
                }
            }
        }
    }
    ensure_that!(maps_equal(&csteps, &expected_maps), "C15 CBOR export does not decode to the recorded steps", "{at}: decoded {csteps:?}, expected {expected_maps:?} (name table {cnames:?})");
    let _ = std::fs::remove_file(&jpath);
    let _ = std::fs::remove_file(&cpath);
    drop(log);
    // (iv) a log handed to the next run through `init_state` is continued, not replaced
    if c.carry {
        *cl |= 512;
        let carried: mahf::logging::Log = state.take::<mahf::logging::Log>();
        drop(state);
        tl_reset(None);
        let mut carried = Some(carried);
        let res = catch(|| {
            cfg.optimize_with(&problem, |state| {
                setup(state)?;
                state.insert(carried.take().unwrap());
                Ok(())
            })
        });
        let state2 = match res {
            Ok(Ok(s)) => s,
            Ok(Err(e)) => fail!("C15 logging run fails", "{at}: second run with the carried log: {e:#}"),
            Err(p) => fail!("C15 logging run panics", "{at}: second run with the carried log: {p}"),
        };
        let got2 = read_log(&state2.log())?;
        let twice: Vec<Vec<(String, V)>> = mj.iter().chain(mj.iter()).cloned().collect();
        if got2.len() != twice.len() || got2.iter().zip(&twice).any(|(a, b)| a.len() != b.len() || a.iter().zip(b).any(|(x, y)| x.0 != y.0 || !same(&x.1, &y.1))) {
            fail!("C15 a log handed to the next run is not continued", "{at}: the second run leaves {} steps, expected the {} of the first run followed by the same {} again; got {:?}", got2.len(), mj.len(), mj.len(), got2);
        }
    }
    // did an execution fire nothing?
    let executions = match c.structure % 5 {
        0 | 4 => n,
        1 => 2,
        2 => 2 * n,
        _ => (n + 1) / 2,
    };
    if (m.steps.len() as u32) < executions {
        *cl |= 8;
    }
    Ok(())
}

#[derive(Clone, Default, Serialize)]
struct MissingLens;
impl AnyLens for MissingLens {
    type Target = i64;
}
impl Lens<RealP> for MissingLens {
    fn get(&self, _p: &RealP, state: &State<RealP>) -> ExecResult<i64> {
        Ok(state.try_get_value::<NeverInserted>()?)
    }
}
impl EntryName for MissingLens {
    fn entry_name() -> &'static str {
        "never-inserted"
    }
}

fn trig_strategy() -> impl Strategy<Value = Trig> {
    let leaf = prop_oneof![
        3 => Just(Trig::Always),
        1 => Just(Trig::Never),
        3 => (1u32..5).prop_map(Trig::EveryN),
        2 => (1u32..7).prop_map(Trig::LessThan),
        3 => proptest::collection::vec(any::<bool>(), 0..8).prop_map(|s| Trig::Scripted(0, s)),
    ];
    leaf.prop_recursive(2, 6, 2, |inner| {
        prop_oneof![
            (inner.clone(), inner.clone()).prop_map(|(a, b)| Trig::And(Box::new(a), Box::new(b))),
            (inner.clone(), inner.clone()).prop_map(|(a, b)| Trig::Or(Box::new(a), Box::new(b))),
            inner.prop_map(|a| Trig::Not(Box::new(a))),
        ]
    })
}

fn renumber_scripts(t: &mut Trig, next: &mut u16) {
    match t {
        Trig::Scripted(id, _) => {
            *id = *next;
            *next += 1;
        }
        Trig::And(a, b) | Trig::Or(a, b) => {
            renumber_scripts(a, next);
            renumber_scripts(b, next);
        }
        Trig::Not(a) => renumber_scripts(a, next),
        _ => {}
    }
}

fn log_strategy() -> impl Strategy<Value = LogCase> {
    let extr = prop_oneof![6 => (0u8..5).prop_map(Extr::H), 2 => Just(Extr::Iterations), 1 => Just(Extr::Evaluations), 1 => Just(Extr::Common), 1 => Just(Extr::BestObjective), 1 => Just(Extr::Missing), 1 => Just(Extr::PopulationSize)];
    (proptest::collection::vec((trig_strategy(), extr), 0..7), proptest::option::of((0u8..3, 0u8..7)), 0u8..5, 0u32..13, [any::<bool>(), any::<bool>(), any::<bool>(), any::<bool>(), any::<bool>()], proptest::option::of(0u32..100), proptest::option::of(prop_oneof![5 => -5i32..50, 1 => Just(i32::MAX)]), proptest::option::of((any::<u8>(), any::<u8>())), (any::<bool>(), proptest::option::weighted(0.3, (0u8..6, 0u8..5)), proptest::option::weighted(0.04, 250u16..330)))
        .prop_map(|(mut rules, change, structure, iters, present, evaluations, best, many, (carry, scoped_rule, wide))| {
            // at most one ChangeOf trigger (they share their `Previous` state by value type)
            if let (Some((k, pos)), false) = (change, rules.is_empty()) {
                let i = pos as usize % rules.len();
                rules[i].0 = Trig::ChangeOf(k);
            }
            let mut next = 0;
            for (t, _) in rules.iter_mut() {
                renumber_scripts(t, &mut next);
            }
            // a block of hundreds of rules with distinct entry names (the export's name table grows beyond 256 entries)
            if let Some(w) = wide {
                rules.extend((0..w).map(|k| (Trig::Always, Extr::Named(k))));
            }
            // the progress value after a zero-iteration loop is 0/0
            let iters = if structure % 5 == 1 { iters.max(1) } else { iters };
            LogCase { rules, structure, iters, present, evaluations, best, many, pops: (many.map_or(2, |m| m.0), many.map_or(0, |m| m.1)), half_bound: iters % 3 == 2, carry, scoped_rule }
        })
}

// ------------------------------------------------------------------------------------------------
// configuration export
// ------------------------------------------------------------------------------------------------

/// Catalogue of shipped components with numeric parameters (real-valued problems).
#[derive(Clone, Debug, Serialize, Deserialize, PartialEq)]
pub enum CNode {
    /// catalogue index, two numeric parameters (small positive integers mapped into each component's range)
    Comp(u8, u8, u8),
    Seq(Vec<CNode>),
    While(u8, Vec<CNode>),
    If(u8, Vec<CNode>),
    IfElse(u8, Vec<CNode>, Vec<CNode>),
    Scope(Vec<CNode>),
}

const N_CATALOGUE: u8 = 38;

/// (expected struct name, numeric parameters that must appear in the serialisation, component)
fn catalogue(i: u8, a: u8, b: u8) -> (&'static str, Vec<f64>, Box<dyn Component<RealP>>) {
    let n = 1 + a as u32; // 1..
    let p = (1 + b as u32) as f64 / 16.0; // (0, 1]
    match i % N_CATALOGUE {
        0 => ("RandomSpread", vec![n as f64], initialization::RandomSpread::new(n)),
        1 => ("Empty", vec![], initialization::Empty::new()),
        2 => ("PopulationEvaluator", vec![], mahf::components::evaluation::PopulationEvaluator::new()),
        3 => ("BestIndividualUpdate", vec![], mahf::components::evaluation::BestIndividualUpdate::new()),
        4 => ("All", vec![], selection::All::new()),
        5 => ("None", vec![], selection::None::new()),
        6 => ("CloneSingle", vec![n as f64], selection::CloneSingle::new(n)),
        7 => ("FullyRandom", vec![n as f64], selection::FullyRandom::new(n)),
        8 => ("RandomWithoutRepetition", vec![n as f64], selection::RandomWithoutRepetition::new(n)),
        9 => ("RouletteWheel", vec![n as f64, p], selection::RouletteWheel::new(n, p)),
        10 => ("StochasticUniversalSampling", vec![n as f64, p], selection::StochasticUniversalSampling::new(n, p)),
        11 => ("Tournament", vec![n as f64, (b as u32 + 1) as f64], selection::Tournament::new(n, b as u32 + 1)),
        12 => ("LinearRank", vec![n as f64], selection::LinearRank::new(n)),
        13 => ("ExponentialRank", vec![n as f64, p * 0.9], selection::ExponentialRank::new(n, p * 0.9).unwrap()),
        14 => ("DEBest", vec![(1 + a % 2) as f64], selection::de::DEBest::new(1 + (a % 2) as u32).unwrap()),
        15 => ("DeterministicFitnessProportional", vec![n as f64, (n + b as u32) as f64], selection::iwo::DeterministicFitnessProportional::new(n, n + b as u32)),
        16 => ("NormalMutation", vec![n as f64, p], mutation::NormalMutation::new(n as f64, p)),
        17 => ("UniformMutation", vec![n as f64, p], mutation::UniformMutation::new(n as f64, p)),
        18 => ("PartialRandomSpread", vec![p], mutation::PartialRandomSpread::new(p)),
        19 => ("DEMutation", vec![(1 + a % 2) as f64, p], mutation::de::DEMutation::new(1 + (a % 2) as u32, p).unwrap()),
        20 => ("NPointCrossover", vec![n as f64, p], recombination::NPointCrossover::new::<RealP, f64>(n as usize, p, b % 2 == 0)),
        21 => ("UniformCrossover", vec![p], recombination::UniformCrossover::new::<RealP, f64>(p, a % 2 == 0)),
        22 => ("ArithmeticCrossover", vec![p], recombination::ArithmeticCrossover::new::<RealP>(p, a % 2 == 0)),
        23 => ("DEBinomialCrossover", vec![p], recombination::de::DEBinomialCrossover::new::<RealP>(p)),
        24 => ("Saturation", vec![], boundary::Saturation::new()),
        25 => ("Mirror", vec![], boundary::Mirror::new()),
        26 => ("Toroidal", vec![], boundary::Toroidal::new()),
        27 => ("MuPlusLambda", vec![n as f64], replacement::MuPlusLambda::new(n)),
        28 => ("Generational", vec![n as f64], replacement::Generational::new(n)),
        29 => ("RandomReplacement", vec![n as f64], replacement::RandomReplacement::new(n)),
        30 => ("KeepBetterAtIndex", vec![], replacement::KeepBetterAtIndex::new()),
        31 => ("ElitistArchiveUpdate", vec![n as f64], archive::ElitistArchiveUpdate::new(n as usize)),
        32 => ("RotatePopulations", vec![n as f64], utils::populations::RotatePopulations::new(n as usize)),
        33 => ("Logger", vec![], Logger::new()),
        // components that are generic over lenses whose state type is generic itself: the type arguments are part of
        // what the component does (which counter drives the schedule)
        34 => ("Linear", vec![n as f64, p], mapping::Linear::new(n as f64, p, ValueOf::<Progress<ValueOf<Iterations>>>::new(), ValueOf::<InertiaWeight<ParticleVelocitiesUpdate>>::new())),
        35 => ("Linear", vec![n as f64, p], mapping::Linear::new(n as f64, p, ValueOf::<Progress<ValueOf<Evaluations>>>::new(), ValueOf::<InertiaWeight<ParticleVelocitiesUpdate>>::new())),
        36 => ("Polynomial", vec![n as f64, p, 2.0], mapping::Polynomial::new(n as f64, p, 2.0, ValueOf::<Progress<ValueOf<Iterations>>>::new(), ValueOf::<InertiaWeight<ParticleVelocitiesUpdate>>::new())),
        _ => ("Polynomial", vec![n as f64, p, 2.0], mapping::Polynomial::new(n as f64, p, 2.0, ValueOf::<Progress<ValueOf<Evaluations>>>::new(), ValueOf::<InertiaWeight<ParticleVelocitiesUpdate>>::new())),
    }
}

/// Type names that must be readable from the serialisation of catalogue component `i` (they select what it does).
fn catalogue_strings(i: u8) -> &'static [&'static str] {
    match i % N_CATALOGUE {
        34 | 36 => &["Progress", "Iterations", "InertiaWeight"],
        35 | 37 => &["Progress", "Evaluations", "InertiaWeight"],
        _ => &[],
    }
}
fn cond_strings(i: u8) -> &'static [&'static str] {
    match i % 4 {
        0 | 2 => &["Iterations"],
        1 => &["Evaluations"],
        _ => &[],
    }
}

/// (expected name, numeric parameters, condition)
fn cond_catalogue(i: u8) -> (&'static str, Vec<f64>, Box<dyn Condition<RealP>>) {
    let n = 1 + (i / 4) as u32;
    match i % 4 {
        0 => ("LessThanN", vec![n as f64], LessThanN::iterations(n)),
        1 => ("LessThanN", vec![n as f64], LessThanN::evaluations(n)),
        2 => ("EveryN", vec![n as f64], EveryN::iterations(n)),
        _ => ("RandomChance", vec![n as f64 / 70.0], RandomChance::new(n as f64 / 70.0)),
    }
}

fn build_nodes(nodes: &[CNode], mut b: mahf::configuration::ConfigurationBuilder<RealP>) -> mahf::configuration::ConfigurationBuilder<RealP> {
    for n in nodes {
        b = match n {
            CNode::Comp(i, x, y) => b.do_(catalogue(*i, *x, *y).2),
            CNode::Seq(body) => b.do_(build_nodes(body, Configuration::builder()).build_component()),
            CNode::While(c, body) => b.while_(cond_catalogue(*c).2, |bb| build_nodes(body, bb)),
            CNode::If(c, body) => b.if_(cond_catalogue(*c).2, |bb| build_nodes(body, bb)),
            CNode::IfElse(c, x, y) => b.if_else_(cond_catalogue(*c).2, |bb| build_nodes(x, bb), |bb| build_nodes(y, bb)),
            CNode::Scope(body) => b.scope_(|bb| build_nodes(body, bb)),
        };
    }
    b
}

fn has_nums(s: &SNode, want: &[f64]) -> bool {
    let mut nums = Vec::new();
    s.nums(&mut nums);
    want.iter().all(|w| nums.iter().any(|x| x == w))
}

/// Compares the recorded structure with the model tree: every node under its struct name, with its parameters, in its nesting position.
fn match_structure(nodes: &[CNode], s: &SNode, path: &str) -> Result<(), Failure> {
    let SNode::Seq(children) = s else { fail!("C15 block is not serialised as a sequence", "{path}: expected a sequence of {} children, got {s:?}", nodes.len()) };
    ensure_that!(children.len() == nodes.len(), "C15 serialisation has a different number of components", "{path}: {} serialised children for {} components", children.len(), nodes.len());
    for (k, (n, c)) in nodes.iter().zip(children).enumerate() {
        let here = format!("{path}/{k}");
        let field = |name: &str| -> Option<&SNode> {
            if let SNode::Struct(_, f) = c {
                f.iter().find(|(n, _)| n == name).map(|(_, v)| v)
            } else {
                None
            }
        };
        let check_cond = |ci: u8, cs: Option<&SNode>| -> Result<(), Failure> {
            let (name, params, _) = cond_catalogue(ci);
            let Some(cs) = cs else { fail!("C15 condition missing in the serialisation", "{here}") };
            ensure_that!(cs.name() == Some(name), "C15 condition serialised under a different name", "{here}: expected {name}, got {:?}", cs.name());
            ensure_that!(has_nums(cs, &params), "C15 condition parameter missing in the serialisation", "{here}: {name} with parameters {params:?} serialised as {cs:?}");
            let text = format!("{cs:?}");
            for w in cond_strings(ci) {
                ensure_that!(text.contains(w), "C15 lens type missing in the serialisation", "{here}: condition {name} reads `{w}` but its serialisation does not say so: {text}");
            }
            Ok(())
        };
        match n {
            CNode::Comp(i, x, y) => {
                let (name, params, _) = catalogue(*i, *x, *y);
                ensure_that!(c.name() == Some(name), "C15 component serialised under a different name", "{here}: expected {name}, got {c:?}");
                ensure_that!(has_nums(c, &params), "C15 component parameter missing in the serialisation", "{here}: {name} with parameters {params:?} serialised as {c:?}");
                let text = format!("{c:?}");
                for w in catalogue_strings(*i) {
                    ensure_that!(text.contains(w), "C15 lens type missing in the serialisation", "{here}: component {name} works on `{w}` but its serialisation does not say so: {text}");
                }
            }
            CNode::Seq(body) => match_structure(body, c, &here)?,
            CNode::While(ci, body) => {
                ensure_that!(c.name() == Some("Loop"), "C15 loop serialised under a different name", "{here}: {c:?}");
                check_cond(*ci, field("while"))?;
                match_structure(body, field("do").unwrap_or(&SNode::None), &format!("{here}/do"))?;
            }
            CNode::If(ci, body) => {
                ensure_that!(c.name() == Some("Branch"), "C15 branch serialised under a different name", "{here}: {c:?}");
                check_cond(*ci, field("condition"))?;
                match_structure(body, field("if_body").unwrap_or(&SNode::None), &format!("{here}/if"))?;
                ensure_that!(field("else_body") == Some(&SNode::None), "C15 branch without else serialises an else body", "{here}");
            }
            CNode::IfElse(ci, x, y) => {
                ensure_that!(c.name() == Some("Branch"), "C15 branch serialised under a different name", "{here}: {c:?}");
                check_cond(*ci, field("condition"))?;
                match_structure(x, field("if_body").unwrap_or(&SNode::None), &format!("{here}/if"))?;
                match field("else_body") {
                    Some(SNode::Some(e)) => match_structure(y, e, &format!("{here}/else"))?,
                    other => fail!("C15 else body missing in the serialisation", "{here}: {other:?}"),
                }
            }
            CNode::Scope(body) => {
                ensure_that!(c.name() == Some("Scope"), "C15 scope serialised under a different name", "{here}: {c:?}");
                match_structure(body, field("body").unwrap_or(&SNode::None), &format!("{here}/body"))?;
            }
        }
    }
    Ok(())
}

fn ron_of<P: Problem>(cfg: &Configuration<P>) -> Result<String, String> {
    ron::ser::to_string_pretty(cfg.heuristic(), ron::ser::PrettyConfig::default().struct_names(true)).map_err(|e| e.to_string())
}

#[derive(Clone, Debug, Serialize, Deserialize)]
pub enum Edit {
    /// change one numeric parameter of the k-th component (pre-order)
    Param(u16),
    /// replace the k-th component by the next catalogue entry
    Replace(u16),
    /// remove the k-th top-level node
    Remove(u16),
    /// insert a component at top-level position k
    Insert(u16, u8),
    /// swap two adjacent top-level nodes
    Swap(u16),
    /// wrap the k-th top-level node into a scope
    WrapScope(u16),
}

#[derive(Clone, Debug, Serialize, Deserialize)]
pub struct TreeCase {
    pub tree: Vec<CNode>,
    pub edit: Edit,
}

fn comps_mut<'a>(nodes: &'a mut [CNode], out: &mut Vec<&'a mut CNode>) {
    for n in nodes {
        match n {
            CNode::Comp(..) => out.push(n),
            CNode::Seq(b) | CNode::Scope(b) | CNode::While(_, b) | CNode::If(_, b) => comps_mut(b, out),
            CNode::IfElse(_, x, y) => {
                comps_mut(x, out);
                comps_mut(y, out);
            }
        }
    }
}

fn count(nodes: &[CNode]) -> (usize, usize) {
    // (nodes, depth)
    let mut n = 0;
    let mut d = 0;
    for x in nodes {
        n += 1;
        let (cn, cd) = match x {
            CNode::Comp(..) => (0, 0),
            CNode::Seq(b) | CNode::Scope(b) | CNode::While(_, b) | CNode::If(_, b) => count(b),
            CNode::IfElse(_, a, b) => {
                let (n1, d1) = count(a);
                let (n2, d2) = count(b);
                (n1 + n2, d1.max(d2))
            }
        };
        n += cn;
        d = d.max(cd + 1);
    }
    (n, d)
}

/// Canonical description of a node: component names with their effective parameters.
fn canon(n: &CNode) -> String {
    match n {
        CNode::Comp(i, a, b) => {
            let (name, params, _) = catalogue(*i, *a, *b);
            let extra = match i % N_CATALOGUE {
                20 => format!(" both={}", b % 2 == 0),
                21 | 22 => format!(" both={}", a % 2 == 0),
                34..=37 => format!(" on={:?}", catalogue_strings(*i)),
                _ => String::new(),
            };
            format!("{name}{params:?}{extra}")
        }
        CNode::Seq(b) => format!("seq[{}]", b.iter().map(canon).collect::<Vec<_>>().join(",")),
        CNode::Scope(b) => format!("scope[{}]", b.iter().map(canon).collect::<Vec<_>>().join(",")),
        CNode::While(c, b) => format!("while{:?}[{}]", (cond_catalogue(*c).0, cond_catalogue(*c).1, cond_strings(*c)), b.iter().map(canon).collect::<Vec<_>>().join(",")),
        CNode::If(c, b) => format!("if{:?}[{}]", (cond_catalogue(*c).0, cond_catalogue(*c).1, cond_strings(*c)), b.iter().map(canon).collect::<Vec<_>>().join(",")),
        CNode::IfElse(c, x, y) => format!("ifelse{:?}[{}][{}]", (cond_catalogue(*c).0, cond_catalogue(*c).1, cond_strings(*c)), x.iter().map(canon).collect::<Vec<_>>().join(","), y.iter().map(canon).collect::<Vec<_>>().join(",")),
    }
}

/// Some(edited) if the edit changes structure or parameter values.
fn apply_edit(tree: &[CNode], e: &Edit) -> Option<Vec<CNode>> {
    let mut t = tree.to_vec();
    match e {
        Edit::Param(k) | Edit::Replace(k) => {
            let mut cs = Vec::new();
            comps_mut(&mut t, &mut cs);
            if cs.is_empty() {
                return None;
            }
            let i = *k as usize % cs.len();
            if let CNode::Comp(c, a, b) = &mut *cs[i] {
                if matches!(e, Edit::Param(_)) {
                    let before = catalogue(*c, *a, *b).1;
                    if before.is_empty() {
                        return None;
                    }
                    *a = (*a + 1) % 7;
                    *b = (*b + 1) % 15;
                    if catalogue(*c, *a, *b).1 == before {
                        return None;
                    }
                } else {
                    let before = catalogue(*c, *a, *b).0;
                    *c = (*c + 1) % N_CATALOGUE;
                    if catalogue(*c, *a, *b).0 == before {
                        return None;
                    }
                }
            }
        }
        Edit::Remove(k) => {
            if t.is_empty() {
                return None;
            }
            let i = *k as usize % t.len();
            t.remove(i);
        }
        Edit::Insert(k, c) => {
            let i = *k as usize % (t.len() + 1);
            t.insert(i, CNode::Comp(*c % N_CATALOGUE, 1, 1));
        }
        Edit::Swap(k) => {
            if t.len() < 2 {
                return None;
            }
            let i = *k as usize % (t.len() - 1);
            // nodes that differ only in parameters the component does not have are the same configuration
            if canon(&t[i]) == canon(&t[i + 1]) {
                return None;
            }
            t.swap(i, i + 1);
        }
        Edit::WrapScope(k) => {
            if t.is_empty() {
                return None;
            }
            let i = *k as usize % t.len();
            let x = t.remove(i);
            t.insert(i, CNode::Scope(vec![x]));
        }
    }
    Some(t)
}

pub struct TreeCheck;

impl Check for TreeCheck {
    type Case = TreeCase;
    fn name(&self) -> String {
        "C15/configuration-export".into()
    }
    fn classes(&self) -> &'static [&'static str] {
        &[">= 6 nodes", "depth >= 3", "edit applied"]
    }
    fn oracle(&self, c: &TreeCase) -> Outcome {
        let mut cl = 0;
        let (n, d) = count(&c.tree);
        if n >= 6 {
            cl |= 1;
        }
        if d >= 3 {
            cl |= 2;
        }
        let r = tree_oracle(c, &mut cl);
        Outcome::new(cl & 3 == 3, cl, r)
    }
}

fn tree_oracle(c: &TreeCase, cl: &mut u64) -> Result<(), Failure> {
    let cfg = build_nodes(&c.tree, Configuration::builder()).build();
    let at = format!("{:?}", c.tree);
    let s = match ron_of(&cfg) {
        Ok(s) => s,
        Err(e) => return soft_fail(Failure::new("C15 configuration cannot be serialised to RON", format!("{at}: {e}"))),
    };
    ensure_that!(ron_of(&cfg.clone()).as_deref() == Ok(s.as_str()), "C15 clone serialises differently", "{at}");
    let rec = record(cfg.heuristic()).map_err(|e| Failure::new("C15 configuration cannot be serialised", format!("{at}: {e}")))?;
    match_structure(&c.tree, &rec, "")?;
    if let Some(edited) = apply_edit(&c.tree, &c.edit).filter(|e| e.iter().map(canon).collect::<Vec<_>>() != c.tree.iter().map(canon).collect::<Vec<_>>()) {
        *cl |= 4;
        let cfg2 = build_nodes(&edited, Configuration::builder()).build();
        let s2 = ron_of(&cfg2).map_err(|e| Failure::new("C15 configuration cannot be serialised to RON", format!("{edited:?}: {e}")))?;
        ensure_that!(s != s2, "C15 different configurations serialise identically", "edit {:?}: {at} and {edited:?} both serialise to\n{s}", c.edit);
    }
    // same tree built twice serialises identically
    let again = build_nodes(&c.tree, Configuration::builder()).build();
    ensure_that!(ron_of(&again).as_deref() == Ok(s.as_str()), "C15 equal configurations serialise differently", "{at}");
    Ok(())
}

fn cnode_strategy() -> impl Strategy<Value = CNode> {
    let leaf = (0u8..N_CATALOGUE, 0u8..7, 0u8..15).prop_map(|(i, a, b)| CNode::Comp(i, a, b));
    leaf.prop_recursive(4, 24, 4, |inner| {
        let body = proptest::collection::vec(inner.clone(), 0..4);
        prop_oneof![
            4 => (0u8..N_CATALOGUE, 0u8..7, 0u8..15).prop_map(|(i, a, b)| CNode::Comp(i, a, b)),
            1 => body.clone().prop_map(CNode::Seq),
            2 => (0u8..24, body.clone()).prop_map(|(c, b)| CNode::While(c, b)),
            1 => (0u8..24, body.clone()).prop_map(|(c, b)| CNode::If(c, b)),
            1 => (0u8..24, body.clone(), body.clone()).prop_map(|(c, a, b)| CNode::IfElse(c, a, b)),
            2 => body.prop_map(CNode::Scope),
        ]
    })
}

fn edit_strategy() -> impl Strategy<Value = Edit> {
    prop_oneof![
        3 => any::<u16>().prop_map(Edit::Param),
        2 => any::<u16>().prop_map(Edit::Replace),
        1 => any::<u16>().prop_map(Edit::Remove),
        1 => (any::<u16>(), 0u8..N_CATALOGUE).prop_map(|(k, c)| Edit::Insert(k, c)),
        1 => any::<u16>().prop_map(Edit::Swap),
        1 => any::<u16>().prop_map(Edit::WrapScope),
    ]
}

// ---- templates ----

#[derive(Clone, Debug, Serialize, Deserialize)]
pub struct TplCase {
    pub a: Tpl,
    pub b: Tpl,
    pub iters: u32,
}

pub struct TplCheck;

impl Check for TplCheck {
    type Case = TplCase;
    fn name(&self) -> String {
        "C15/template-export".into()
    }
    fn classes(&self) -> &'static [&'static str] {
        &["two different parameter sets", "file export"]
    }
    fn oracle(&self, c: &TplCase) -> Outcome {
        let mut cl = 0;
        let r = tpl_oracle(c, &mut cl);
        Outcome::new(c.a != c.b, cl, r)
    }
}

fn tpl_ron(t: &Tpl, iters: u32) -> Option<Result<(String, Result<(), String>), String>> {
    let dir = format!("{}/target/scratch/{}", crate::engine::VERIF_DIR, std::process::id());
    let _ = std::fs::create_dir_all(&dir);
    let path = format!("{dir}/config.ron");
    fn go<P: Problem>(cfg: ExecResult<Configuration<P>>, path: &str) -> Option<Result<(String, Result<(), String>), String>> {
        let cfg = cfg.ok()?;
        let file = cfg.to_ron(path).map_err(|e| format!("{e:#}"));
        Some(ron_of(&cfg).map(|s| {
            let same = std::fs::read_to_string(path).map(|f| f == s).unwrap_or(false);
            (s, file.and_then(|_| if same { Ok(()) } else { Err("file content differs from the in-memory serialisation".into()) }))
        }))
    }
    match t.kind() {
        Kind::Real => go(build_real(t, iters)?, &path),
        Kind::Bits => go(build_bits(t, iters)?, &path),
        Kind::Perm => go(build_perm(t, iters)?, &path),
    }
}

fn tpl_oracle(c: &TplCase, cl: &mut u64) -> Result<(), Failure> {
    let at = format!("{:?}", c.a);
    let sa = match tpl_ron(&c.a, c.iters) {
        None => return Ok(()),
        Some(Err(e)) => return soft_fail(Failure::new(format!("C15 template {} cannot be serialised to RON", c.a.name()), format!("{at}: {e}"))),
        Some(Ok((s, file))) => {
            *cl |= 2;
            if let Err(e) = file {
                return soft_fail(Failure::new(format!("C15 to_ron fails for template {}", c.a.name()), format!("{at}: {e}")));
            }
            s
        }
    };
    // equal parameters => equal output
    if let Some(Ok((s2, _))) = tpl_ron(&c.a, c.iters) {
        ensure_that!(s2 == sa, "C15 equal configurations serialise differently", "{at}");
    }
    if c.a != c.b {
        *cl |= 1;
        if let Some(Ok((sb, _))) = tpl_ron(&c.b, c.iters) {
            ensure_that!(sa != sb, format!("C15 template {} parameter change does not change the serialisation", c.a.name()), "{at} and {:?} serialise identically:\n{sa}", c.b);
        }
    }
    // a different iteration bound changes the output as well
    if let Some(Ok((sc, _))) = tpl_ron(&c.a, c.iters + 1) {
        ensure_that!(sa != sc, format!("C15 template {} termination parameter missing in the serialisation", c.a.name()), "{at}: {} and {} iterations serialise identically", c.iters, c.iters + 1);
    }
    Ok(())
}

pub fn run_all(ctx: &mut Ctx, replay: Option<&Path>) {
    ctx.rule("log: case = (0-6 rules of trigger x extractor, logger placement {loop body, before+after the loop, twice per pass, inside a branch, inside a scope}, 0-12 iterations, which source states exist, whether one more rule is registered by a component calling configure_log from inside a scope before the loop, whether the finished log is handed to a second run through init_state - which must then hold the steps of both runs); triggers: always / never / every-n / scripted / change-of (at most one) / LessThanN over the iteration counter (which writes the progress state that with_common logs: every entry holds the value at the moment ITS rule fired) / And-Or-Not of those; occasionally a block of 250-330 rules with distinct entry names (name table of the exports beyond 256 entries); extractors: five harness lenses (two share a name), the iteration counter, evaluations, with_common, the size of the current population while two populations of different size are on the stack, best objective value (finite, or +inf for an infeasible best individual: null in JSON, inf in CBOR), a lens on a state that is never inserted. A reference model predicts the exact sequence of steps and entries; compared with the in-memory log (order preserving), the JSON export expanded through its name table, and the CBOR export; non-trivial = >= 3 steps with a duplicate name and a missing source. export: generated configuration trees over control flow and a catalogue of 38 shipped components (incl. the Linear / Polynomial mappings over lenses of generic state types: progress of the iteration counter vs. progress of the evaluation counter) / 4 conditions with numeric parameters: RON serialisation succeeds, the recorded serde structure has every component under its struct name with its parameter values and the state types its lenses read in its nesting position, a structural or parameter edit changes the RON text, clone and rebuild give identical text; non-trivial = >= 6 nodes and depth >= 3. templates: all 21 with two parameter draws: to_ron writes the same text as the in-memory serialisation, different parameters / iteration bounds give different text; distinct by case");
    ctx.assume("loggers are only placed in configurations that contain a loop (the iteration entry needs the counter)");
    ctx.assume("not part of the serialisation by documentation: Debug closures, Scope function pointers, identifier type parameters held in plain PhantomData");
    ctx.assume("at most one change-of trigger per log configuration (their `previous value` state is shared per value type)");
    let l = LogCheck;
    let t = TreeCheck;
    let p = TplCheck;
    if let Some(path) = replay {
        let _ = ctx.replay_file(&l, path) || ctx.replay_file(&t, path) || ctx.replay_file(&p, path);
        return;
    }
    ctx.regressions(&l);
    ctx.regressions(&t);
    ctx.regressions(&p);
    ctx.random(&l, log_strategy(), ctx.tier.pick(10_000, 60_000));
    ctx.random(&t, (proptest::collection::vec(cnode_strategy(), 0..6), edit_strategy()).prop_map(|(tree, edit)| TreeCase { tree, edit }), ctx.tier.pick(10_000, 60_000));
    let tpl_case = (0usize..21).prop_flat_map(|i| inst_strategy(kind_of_index(i)).prop_flat_map(move |inst| (tpl_strategy(i, inst.dim()), tpl_strategy(i, inst.dim()), 0u32..20))).prop_map(|(a, b, iters)| TplCase { a, b, iters });
    ctx.random(&p, tpl_case, ctx.tier.pick(1500, 8000));
    let _ = std::fs::remove_dir_all(format!("{}/target/scratch/{}", crate::engine::VERIF_DIR, std::process::id()));
}
