//! C11 — selection copies members of the source population, in the requested number, and never
//! favours a worse individual.

use std::path::Path;

use mahf::{
    components::selection::{
        de::{DEBest, DECurrentToBest, DERand},
        functional as f,
        iwo::DeterministicFitnessProportional,
        All, CloneSingle, ExponentialRank, FullyRandom, LinearRank, None as SelNone, RandomWithoutRepetition, RouletteWheel, Selection, StochasticUniversalSampling, Tournament,
    },
    state::common::Populations,
    Component, Individual, Random, State,
};
use proptest::prelude::*;
use serde::{Deserialize, Serialize};

use crate::{
    engine::{catch, soft_fail, Check, Ctx, Failure, Outcome},
    ensure_that, fail,
    fixtures::problems::{RealKind, RealP},
    props::c09::Fb,
};

/// (tag, objective as small integer; i8::MAX = +inf)
pub type Ind = (u16, i8);

#[derive(Clone, Debug, Serialize, Deserialize, PartialEq)]
pub enum Op {
    All,
    None,
    CloneSingle(u32),
    FullyRandom(u32),
    RandomWithoutRepetition(u32),
    RouletteWheel(u32, Fb),
    Sus(u32, Fb),
    Tournament(u32, u32),
    LinearRank(u32),
    ExponentialRank(u32, Fb),
    DERand(u32),
    DEBest(u32),
    DECurrentToBest(u32),
    Iwo(u32, u32),
}

#[derive(Clone, Debug, Serialize, Deserialize)]
pub struct Case {
    pub op: Op,
    pub pop: Vec<Ind>,
    /// objective = small integer * scale
    pub scale: Fb,
    pub seed: u64,
    pub direct: bool,
    pub below: u8,
    /// added to every finite objective value
    #[serde(default)]
    pub base: Fb,
    /// per individual (cyclic): move the objective value by that many representable values (i8::MIN: flip the sign
    /// of a zero); empty = none
    #[serde(default)]
    pub nudges: Vec<i8>,
    /// other state present while the operator runs (component path): 1 = a best-so-far individual that is better than
    /// every member and not a member itself, 2 = one equal to the worst member's objective, plus iteration / evaluation
    /// counters; selection works on the population it is given, whatever else the state tracks
    #[serde(default)]
    pub distractor: u8,
}

/// objective value of individual `idx` of the case
fn obj_of(c: &Case, idx: usize) -> f64 {
    let v = objv(c.pop[idx].1, c.scale.f());
    if !v.is_finite() {
        return v;
    }
    let mut v = v + c.base.f();
    if !c.nudges.is_empty() {
        let k = c.nudges[idx % c.nudges.len()];
        if k == i8::MIN {
            if v == 0.0 {
                v = -v;
            }
        } else {
            for _ in 0..k.unsigned_abs() {
                v = if k > 0 { next_up(v) } else { -next_up(-v) };
            }
        }
    }
    v
}
fn next_up(x: f64) -> f64 {
    if x == 0.0 {
        f64::from_bits(1)
    } else if x > 0.0 {
        f64::from_bits(x.to_bits() + 1)
    } else {
        f64::from_bits(x.to_bits() - 1)
    }
}

fn objv(o: i8, scale: f64) -> f64 {
    if o == i8::MAX {
        f64::INFINITY
    } else {
        o as f64 * scale
    }
}

fn mk(i: &Ind, scale: f64) -> Individual<RealP> {
    Individual::new(vec![i.0 as f64], objv(i.1, scale).try_into().unwrap())
}

type V = (u16, u64);
fn view(i: &Individual<RealP>) -> V {
    (i.solution()[0] as u16, i.objective().value().to_bits())
}

fn op_name(op: &Op) -> &'static str {
    match op {
        Op::All => "All",
        Op::None => "None",
        Op::CloneSingle(_) => "CloneSingle",
        Op::FullyRandom(_) => "FullyRandom",
        Op::RandomWithoutRepetition(_) => "RandomWithoutRepetition",
        Op::RouletteWheel(..) => "RouletteWheel",
        Op::Sus(..) => "StochasticUniversalSampling",
        Op::Tournament(..) => "Tournament",
        Op::LinearRank(_) => "LinearRank",
        Op::ExponentialRank(..) => "ExponentialRank",
        Op::DERand(_) => "DERand",
        Op::DEBest(_) => "DEBest",
        Op::DECurrentToBest(_) => "DECurrentToBest",
        Op::Iwo(..) => "DeterministicFitnessProportional",
    }
}

/// Some(reason) if the input lies outside what the operator documents / what callers provide.
fn outside_domain(op: &Op, pop: &[Ind]) -> Option<&'static str> {
    let n = pop.len();
    match op {
        Op::FullyRandom(k) if n == 0 && *k > 0 => Some("FullyRandom on an empty population"),
        Op::LinearRank(_) | Op::ExponentialRank(..) if n == 0 => Some("rank selection on an empty population"),
        Op::Tournament(_, 0) => Some("tournament size 0"),
        Op::RouletteWheel(..) | Op::Sus(..) if n == 0 => Some("weights of an empty population"),
        Op::Iwo(a, b) if a > b => Some("min_selected > max_selected"),
        _ => None,
    }
}

pub struct SelCheck;

const CL_TIE: u64 = 1;
const CL_DUP: u64 = 2;
const CL_N0: u64 = 4;
const CL_ERR_EXPECTED: u64 = 8;
const CL_DIRECT: u64 = 16;
const CL_INF: u64 = 32;
const CL_NEG: u64 = 64;
const CL_POP3: u64 = 128;
const CL_N_EQ_LEN: u64 = 256;
const CL_NEAR_TIE: u64 = 512;
const CL_SIGNED_ZEROS: u64 = 1024;
const CL_DISTRACTOR: u64 = 2048;

impl Check for SelCheck {
    type Case = Case;
    fn name(&self) -> String {
        "C11/selection".into()
    }
    fn classes(&self) -> &'static [&'static str] {
        &["tied objectives", "duplicate by value", "requested 0", "documented unusable input", "via Selection::select", "+inf objective", "negative objective", "population >= 3", "requested == population size", "distinct objective values within a few representable values of each other", "zeros of both signs", "a best-so-far individual that is not a member (and counters) present in the state", "the generator first replays a script of edge-value words (derived from the seed)"]
    }
    fn oracle(&self, c: &Case) -> Outcome {
        let mut cl = 0;
        let r = oracle(c, &mut cl);
        let nt = cl & CL_POP3 != 0 && cl & (CL_TIE | CL_DUP) != 0 && cl & CL_N0 == 0;
        Outcome::new(nt, cl, r)
    }
}

fn requested(op: &Op) -> Option<u32> {
    match op {
        Op::CloneSingle(n) | Op::FullyRandom(n) | Op::RandomWithoutRepetition(n) | Op::RouletteWheel(n, _) | Op::Sus(n, _) | Op::Tournament(n, _) | Op::LinearRank(n) | Op::ExponentialRank(n, _) => Some(*n),
        _ => None,
    }
}

fn oracle(c: &Case, cl: &mut u64) -> Result<(), Failure> {
    let scale = c.scale.f();
    let pop = &c.pop;
    let n = pop.len();
    if outside_domain(&c.op, pop).is_some() {
        return Ok(());
    }
    let objs: Vec<f64> = (0..n).map(|i| obj_of(c, i)).collect();
    {
        let fin: Vec<f64> = objs.iter().cloned().filter(|o| o.is_finite()).collect();
        let (lo, hi) = (fin.iter().cloned().fold(f64::INFINITY, f64::min), fin.iter().cloned().fold(f64::NEG_INFINITY, f64::max));
        if !fin.is_empty() && lo != hi && (hi - lo) <= 4.0 * f64::EPSILON * hi.abs().max(lo.abs()) {
            *cl |= CL_NEAR_TIE;
        }
        if objs.iter().any(|o| *o == 0.0 && o.is_sign_negative()) && objs.iter().any(|o| *o == 0.0 && o.is_sign_positive()) {
            *cl |= CL_SIGNED_ZEROS;
        }
    }
    if (0..n).any(|i| (0..i).any(|j| objs[i] == objs[j] && pop[i].0 != pop[j].0)) {
        *cl |= CL_TIE;
    }
    if (0..n).any(|i| (0..i).any(|j| pop[i] == pop[j])) {
        *cl |= CL_DUP;
    }
    if requested(&c.op) == Some(0) {
        *cl |= CL_N0;
    }
    if requested(&c.op) == Some(n as u32) && n > 0 {
        *cl |= CL_N_EQ_LEN;
    }
    if objs.iter().any(|o| o.is_infinite()) {
        *cl |= CL_INF;
    }
    if objs.iter().any(|o| *o < 0.0) {
        *cl |= CL_NEG;
    }
    if n >= 3 {
        *cl |= CL_POP3;
    }
    if c.direct {
        *cl |= CL_DIRECT;
    }
    let name = op_name(&c.op);
    let at = format!("{:?} on population {:?} (scale {scale:?}, base {:?}, nudges {:?}: objective values {objs:?}; seed {})", c.op, pop, c.base, c.nudges, c.seed);
    let source: Vec<Individual<RealP>> = pop.iter().zip(&objs).map(|(i, o)| Individual::new(vec![i.0 as f64], (*o).try_into().unwrap())).collect();
    let src_view: Vec<V> = source.iter().map(view).collect();
    let problem = RealP::new(1, 0.0, 1.0, RealKind::Tag);

    // construct
    macro_rules! dispatch {
        ($f:ident) => {
            match &c.op {
                Op::All => $f!(All),
                Op::None => $f!(SelNone),
                Op::CloneSingle(k) => $f!(CloneSingle::from_params(*k)),
                Op::FullyRandom(k) => $f!(FullyRandom::from_params(*k)),
                Op::RandomWithoutRepetition(k) => $f!(RandomWithoutRepetition::from_params(*k)),
                Op::RouletteWheel(k, o) => $f!(RouletteWheel::from_params(*k, o.f())),
                Op::Sus(k, o) => $f!(StochasticUniversalSampling::from_params(*k, o.f())),
                Op::Tournament(k, s) => $f!(Tournament::from_params(*k, *s)),
                Op::LinearRank(k) => $f!(LinearRank::from_params(*k)),
                Op::ExponentialRank(k, b) => match ExponentialRank::from_params(*k, b.f()) {
                    Ok(x) => $f!(x),
                    Err(e) => fail!("C11 ExponentialRank rejects documented base", "{at}: constructor failed: {e}"),
                },
                Op::DERand(y) => $f!(DERand::from_params(*y).unwrap()),
                Op::DEBest(y) => $f!(DEBest::from_params(*y).unwrap()),
                Op::DECurrentToBest(y) => $f!(DECurrentToBest::from_params(*y).unwrap()),
                Op::Iwo(a, b) => $f!(DeterministicFitnessProportional::from_params(*a, *b)),
            }
        };
    }

    if !crate::fixtures::script_of(c.seed).is_empty() {
        *cl |= 4096;
    }
    // run: selected = (views, optional addresses relative to the source slice)
    let result: Result<(Vec<V>, Option<Vec<usize>>), String>;
    if c.direct {
        let mut rng = crate::fixtures::random_for(c.seed);
        macro_rules! run_direct {
            ($comp:expr) => {{
                let comp = $comp;
                catch(|| Selection::<RealP>::select(&comp, &source, &mut rng).map(|sel| {
                    let base = source.as_ptr() as usize;
                    let sz = std::mem::size_of::<Individual<RealP>>();
                    let views: Vec<V> = sel.iter().map(|i| view(i)).collect();
                    let idxs: Vec<usize> = sel.iter().map(|i| ((*i as *const Individual<RealP> as usize).wrapping_sub(base)) / sz).collect();
                    (views, idxs)
                }))
            }};
        }
        let r = dispatch!(run_direct);
        result = match r {
            Ok(Ok((v, idx))) => {
                ensure_that!(idx.iter().all(|i| *i < n), format!("C11 {name} returns a reference outside the source"), "{at}: select returned a reference that does not point into the source population");
                Ok((v, Some(idx)))
            }
            Ok(Err(e)) => Err(format!("{e:#}")),
            Err(p) => {
                return soft_fail(Failure::new(format!("C11 {name} panics"), format!("{at}: panicked: {p}")));
            }
        };
    } else {
        let mut state: State<RealP> = State::new();
        let mut ps = Populations::<RealP>::new();
        for b in 0..c.below % 3 {
            ps.push(vec![mk(&(900 + b as u16, 1), 1.0)]);
        }
        ps.push(source.clone());
        state.insert(ps);
        state.insert(crate::fixtures::random_for(c.seed));
        if c.distractor % 3 != 0 {
            let fin: Vec<f64> = objs.iter().cloned().filter(|o| o.is_finite()).collect();
            let v = if c.distractor % 3 == 1 { fin.iter().cloned().fold(0.0, f64::min) - 1.0 } else { fin.iter().cloned().fold(0.0, f64::max) };
            let mut b = mahf::state::common::BestIndividual::<RealP>::new();
            b.update(&Individual::new(vec![777.0], v.try_into().unwrap()));
            state.insert(b);
            state.insert(mahf::state::common::Evaluations(17));
            state.insert(mahf::state::common::Iterations(3));
            *cl |= CL_DISTRACTOR;
        }
        macro_rules! run_comp {
            ($comp:expr) => {{
                // one case in six: inside 1-3 nested scopes, the population stack lives outside of them
                let comp: Box<dyn Component<RealP>> = crate::fixtures::maybe_nested(Box::new($comp), c.seed);
                catch(|| comp.execute(&problem, &mut state))
            }};
        }
        let r = dispatch!(run_comp);
        if state.try_borrow::<Populations<RealP>>().is_err() {
            fail!(format!("C11 {name} loses the population stack"), "{at}: executed inside {} nested scope(s): afterwards the state holds no population stack", crate::fixtures::nest_of(c.seed));
        }
        let h0 = (c.below % 3) as usize + 1;
        match r {
            Ok(Ok(())) => {
                let ps = state.populations();
                ensure_that!(ps.len() == h0 + 1, format!("C11 {name} does not push exactly one population"), "{at}: stack height {} after selection, expected {}", ps.len(), h0 + 1);
                let src_after: Vec<V> = ps.peek(1).iter().map(view).collect();
                ensure_that!(src_after == src_view, format!("C11 {name} changes the source population"), "{at}: source population (depth 1) after selection is {src_after:?}");
                for b in 0..c.below % 3 {
                    let p = ps.peek(h0 - b as usize);
                    ensure_that!(p.len() == 1 && p[0].solution()[0] == (900 + b as u16) as f64, format!("C11 {name} touches populations below"), "{at}: population below changed");
                }
                result = Ok((ps.current().iter().map(view).collect(), None));
            }
            Ok(Err(e)) => {
                let ps = state.populations();
                ensure_that!(ps.len() == h0, format!("C11 {name} leaves garbage on error"), "{at}: stack height {} after a failed selection, expected {h0}", ps.len());
                let src_after: Vec<V> = ps.current().iter().map(view).collect();
                ensure_that!(src_after == src_view, format!("C11 {name} changes the source population"), "{at}: source population after a failed selection is {src_after:?}");
                result = Err(format!("{e:#}"));
            }
            Err(p) => {
                return soft_fail(Failure::new(format!("C11 {name} panics"), format!("{at}: panicked: {p}")));
            }
        }
    }

    // documented unusable inputs => Err
    let has_inf = objs.iter().any(|o| o.is_infinite());
    let must_err: Option<&str> = match &c.op {
        Op::CloneSingle(_) if n != 1 => Some("not exactly one individual"),
        Op::RandomWithoutRepetition(k) if (n as u32) < *k => Some("fewer individuals than requested without repetition"),
        Op::Tournament(_, s) if (n as u32) < *s => Some("fewer individuals than the tournament size"),
        Op::RouletteWheel(..) | Op::Sus(..) | Op::Iwo(..) if has_inf => Some("infinite objective value"),
        Op::DEBest(_) | Op::DECurrentToBest(_) | Op::Iwo(..) if n == 0 => Some("empty population"),
        _ => None,
    };
    if let Some(why) = must_err {
        *cl |= CL_ERR_EXPECTED;
        ensure_that!(result.is_err(), format!("C11 {name} accepts documented unusable input"), "{at}: expected an error ({why}), got {:?}", result.as_ref().map(|r| r.0.len()));
        return Ok(());
    }
    let (sel, idxs) = match result {
        Ok(r) => r,
        Err(e) => {
            return soft_fail(Failure::new(format!("C11 {name} errs on a usable population"), format!("{at}: {e}")));
        }
    };
    // only copies of source members
    for s in &sel {
        ensure_that!(src_view.contains(s), format!("C11 {name} returns a non-member"), "{at}: selected {s:?} which is not an exact copy (solution and objective) of a source member");
    }
    // cardinality and content
    let best = objs.iter().cloned().fold(f64::INFINITY, f64::min);
    match &c.op {
        Op::All => ensure_that!(sel == src_view, "C11 All content", "{at}: got {sel:?}"),
        Op::None => ensure_that!(sel.is_empty(), "C11 None content", "{at}: got {sel:?}"),
        Op::RandomWithoutRepetition(k) => {
            if sel.len() != *k as usize {
                return soft_fail(Failure::new("C11 RandomWithoutRepetition count", format!("{at}: returned {} individuals, requested {k}", sel.len())));
            }
            if let Some(idx) = &idxs {
                let mut s = idx.clone();
                s.sort();
                s.dedup();
                ensure_that!(s.len() == idx.len(), "C11 RandomWithoutRepetition repeats a member", "{at}: indices {idx:?}");
            }
            let mut pool = src_view.clone();
            for s in &sel {
                match pool.iter().position(|x| x == s) {
                    Some(i) => {
                        pool.swap_remove(i);
                    }
                    None => fail!("C11 RandomWithoutRepetition repeats a member", "{at}: {s:?} selected more often than it occurs in the source"),
                }
            }
        }
        Op::CloneSingle(k) | Op::FullyRandom(k) | Op::RouletteWheel(k, _) | Op::Sus(k, _) | Op::Tournament(k, _) | Op::LinearRank(k) | Op::ExponentialRank(k, _) => {
            if sel.len() != *k as usize {
                return soft_fail(Failure::new(format!("C11 {name} count"), format!("{at}: returned {} individuals, requested {k}", sel.len())));
            }
            if let Op::Tournament(_, s) = &c.op {
                if *s as usize == n {
                    ensure_that!(sel.iter().all(|v| f64::from_bits(v.1) == best), "C11 Tournament over the whole population misses the best", "{at}: a tournament over the whole population returned {sel:?}, best objective is {best:?}");
                }
            }
        }
        Op::DERand(y) | Op::DEBest(y) | Op::DECurrentToBest(y) => {
            let block = (2 * y + 1) as usize;
            if n >= block {
                if sel.len() != n * block {
                    return soft_fail(Failure::new(format!("C11 {name} count"), format!("{at}: returned {} individuals, expected len * (2y+1) = {}", sel.len(), n * block)));
                }
                for (b, chunk) in sel.chunks(block).enumerate() {
                    match &c.op {
                        Op::DEBest(_) => ensure_that!(f64::from_bits(chunk[0].1) == best, "C11 DEBest block layout", "{at}: block {b} does not start with the best individual: {chunk:?}"),
                        Op::DECurrentToBest(_) => {
                            ensure_that!(chunk[0] == src_view[b], "C11 DECurrentToBest block layout", "{at}: block {b} does not start with the current individual: {chunk:?}");
                            ensure_that!(f64::from_bits(chunk[1].1) == best, "C11 DECurrentToBest block layout", "{at}: block {b}: second entry is not the best: {chunk:?}");
                        }
                        _ => {}
                    }
                }
            }
        }
        Op::Iwo(lo, hi) => {
            let worst = objs.iter().cloned().fold(f64::NEG_INFINITY, f64::max);
            // count per source member: equal-by-value members necessarily get the same count, so the copies of a
            // value group are divided evenly among its members
            let mut counts = vec![0u32; n];
            for (i, sv) in src_view.iter().enumerate() {
                let group = src_view.iter().filter(|x| *x == sv).count() as u32;
                let total = sel.iter().filter(|x| *x == sv).count() as u32;
                ensure_that!(total % group == 0, "C11 IWO unequal counts for equal individuals", "{at}: {total} copies of {sv:?} for {group} equal source members");
                counts[i] = total / group;
            }
            for i in 0..n {
                ensure_that!(counts[i] >= *lo && counts[i] <= *hi, "C11 IWO count range", "{at}: individual {i} selected {} times, outside [{lo}, {hi}]", counts[i]);
                if best != worst {
                    if objs[i] == best {
                        ensure_that!(counts[i] == *hi, "C11 IWO best count", "{at}: best individual selected {} times, expected max_selected = {hi}", counts[i]);
                    }
                    if objs[i] == worst {
                        ensure_that!(counts[i] == *lo, "C11 IWO worst count", "{at}: worst individual selected {} times, expected min_selected = {lo}", counts[i]);
                    }
                }
                for j in 0..n {
                    if objs[i] < objs[j] {
                        ensure_that!(counts[i] >= counts[j], "C11 IWO favours a worse individual", "{at}: individual {i} (objective {}) selected {} times, worse individual {j} (objective {}) {} times", objs[i], counts[i], objs[j], counts[j]);
                    }
                }
            }
        }
    }
    Ok(())
}

// ------------------------------------------------------------------------------------------------
// selection pressure
// ------------------------------------------------------------------------------------------------

#[derive(Clone, Debug, Serialize, Deserialize)]
pub struct PressureCase {
    pub op: Op,
    /// distinct objective values, as small integers (* scale + shift)
    pub objs: Vec<i8>,
    pub scale: Fb,
    pub shift: Fb,
    pub seed: u64,
}

pub struct PressureCheck;

impl Check for PressureCheck {
    type Case = PressureCase;
    fn name(&self) -> String {
        "C11/selection-pressure".into()
    }
    fn classes(&self) -> &'static [&'static str] {
        &[">=3 distinct ranks", "negative objectives", "helper weights"]
    }
    fn oracle(&self, c: &PressureCase) -> Outcome {
        let mut cl = 0;
        let mut d = c.objs.clone();
        d.sort();
        d.dedup();
        if d.len() >= 3 {
            cl |= 1;
        }
        let r = pressure(c, &mut cl);
        Outcome::new(cl & 1 != 0, cl, r)
    }
}

fn pressure(c: &PressureCase, cl: &mut u64) -> Result<(), Failure> {
    let (scale, shift) = (c.scale.f(), c.shift.f());
    let objs: Vec<f64> = c.objs.iter().map(|o| *o as f64 * scale + shift).collect();
    if objs.iter().any(|o| *o < 0.0) {
        *cl |= 2;
    }
    let n = objs.len();
    let source: Vec<Individual<RealP>> = objs.iter().enumerate().map(|(i, o)| Individual::new(vec![i as f64], (*o).try_into().unwrap())).collect();
    let at = format!("{:?} on objectives {objs:?} (seed {})", c.op, c.seed);
    // helper: proportional weights are monotone (better objective => weight >=), >= offset, normalised sum 1
    if let Op::RouletteWheel(_, off) | Op::Sus(_, off) = &c.op {
        *cl |= 4;
        let off = off.f();
        for normalize in [false, true] {
            let w = catch(|| f::proportional_weights(&source, off, normalize));
            let w = match w {
                Ok(Some(w)) => w,
                Ok(None) => fail!("C11 proportional_weights rejects finite population", "{at}: proportional_weights returned None"),
                Err(p) => fail!("C11 proportional_weights panics", "{at}: {p}"),
            };
            ensure_that!(w.len() == n, "C11 proportional_weights length", "{at}: {} weights for {n} individuals", w.len());
            for i in 0..n {
                ensure_that!(w[i] >= 0.0 && w[i].is_finite(), "C11 proportional_weights negative/non-finite weight", "{at}: weights {w:?}");
                for j in 0..n {
                    if objs[i] < objs[j] {
                        ensure_that!(w[i] >= w[j], "C11 proportional_weights favours a worse individual", "{at}: weight {} for objective {} but {} for the worse objective {} (normalize={normalize})", w[i], objs[i], w[j], objs[j]);
                    }
                    if objs[i] == objs[j] {
                        ensure_that!(w[i] == w[j], "C11 proportional_weights unequal weights for equal objectives", "{at}: weights {w:?}");
                    }
                }
            }
            let total: f64 = w.iter().sum();
            if total <= 0.0 {
                return soft_fail(Failure::new("C11 proportional_weights all zero", format!("{at}: all weights are zero (normalize={normalize}): {w:?} — nothing can be sampled from them")));
            }
            if normalize {
                let all_eq = objs.windows(2).all(|x| x[0] == x[1]);
                if !(objs.iter().cloned().fold(f64::INFINITY, f64::min) > 0.0) || all_eq {
                    ensure_that!((total - 1.0).abs() < 1e-9, "C11 proportional_weights not normalised", "{at}: normalised weights sum to {total}");
                }
            }
        }
    }
    // frequency: better individuals are not selected less often than worse ones
    let draws = requested(&c.op).unwrap_or(0);
    if draws == 0 {
        return Ok(());
    }
    let mut rng = Random::new(c.seed);
    let sel: Result<Vec<usize>, String> = {
        macro_rules! go {
            ($comp:expr) => {{
                let comp = $comp;
                match catch(|| Selection::<RealP>::select(&comp, &source, &mut rng).map(|s| s.iter().map(|i| i.solution()[0] as usize).collect::<Vec<_>>())) {
                    Ok(Ok(v)) => Ok(v),
                    Ok(Err(e)) => Err(format!("{e:#}")),
                    Err(p) => Err(format!("PANIC {p}")),
                }
            }};
        }
        match &c.op {
            Op::RouletteWheel(k, o) => go!(RouletteWheel::from_params(*k, o.f())),
            Op::Sus(k, o) => go!(StochasticUniversalSampling::from_params(*k, o.f())),
            Op::Tournament(k, s) => go!(Tournament::from_params(*k, *s)),
            Op::LinearRank(k) => go!(LinearRank::from_params(*k)),
            Op::ExponentialRank(k, b) => go!(ExponentialRank::from_params(*k, b.f()).unwrap()),
            _ => return Ok(()),
        }
    };
    let sel = match sel {
        Ok(s) => s,
        Err(e) => {
            return soft_fail(Failure::new(format!("C11 {} errs on a usable population", op_name(&c.op)), format!("{at}: {e}")));
        }
    };
    let mut counts = vec![0f64; n];
    for i in &sel {
        counts[*i] += 1.0;
    }
    let total = sel.len() as f64;
    let band = 6.0 * total.sqrt();
    for i in 0..n {
        for j in 0..n {
            if objs[i] < objs[j] && counts[i] < counts[j] - band {
                fail!(
                    format!("C11 {} favours worse individuals", op_name(&c.op)),
                    "{at}: over {total} draws the individual with objective {} was selected {} times but the worse one with objective {} {} times (6-sigma band {band:.0}); counts {counts:?}",
                    objs[i],
                    counts[i],
                    objs[j],
                    counts[j]
                );
            }
        }
    }
    Ok(())
}

fn ind_strategy() -> impl Strategy<Value = Ind> {
    (0u16..14, prop_oneof![10 => (-4i8..6), 1 => Just(i8::MAX)])
}

fn pop_strategy() -> impl Strategy<Value = Vec<Ind>> {
    prop_oneof![
        6 => proptest::collection::vec(ind_strategy(), 0..13),
        // unique tags, finite
        3 => proptest::collection::vec(-4i8..6, 0..13).prop_map(|v| v.into_iter().enumerate().map(|(i, o)| (i as u16, o)).collect()),
        // all equal objective
        1 => (1usize..8, -3i8..4).prop_map(|(n, o)| (0..n).map(|i| (i as u16, o)).collect()),
        // duplicates by value
        1 => (1usize..6, -3i8..4).prop_map(|(n, o)| vec![(1u16, o); n]),
    ]
}

fn offset_strategy() -> impl Strategy<Value = Fb> {
    prop_oneof![Just(0.0), Just(0.1), Just(1.0), Just(5.0), 0.0f64..3.0].prop_map(Fb::of)
}

fn op_strategy() -> impl Strategy<Value = Op> {
    let k = prop_oneof![3 => 0u32..15, 1 => Just(0u32)];
    prop_oneof![
        1 => Just(Op::All),
        1 => Just(Op::None),
        2 => k.clone().prop_map(Op::CloneSingle),
        2 => k.clone().prop_map(Op::FullyRandom),
        4 => k.clone().prop_map(Op::RandomWithoutRepetition),
        4 => (k.clone(), offset_strategy()).prop_map(|(k, o)| Op::RouletteWheel(k, o)),
        4 => (k.clone(), offset_strategy()).prop_map(|(k, o)| Op::Sus(k, o)),
        4 => (k.clone(), 1u32..14).prop_map(|(k, s)| Op::Tournament(k, s)),
        3 => k.clone().prop_map(Op::LinearRank),
        3 => (k.clone(), prop_oneof![3 => Just(0.5), 3 => Just(0.9), 3 => Just(0.1), 6 => 0.01f64..0.99, 2 => Just(f64::EPSILON), 1 => Just(1.0 - f64::EPSILON)]).prop_map(|(k, b)| Op::ExponentialRank(k, Fb::of(b))),
        2 => (1u32..3).prop_map(Op::DERand),
        2 => (1u32..3).prop_map(Op::DEBest),
        3 => (1u32..3).prop_map(Op::DECurrentToBest),
        3 => (0u32..5, 0u32..5).prop_map(|(a, b)| Op::Iwo(a.min(b), a.max(b))),
    ]
}

fn case_strategy() -> impl Strategy<Value = Case> {
    let fine = prop_oneof![
        // ordinary case: integers times scale
        6 => Just((1.0f64, 0.0f64, Vec::<i8>::new(), false)),
        // all objective values within a few representable values of a base value
        2 => (prop_oneof![Just(1.0f64), Just(-1024.0), Just(0.0), Just(3.5e9), Just(-1e-3)], proptest::collection::vec(prop_oneof![3 => Just(0i8), 2 => Just(1i8), 1 => Just(-1i8), 1 => Just(2i8)], 1..5)).prop_map(|(b, n)| (0.0, b, n, true)),
        // zeros of both signs
        1 => proptest::collection::vec(prop_oneof![Just(0i8), Just(i8::MIN)], 1..4).prop_map(|n| (0.0, 0.0, n, true)),
        // ordinary values with occasional nudges
        1 => (prop_oneof![Just(0.0f64), Just(1.0)], proptest::collection::vec(-2i8..3, 1..5)).prop_map(|(b, n)| (1.0, b, n, false)),
    ];
    (op_strategy(), pop_strategy(), prop_oneof![Just(1.0), Just(1e-6), Just(1e6), Just(0.25)], any::<u64>(), any::<bool>(), 0u8..3, (any::<u8>(), prop_oneof![2 => Just(0u8), 1 => 1u8..3]), fine).prop_map(|(op, mut pop, scale, seed, direct, below, (fit, distractor), (mult, base, nudges, finite_only))| {
        let scale = scale * mult;
        if finite_only {
            for p in pop.iter_mut() {
                if p.1 == i8::MAX {
                    p.1 = 0;
                }
            }
        }
        // steer some cases to the boundary sizes
        match &op {
            Op::RandomWithoutRepetition(k) | Op::Tournament(_, k) if fit % 3 == 0 => {
                pop.resize(*k as usize, (3, 1));
            }
            // sparse requests: a few members out of a population at least eight times as large
            Op::RandomWithoutRepetition(k) if fit % 3 == 1 => {
                let len = (8 * *k as usize).max(16) + fit as usize % 20;
                pop = (0..len).map(|i| (i as u16, ((i * 7) % 11) as i8 - 5)).collect();
            }
            Op::CloneSingle(_) if fit % 2 == 0 => pop.truncate(1),
            // the smallest base with many distinct ranks: the rank weights span hundreds of orders of magnitude
            Op::ExponentialRank(_, b) if b.f() == f64::EPSILON && fit % 2 == 0 => {
                pop = (0..(22 + fit % 40) as u16).map(|i| (i, (i as i16 - 20) as i8)).collect();
            }
            _ => {}
        }
        Case { op, pop, scale: Fb::of(scale), seed, direct, below, base: Fb::of(base), nudges, distractor }
    })
}

fn pressure_cases(draws: u32, seeds: u64, base_seed: u64) -> Vec<PressureCase> {
    let mut out = Vec::new();
    let pops: Vec<Vec<i8>> = vec![vec![1, 2], vec![2, 1], vec![1, 2, 4], vec![4, 1, 2], vec![1, 2, 4, 8], vec![8, 4, 2, 1], vec![3, 3, 1], vec![5, 5, 5], vec![-3, 0, 3], vec![-8, -4, -2, -1]];
    for p in &pops {
        for (scale, shift) in [(1.0, 0.0), (1e-3, 0.0), (1e3, -2e3), (1.0, 100.0)] {
            for s in 0..seeds {
                let seed = base_seed.wrapping_add(s * 7919);
                let mut ops = vec![
                    Op::RouletteWheel(draws, Fb::of(0.0)),
                    Op::RouletteWheel(draws, Fb::of(1.0)),
                    Op::Sus(draws, Fb::of(0.0)),
                    Op::Sus(draws, Fb::of(0.5)),
                    Op::LinearRank(draws),
                    Op::ExponentialRank(draws, Fb::of(0.5)),
                    Op::ExponentialRank(draws, Fb::of(0.8)),
                    Op::Tournament(draws, 2),
                ];
                if p.len() >= 3 {
                    ops.push(Op::Tournament(draws, 3));
                }
                for op in ops {
                    out.push(PressureCase { op, objs: p.clone(), scale: Fb::of(scale), shift: Fb::of(shift), seed });
                }
            }
        }
    }
    out
}

// ------------------------------------------------------------------------------------------------
// very large populations with pairwise distinct objective values (compact cases)
// ------------------------------------------------------------------------------------------------

#[derive(Clone, Debug, Serialize, Deserialize)]
pub struct ManyCase {
    /// 0 LinearRank, 1 RouletteWheel, 2 StochasticUniversalSampling, 3 Tournament, 4 FullyRandom, 5 RandomWithoutRepetition
    pub op: u8,
    pub n: u32,
    pub k: u32,
    pub seed: u64,
}

pub struct ManyCheck;

impl Check for ManyCheck {
    type Case = ManyCase;
    fn name(&self) -> String {
        "C11/many-ranks".into()
    }
    fn classes(&self) -> &'static [&'static str] {
        &["sum of the rank weights >= 2^32 (>= 92 682 distinct ranks)", "rank-based operator"]
    }
    fn oracle(&self, c: &ManyCase) -> Outcome {
        let n = c.n as usize;
        let k = c.k;
        let mut cl = 0;
        if n >= 92_682 {
            cl |= 1;
        }
        if c.op % 6 == 0 {
            cl |= 2;
        }
        // individual i: tag i, objective value i + 1 (pairwise distinct, best first), in a seed-dependent rotation
        let rot = (c.seed % n.max(1) as u64) as usize;
        let source: Vec<Individual<RealP>> = (0..n).map(|j| (j + rot) % n).map(|i| Individual::new(vec![i as f64], ((i + 1) as f64).try_into().unwrap())).collect();
        let mut rng = crate::fixtures::random_for(c.seed);
        let name = ["LinearRank", "RouletteWheel", "StochasticUniversalSampling", "Tournament", "FullyRandom", "RandomWithoutRepetition"][(c.op % 6) as usize];
        let at = format!("{name} selecting {k} of {n} individuals with pairwise distinct objective values 1..={n} (seed {})", c.seed);
        let r = catch(|| match c.op % 6 {
            0 => Selection::<RealP>::select(&LinearRank::from_params(k), &source, &mut rng).map(|v| v.len()),
            1 => Selection::<RealP>::select(&RouletteWheel::from_params(k, 0.0), &source, &mut rng).map(|v| v.len()),
            2 => Selection::<RealP>::select(&StochasticUniversalSampling::from_params(k, 0.0), &source, &mut rng).map(|v| v.len()),
            3 => Selection::<RealP>::select(&Tournament::from_params(k, 3), &source, &mut rng).map(|v| v.len()),
            4 => Selection::<RealP>::select(&FullyRandom::from_params(k), &source, &mut rng).map(|v| v.len()),
            _ => {
                let base = source.as_ptr() as usize;
                let sz = std::mem::size_of::<Individual<RealP>>();
                Selection::<RealP>::select(&RandomWithoutRepetition::from_params(k), &source, &mut rng).map(|v| {
                    let mut idx: Vec<usize> = v.iter().map(|i| ((*i as *const Individual<RealP> as usize).wrapping_sub(base)) / sz).collect();
                    idx.sort_unstable();
                    idx.dedup();
                    // a repeated member shows as a shorter list
                    idx.len()
                })
            }
        });
        let res = match r {
            Ok(Ok(len)) if len == k as usize => Ok(()),
            Ok(Ok(len)) => Err(Failure::new(format!("C11 {name} count"), format!("{at}: {len} (distinct) members returned"))),
            Ok(Err(e)) => Err(Failure::new(format!("C11 {name} rejects valid input"), format!("{at}: {e:#}"))),
            Err(p) => Err(Failure::new(format!("C11 {name} panics"), format!("{at}: {p}"))),
        };
        Outcome::new(cl & 1 != 0, cl, res)
    }
}

pub fn run_all(ctx: &mut Ctx, replay: Option<&Path>) {
    ctx.rule("selection: case = (operator with parameters, population of tagged individuals with ties / duplicates by value / negative / +inf objectives scaled by 1e-6..1e6, seed, via Component::execute or Selection::select, populations below); oracle: source unchanged at depth 1, exactly one population pushed, every selected individual an exact copy of a source member (reference into the source for select), cardinality per operator, distinct members for without-repetition (by address), DE block layout, IWO counts, documented unusable inputs => Err; sparse without-repetition requests (k of >= 8k members); one seed in four with a generator that first replays edge-value words (also one word repeated up to twelve times); non-trivial = population >= 3 with a tie or duplicate and a non-zero request. many-ranks: six operators on 1 000 - 100 000 individuals with pairwise distinct objective values (sum of the linear rank weights beyond 2^32): requested number of (distinct, for without-repetition) members, no panic, no error. pressure: fixed well-separated populations x operators x N draws: proportional_weights monotone / non-negative / normalised, frequency(better) >= frequency(worse) - 6 sqrt(N); non-trivial = >= 3 distinct ranks; distinct by case");
    ctx.assume("outside the domain (no documented behaviour): FullyRandom / rank selection / weights on an empty population, tournament size 0, IWO min > max, unevaluated individuals for fitness-based operators, objective magnitudes above 1e100");
    ctx.assume("DE selections: cardinality and block layout are asserted for populations >= 2y+1, smaller ones only for absence of panics");
    let k = SelCheck;
    let p = PressureCheck;
    if let Some(path) = replay {
        let _ = ctx.replay_file(&k, path) || ctx.replay_file(&p, path) || ctx.replay_file(&ManyCheck, path);
        return;
    }
    ctx.regressions(&k);
    ctx.regressions(&p);
    ctx.random(&k, case_strategy(), ctx.tier.pick(150_000, 800_000));
    let draws = ctx.tier.pick(4000, 20_000);
    let seeds = ctx.tier.pick(2, 10);
    let base = ctx.derive_seed("pressure");
    let many = ManyCheck;
    ctx.regressions(&many);
    let base_many = ctx.derive_seed("many-ranks");
    ctx.exhaustive(&many, "6 operators x population sizes {1 000, 65 536, 92 681, 92 682, 100 000} (pairwise distinct objective values) x requested {1, 7}", (0u8..6).flat_map(move |op| [1_000u32, 65_536, 92_681, 92_682, 100_000].into_iter().flat_map(move |n| [1u32, 7].into_iter().map(move |k| ManyCase { op, n, k, seed: base_many.wrapping_add(n as u64 * 31 + op as u64) }))));
    ctx.exhaustive(&p, &format!("10 well-separated populations x 4 scale/shift variants x {seeds} seeds x 8-9 operator settings x {draws} draws"), pressure_cases(draws, seeds, base).into_iter());
}
