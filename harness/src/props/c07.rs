//! C07 — best-so-far and elitist memories only improve and hold the true best.

use std::{
    path::Path,
    sync::{Arc, Mutex},
};

use mahf::{
    components::{
        archive::{ElitistArchive, ElitistArchiveIntoPopulation, ElitistArchiveUpdate},
        evaluation::BestIndividualUpdate,
    },
    state::common::BestIndividual,
    Component, Configuration, ExecResult, Individual, State,
};
use proptest::prelude::*;
use serde::{Deserialize, Serialize};

use crate::{
    engine::{catch, soft_fail, Check, Ctx, Failure, Outcome},
    ensure_that, fail,
    fixtures::{
        problems::{Instrumented, RealKind, RealP},
        run::{run_observed_auto, dispatch, run_observed, run_spec_strategy, Audit, EvalKind, Phase, RunSpec, RunVisitor, StepEv},
        state_with,
    },
    props::{c09::Fb, c16::TEMPLATE_NAMES},
};

/// (tag, objective)
pub type Ind = (u16, Fb);

fn mk(i: &Ind) -> Individual<RealP> {
    Individual::new(vec![i.0 as f64], i.1.f().try_into().unwrap())
}
/// (tag, objective bits) with -0.0 normalised to +0.0: individuals are equal by value when their objectives are numerically equal
fn view(i: &Individual<RealP>) -> (u16, u64) {
    (i.solution()[0] as u16, norm(i.objective().value()))
}
fn norm(v: f64) -> u64 {
    if v == 0.0 {
        0.0f64.to_bits()
    } else {
        v.to_bits()
    }
}

// ------------------------------------------------------------------------------------------------
// (a) best individual
// ------------------------------------------------------------------------------------------------

#[derive(Clone, Debug, Serialize, Deserialize)]
pub struct BestCase {
    pub pops: Vec<Vec<Ind>>,
    /// feed single individuals through `BestIndividual::update` instead of the component
    pub direct: bool,
    /// an evaluation counter that sits in the state with this value during all updates (the populations shown to
    /// the update were evaluated elsewhere, e.g. inside a scope with its own counter): the update depends on the
    /// population it is shown, not on bookkeeping around it
    #[serde(default)]
    pub evals: Option<u32>,
}

pub struct BestCheck;

impl Check for BestCheck {
    type Case = BestCase;
    fn name(&self) -> String {
        "C07/best-individual".into()
    }
    fn classes(&self) -> &'static [&'static str] {
        &["tie on the incumbent value", "strict improvement after a tie", "empty population", "+inf objective", "signed zeros"]
    }
    fn oracle(&self, c: &BestCase) -> Outcome {
        let mut cl = 0;
        let r = best_oracle(c, &mut cl);
        Outcome::new(cl & 3 == 3, cl, r)
    }
}

fn best_oracle(c: &BestCase, cl: &mut u64) -> Result<(), Failure> {
    let problem = RealP::new(1, 0.0, 1.0, RealKind::Tag);
    let mut st = state_with::<RealP>(vec![vec![]], 1);
    let comp = BestIndividualUpdate::new::<RealP>();
    if let Some(e) = c.evals {
        st.insert(mahf::state::common::Evaluations(e));
        st.insert(mahf::state::common::Iterations(e / 2));
    }
    comp.init(&problem, &mut st).map_err(|e| Failure::new("C07 init", format!("{e}")))?;
    let mut model: Option<(u16, f64)> = None;
    let mut tie_seen = false;
    for (k, pop) in c.pops.iter().enumerate() {
        let at = format!("update #{} with population {pop:?} (incumbent {model:?})", k + 1);
        if pop.is_empty() {
            *cl |= 4;
        }
        if pop.iter().any(|i| i.1.f() == f64::INFINITY) {
            *cl |= 8;
        }
        if pop.iter().any(|i| i.1.f() == 0.0) {
            *cl |= 16;
        }
        // model: the candidate is the first minimum; it replaces the incumbent iff strictly smaller
        let cand = pop.iter().fold(None::<&Ind>, |acc, i| match acc {
            Some(a) if a.1.f() <= i.1.f() => Some(a),
            _ => Some(i),
        });
        let before = model;
        if c.direct {
            let mut b = st.borrow_mut::<BestIndividual<RealP>>();
            for i in pop {
                let want = match model {
                    None => true,
                    Some((_, o)) => i.1.f() < o,
                };
                if let Some((_, o)) = model {
                    if i.1.f() == o {
                        *cl |= 1;
                        tie_seen = true;
                    } else if i.1.f() < o && tie_seen {
                        *cl |= 2;
                    }
                }
                let got = b.update(&mk(i));
                ensure_that!(got == want, "C07 BestIndividual::update return value", "{at}: update({i:?}) returned {got}, expected {want}");
                if want {
                    model = Some((i.0, i.1.f()));
                }
            }
        } else {
            *st.populations_mut().current_mut() = pop.iter().map(mk).collect();
            let r = catch(|| comp.execute(&problem, &mut st));
            ensure_that!(matches!(r, Ok(Ok(()))), "C07 BestIndividualUpdate fails", "{at}: {r:?}");
            if let Some(cand) = cand {
                match model {
                    None => model = Some((cand.0, cand.1.f())),
                    Some((_, o)) => {
                        if cand.1.f() == o {
                            *cl |= 1;
                            tie_seen = true;
                        }
                        if cand.1.f() < o {
                            if tie_seen {
                                *cl |= 2;
                            }
                            model = Some((cand.0, cand.1.f()));
                        }
                    }
                }
            }
        }
        let got = st.best_individual().map(|i| (i.solution()[0] as u16, i.objective().value()));
        // never worse
        if let (Some((_, b0)), Some((_, b1))) = (before, got) {
            ensure_that!(b1 <= b0, "C07 recorded best got worse", "{at}: best objective went from {b0} to {b1}");
        }
        if before.is_some() {
            ensure_that!(got.is_some(), "C07 recorded best lost", "{at}: the best individual disappeared");
        }
        // at least as good as everything it was updated from
        if let Some((_, b)) = got {
            for i in pop {
                ensure_that!(b <= i.1.f(), "C07 recorded best is worse than a member of the population it was updated from", "{at}: best {b} but the population contains {}", i.1.f());
            }
        }
        // replaced only by a strictly better candidate; the stored one is the first minimum
        ensure_that!(got == model, "C07 best replaced although the candidate is not strictly better (or not replaced although it is)", "{at}: recorded best {got:?}, expected {model:?} (replace only on strict improvement, by the first minimum of the population)");
        let via_value = st.best_objective_value().map(|o| o.value());
        ensure_that!(via_value == model.map(|m| m.1), "C07 best_objective_value", "{at}: {via_value:?}");
    }
    Ok(())
}

// ------------------------------------------------------------------------------------------------
// (b) elitist archive
// ------------------------------------------------------------------------------------------------

#[derive(Clone, Debug, Serialize, Deserialize)]
pub struct ArchiveCase {
    pub k: usize,
    pub pops: Vec<Vec<Ind>>,
    /// population the archive is re-inserted into at the end
    pub target: Vec<Ind>,
    /// between the updates the caller re-orders the elitists in place through `elitists_mut()` (1 reverse, 2 rotate by
    /// one, 3 both): the archive is a set of individuals, their order is the caller's business
    #[serde(default)]
    pub reorder: u8,
}

pub struct ArchiveCheck;

impl Check for ArchiveCheck {
    type Case = ArchiveCase;
    fn name(&self) -> String {
        "C07/elitist-archive".into()
    }
    fn classes(&self) -> &'static [&'static str] {
        &["k < shown", "tie at the cut", "k == 0", "target already contains an elitist", "archive with equal members", "elitists re-ordered in place between updates"]
    }
    fn oracle(&self, c: &ArchiveCase) -> Outcome {
        let mut cl = 0;
        let r = archive_oracle(c, &mut cl);
        Outcome::new(cl & 3 == 3, cl, r)
    }
}

fn archive_oracle(c: &ArchiveCase, cl: &mut u64) -> Result<(), Failure> {
    let problem = RealP::new(1, 0.0, 1.0, RealKind::Tag);
    let mut st = state_with::<RealP>(vec![vec![]], 1);
    let upd = ElitistArchiveUpdate::new::<RealP>(c.k);
    upd.init(&problem, &mut st).map_err(|e| Failure::new("C07 init", format!("{e}")))?;
    if c.k == 0 {
        *cl |= 4;
    }
    let mut shown: Vec<(u16, u64)> = Vec::new();
    for (n, pop) in c.pops.iter().enumerate() {
        let at = format!("archive update #{} (k = {}) with {pop:?}", n + 1, c.k);
        *st.populations_mut().current_mut() = pop.iter().map(mk).collect();
        let r = catch(|| upd.execute(&problem, &mut st));
        ensure_that!(matches!(r, Ok(Ok(()))), "C07 ElitistArchiveUpdate fails", "{at}: {r:?}");
        shown.extend(pop.iter().map(|i| (i.0, norm(i.1.f()))));
        let a = st.borrow::<ElitistArchive<RealP>>();
        let got: Vec<(u16, u64)> = a.elitists().iter().map(view).collect();
        ensure_that!(got.len() == c.k.min(shown.len()), "C07 archive size", "{at}: archive holds {} individuals, expected min(k, shown) = {}", got.len(), c.k.min(shown.len()));
        let mut pool = shown.clone();
        for g in &got {
            match pool.iter().position(|x| x == g) {
                Some(i) => {
                    pool.swap_remove(i);
                }
                None => fail!("C07 archive member was never shown", "{at}: {g:?} (or more copies of it than were shown)"),
            }
        }
        let mut all: Vec<f64> = shown.iter().map(|x| f64::from_bits(x.1)).collect();
        all.sort_by(|a, b| a.partial_cmp(b).unwrap());
        let mut objs: Vec<f64> = got.iter().map(|x| f64::from_bits(x.1)).collect();
        objs.sort_by(|a, b| a.partial_cmp(b).unwrap());
        ensure_that!(objs[..] == all[..got.len()], "C07 archive does not hold the k best shown so far", "{at}: archive objectives {objs:?}, the k best shown so far are {:?}", &all[..got.len()]);
        if c.k < shown.len() {
            *cl |= 1;
            if c.k > 0 && all[c.k - 1] == all[c.k] {
                *cl |= 2;
            }
        }
        if (0..got.len()).any(|i| (0..i).any(|j| got[i] == got[j])) {
            *cl |= 16;
        }
        drop(a);
        if c.reorder % 4 != 0 {
            let mut a = st.borrow_mut::<ElitistArchive<RealP>>();
            let e = a.elitists_mut();
            if e.len() >= 2 {
                *cl |= 32;
                if c.reorder % 4 != 2 {
                    e.reverse();
                }
                if c.reorder % 4 >= 2 {
                    e.rotate_left(1);
                }
            }
        }
    }
    // re-insertion
    let target: Vec<Individual<RealP>> = c.target.iter().map(mk).collect();
    let tv: Vec<(u16, u64)> = target.iter().map(view).collect();
    *st.populations_mut().current_mut() = target;
    let elitists: Vec<(u16, u64)> = st.borrow::<ElitistArchive<RealP>>().elitists().iter().map(view).collect();
    if elitists.iter().any(|e| tv.contains(e)) {
        *cl |= 8;
    }
    let ins = ElitistArchiveIntoPopulation::new::<RealP>();
    let r = catch(|| {
        ins.require(&problem, &st.requirements())?;
        ins.execute(&problem, &mut st)
    });
    let at = format!("re-inserting the archive {elitists:?} into {tv:?}");
    ensure_that!(matches!(r, Ok(Ok(()))), "C07 ElitistArchiveIntoPopulation fails", "{at}: {r:?}");
    let got: Vec<(u16, u64)> = st.populations().current().iter().map(view).collect();
    ensure_that!(got.len() >= tv.len() && got[..tv.len()] == tv[..], "C07 re-insertion changes the existing population", "{at}: result {got:?}");
    let mut want = tv.clone();
    for e in &elitists {
        if !want.contains(e) {
            want.push(*e);
        }
    }
    ensure_that!(got == want, "C07 re-insertion duplicates or drops an individual", "{at}: result {got:?}, expected the population followed by the elitists it does not contain yet: {want:?}");
    Ok(())
}

// ------------------------------------------------------------------------------------------------
// (c) runs
// ------------------------------------------------------------------------------------------------

#[derive(Default)]
struct A7 {
    tpl: &'static str,
    failure: Option<Failure>,
    /// last recorded best per scope depth (a scope has its own, fresh best-so-far state)
    last_best: Vec<Option<f64>>,
    updates: u32,
    improvements: u32,
    passes: u32,
}

impl<P: Instrumented> Audit<P> for A7 {
    fn step(&mut self, _problem: &P, state: &State<P>, ev: &StepEv) {
        if ev.ends_main_pass {
            self.passes += 1;
        }
        if ev.name != "BestIndividualUpdate" || ev.phase != Phase::After || self.failure.is_some() {
            return;
        }
        self.updates += 1;
        let best = state.best_objective_value().map(|o| o.value());
        let mut depth = 0;
        let mut cur: &mahf::StateRegistry = state;
        while let Some(p) = cur.parent() {
            depth += 1;
            cur = p;
        }
        self.last_best.truncate(depth + 1);
        self.last_best.resize(depth + 1, None);
        if let (Some(a), Some(b)) = (self.last_best[depth], best) {
            if b > a {
                self.failure = Some(Failure::new(format!("C07 {} recorded best got worse", self.tpl), format!("{}: best objective went from {a} to {b} at update #{}", self.tpl, self.updates)));
            }
            if b < a {
                self.improvements += 1;
            }
        }
        // right after the update: at least as good as the population it was updated from
        if let Some(b) = best {
            let ps = state.populations();
            if let Some(p) = ps.get_current() {
                for i in p {
                    if let Some(o) = i.get_objective() {
                        if o.value() < b {
                            self.failure = Some(Failure::new(format!("C07 {} recorded best is worse than a member of the population it was updated from", self.tpl), format!("{}: best {b}, population member {}", self.tpl, o.value())));
                        }
                    }
                }
            }
        }
        if best.is_some() {
            self.last_best[depth] = best;
        }
    }
}

struct V7 {
    classes: u64,
    nontrivial: bool,
}

impl RunVisitor for V7 {
    type Out = Result<(), Failure>;
    fn visit<P: Instrumented + Clone + 'static>(&mut self, cfg: ExecResult<Configuration<P>>, problem: P, spec: &RunSpec) -> Self::Out {
        let tpl = spec.tpl.name();
        let Ok(cfg) = cfg else { return Ok(()) };
        let audit = Arc::new(Mutex::new(A7 { tpl, ..Default::default() }));
        let res = run_observed_auto(&cfg, &problem, spec.seed, EvalKind::Sequential, audit.clone());
        let a = audit.lock().unwrap();
        if a.passes >= 5 {
            self.classes |= 1;
        }
        if a.improvements >= 1 {
            self.classes |= 2;
        }
        self.nontrivial = a.passes >= 5;
        if let Some(f) = &a.failure {
            soft_fail(f.clone())?;
        }
        let Ok(state) = res else { return Ok(()) };
        let reported = state.best_objective_value().map(|o| o.value());
        let calls = problem.instr().calls();
        let min = problem.instr().min();
        let at = format!("{:?} on {:?}, {} iterations, seed {}", spec.tpl, spec.inst, spec.iters, spec.seed);
        if calls == 0 {
            return Ok(());
        }
        match reported {
            Some(r) if r == min => Ok(()),
            Some(r) => {
                let how = if r > min { "is worse than" } else { "is better than" };
                let whr = if problem.instr().min_outside() { " (returned for an unrepaired position outside the domain)" } else { "" };
                soft_fail(Failure::new(format!("C07 {tpl} reported best {how} the minimum objective value returned during the run{whr}"), format!("{at}: best_objective_value() = {r}, the objective function returned {min} at some point ({calls} calls)")))
            }
            None => soft_fail(Failure::new(format!("C07 {tpl} no best recorded although the objective was evaluated"), format!("{at}: {calls} objective calls, minimum {min}"))),
        }
    }
}

pub struct RunCheck(pub usize);

impl Check for RunCheck {
    type Case = RunSpec;
    fn name(&self) -> String {
        format!("C07/run/{}", TEMPLATE_NAMES[self.0])
    }
    fn classes(&self) -> &'static [&'static str] {
        &[">= 5 passes", "best improved during the loop", "generic ils template with a local search of the caller's"]
    }
    fn oracle(&self, spec: &RunSpec) -> Outcome {
        let mut v = V7 { classes: 0, nontrivial: false };
        // the iterated local search assembled from the generic `ils` template with a local search of the caller's: the
        // shipped `ls` loop inside one more scope (seed % 3 == 1) or an elitist hill climber that keeps no best-so-far
        // individual of its own (seed % 3 == 2) - whatever the objective function returns inside the local search counts
        if let (crate::fixtures::run::Tpl::RealIls { nb, dev, inner }, true) = (&spec.tpl, spec.seed % 3 != 0) {
            v.classes |= 4;
            let cfg = generic_ils(*nb, *dev, *inner, spec.iters, spec.seed % 3 == 1);
            let r = v.visit(Ok(cfg), crate::fixtures::run::real_of(&spec.inst), spec);
            return Outcome::new(v.nontrivial, v.classes, r);
        }
        let r = dispatch(spec, &mut v);
        Outcome::new(v.nontrivial, v.classes, r)
    }
}

fn generic_ils(nb: u32, dev: f64, inner: u32, iters: u32, scoped_ls: bool) -> Configuration<crate::fixtures::problems::RealP> {
    use mahf::{
        components::{boundary, initialization, mutation, replacement, selection, Scope},
        conditions::LessThanN,
        heuristics::{ils, ls},
        identifier::Global,
    };
    type P = crate::fixtures::problems::RealP;
    let local: Box<dyn Component<P>> = if scoped_ls {
        Scope::new(vec![ls::ls::<P, Global>(
            ls::Parameters { num_neighbors: nb, neighbors: mutation::NormalMutation::new_dev(dev), constraints: boundary::Saturation::new() },
            LessThanN::iterations(inner),
        )])
    } else {
        Configuration::<P>::builder()
            .while_(LessThanN::iterations(inner), |b| {
                b.do_(selection::CloneSingle::new(nb))
                    .do_(mutation::NormalMutation::new_dev(dev))
                    .do_(boundary::Saturation::new())
                    .evaluate()
                    .do_(replacement::MuPlusLambda::new(1))
            })
            .build_component()
    };
    Configuration::builder()
        .do_(initialization::RandomSpread::new(1))
        .evaluate()
        .update_best_individual()
        .do_(ils::ils::<P, Global>(ils::Parameters { perturbation: mutation::PartialRandomSpread::new_full(), ls: local }, LessThanN::iterations(iters)))
        .build()
}

fn obj_strategy() -> impl Strategy<Value = Fb> {
    prop_oneof![
        8 => (-3i32..4).prop_map(|v| Fb::of(v as f64)),
        1 => Just(Fb::of(0.0)),
        1 => Just(Fb::of(-0.0)),
        1 => Just(Fb::of(f64::INFINITY)),
        1 => Just(Fb::of(1e300)),
        1 => Just(Fb::of(-1e300)),
        1 => (-2.0f64..2.0).prop_map(Fb::of),
    ]
}

fn pops_strategy() -> impl Strategy<Value = Vec<Vec<Ind>>> {
    proptest::collection::vec(proptest::collection::vec((0u16..8, obj_strategy()), 0..7), 0..9)
}

pub fn run_all(ctx: &mut Ctx, replay: Option<&Path>) {
    ctx.rule("(a) best individual: sequences of candidate populations (size 0-6, objectives with ties, duplicates, +-0, +inf, +-1e300) fed to BestIndividualUpdate on a prepared state or individual by individual to BestIndividual::update, against a model `replace iff strictly smaller, by the first minimum`: never worse, at least as good as every member of the population just seen; non-trivial = a tie on the incumbent value and a later strict improvement. (b) elitist archive: ElitistArchiveUpdate(k), k in 0..=7, over such sequences (size min(k, shown), objective multiset == the k best shown so far, members are copies of shown individuals), then ElitistArchiveIntoPopulation into a population that may already contain elitists (result == population ++ missing elitists, nothing duplicated); non-trivial = k < shown with a tie at the cut. (c) runs of all templates with the minimum-recording objective: best_objective_value() at the end == minimum value the objective returned, monotone at every BestIndividualUpdate step; non-trivial = runs with >= 5 passes; distinct by case");
    ctx.assume("populations handed to the best update / archive contain evaluated individuals only (every template evaluates before updating)");
    let b = BestCheck;
    let a = ArchiveCheck;
    if let Some(p) = replay {
        if ctx.replay_file(&b, p) || ctx.replay_file(&a, p) {
            return;
        }
        for k in 0..21 {
            if ctx.replay_file(&RunCheck(k), p) {
                return;
            }
        }
        return;
    }
    ctx.regressions(&b);
    ctx.regressions(&a);
    ctx.random(&b, (pops_strategy(), any::<bool>(), proptest::option::of(0u32..50)).prop_map(|(pops, direct, evals)| BestCase { pops, direct, evals }), ctx.tier.pick(60_000, 300_000));
    ctx.random(&a, (prop_oneof![10 => (0usize..8).boxed(), 1 => proptest::sample::select(vec![u32::MAX as usize, u32::MAX as usize + 1, (1usize << 32) + 2, (1usize << 32) + 7, 1usize << 63, usize::MAX]).boxed()], pops_strategy(), proptest::collection::vec((0u16..8, obj_strategy()), 0..6), prop_oneof![2 => Just(0u8), 1 => 1u8..4]).prop_map(|(k, pops, target, reorder)| ArchiveCase { k, pops, target, reorder }), ctx.tier.pick(60_000, 300_000));
    let per = ctx.tier.pick(400, 2000);
    for k in 0..21 {
        let r = RunCheck(k);
        ctx.regressions(&r);
        ctx.random(&r, run_spec_strategy(Some(k), 20), per);
    }
}
