//! C16 — every shipped heuristic template runs to completion and keeps the population stack balanced.

use std::{
    path::Path,
    sync::{Arc, Mutex},
};

use mahf::{components::misc::cro::ChemicalReaction, state::common::Iterations, Configuration, ExecResult, State};
use proptest::prelude::*;

use crate::{
    engine::{soft_fail, Check, Ctx, Failure, Outcome},
    fixtures::{
        problems::Instrumented,
        run::{run_observed_auto, dispatch, run_observed, run_spec_strategy, stack_height, Audit, EvalKind, RunSpec, RunVisitor, StepEv},
    },
};

#[derive(Default)]
struct A16 {
    height0: Option<usize>,
    passes: u32,
    bounds: (usize, usize),
    is_cro: bool,
    failure: Option<Failure>,
    tpl: &'static str,
    max_height: usize,
}

impl<P: Instrumented> Audit<P> for A16 {
    fn step(&mut self, _problem: &P, state: &State<P>, ev: &StepEv) {
        let h = stack_height(state);
        self.max_height = self.max_height.max(h);
        if ev.starts_main_pass && self.height0.is_none() {
            self.height0 = Some(h);
        }
        if ev.ends_main_pass && self.failure.is_none() {
            self.passes += 1;
            let h0 = self.height0.unwrap_or(h);
            if h != h0 {
                self.failure = Some(Failure::new(
                    format!("C16 {} stack height changes over a loop pass", self.tpl),
                    format!("{}: pass {} ends with {} populations on the stack, the first pass started with {}", self.tpl, self.passes, h, h0),
                ));
                return;
            }
            let n = state.populations().get_current().map(|p| p.len()).unwrap_or(0);
            if n < self.bounds.0 || n > self.bounds.1 {
                self.failure = Some(Failure::new(
                    format!("C16 {} population size outside what the parameters prescribe", self.tpl),
                    format!("{}: pass {} ends with a population of {}, allowed {:?}", self.tpl, self.passes, n, self.bounds),
                ));
                return;
            }
            if self.is_cro {
                let m = state.try_borrow::<ChemicalReaction<P>>().map(|c| c.len()).unwrap_or(usize::MAX);
                if m != n {
                    self.failure = Some(Failure::new("C16 real_cro molecule count differs from population size", format!("pass {}: {m} molecules for {n} individuals", self.passes)));
                }
            }
        }
    }
}

struct V16 {
    classes: u64,
}

impl RunVisitor for V16 {
    type Out = Result<(), Failure>;
    fn visit<P: Instrumented + Clone + 'static>(&mut self, cfg: ExecResult<Configuration<P>>, problem: P, spec: &RunSpec) -> Self::Out {
        let tpl = spec.tpl.name();
        let at = format!("{:?} on {:?}, {} iterations, seed {}", spec.tpl, spec.inst, spec.iters, spec.seed);
        let cfg = match cfg {
            Ok(c) => c,
            Err(e) => return soft_fail(Failure::new(format!("C16 {tpl} constructor rejects valid parameters"), format!("{at}: {e:#}"))),
        };
        let audit = Arc::new(Mutex::new(A16 { bounds: spec.tpl.pop_bounds(), is_cro: tpl == "real_cro", tpl, ..Default::default() }));
        // one run in four with the shipped parallel evaluator (on the global pool)
        let eval = if spec.seed % 4 == 3 { EvalKind::Parallel } else { EvalKind::Sequential };
        if spec.seed % 4 == 3 {
            self.classes |= 32;
        }
        let res = run_observed_auto(&cfg, &problem, spec.seed, eval, audit.clone());
        let a = audit.lock().unwrap();
        let state = match res {
            Ok(s) => s,
            Err(e) => {
                let kind = if e.starts_with("PANIC") { "panics" } else { "fails" };
                let detail = crate::engine::sig_of_panic(e.split(':').nth(1).unwrap_or("").trim());
                let detail: String = detail.chars().take(60).collect();
                return soft_fail(Failure::new(format!("C16 {tpl} {kind}: {detail}"), format!("{at}: {e}")));
            }
        };
        if let Some(f) = &a.failure {
            soft_fail(f.clone())?;
        }
        let it = state.try_get_value::<Iterations>().ok();
        if it != Some(spec.iters) {
            soft_fail(Failure::new(format!("C16 {tpl} iteration count"), format!("{at}: final Iterations = {it:?}, requested {}", spec.iters)))?;
        }
        if a.passes != spec.iters && a.failure.is_none() {
            soft_fail(Failure::new(format!("C16 {tpl} number of loop passes"), format!("{at}: observed {} passes of the main loop, requested {}", a.passes, spec.iters)))?;
        }
        let h = stack_height(&state);
        if h != 1 {
            soft_fail(Failure::new(format!("C16 {tpl} final stack height"), format!("{at}: {h} populations on the stack at the end of the run, expected 1")))?;
        }
        if spec.iters >= 3 {
            self.classes |= 1;
        }
        if spec.inst.dim() == 1 {
            self.classes |= 2;
        }
        if spec.tpl.pop_bounds().1 == 1 || matches!(spec.tpl.pop_bounds(), (a, b) if a == b && a <= 1) {
            self.classes |= 4;
        }
        if spec.iters == 0 {
            self.classes |= 8;
        }
        Ok(())
    }
}

pub struct TemplateCheck(pub usize);

pub const TEMPLATE_NAMES: [&str; 21] = [
    "real_ga", "binary_ga", "real_mu_plus_lambda_es", "real_de", "real_pso", "real_sa", "permutation_sa", "real_ls", "permutation_ls", "real_ils", "permutation_ils", "real_rs", "permutation_rs", "real_rw", "permutation_random_walk", "real_iwo",
    "real_fa", "real_bh", "real_cro", "ant_system", "max_min_ant_system",
];

impl Check for TemplateCheck {
    type Case = RunSpec;
    fn name(&self) -> String {
        format!("C16/{}", TEMPLATE_NAMES[self.0])
    }
    fn classes(&self) -> &'static [&'static str] {
        &["iterations >= 3", "dimension 1", "single-solution / minimum-size population", "zero iterations", "composite termination condition (target on the best value / optimum reached)", "parallel evaluator"]
    }
    fn oracle(&self, spec: &RunSpec) -> Outcome {
        let mut v = V16 { classes: 0 };
        // two runs in five use a composite termination condition that also makes exactly n passes: a never-reached
        // target on the best objective value (only for templates that evaluate before their loop is first tested) or
        // `!OptimumReached`
        let evaluates_first = !matches!(self.0, 9 | 10 | 13 | 14 | 19 | 20);
        let variant = match spec.seed % 5 {
            1 if evaluates_first => 1,
            2 => 2,
            _ => 0,
        };
        if variant != 0 {
            v.classes |= 16;
        }
        let r = crate::fixtures::run::dispatch_cond(spec, &mut v, variant);
        Outcome::new(spec.iters >= 3, v.classes, r)
    }
}

pub fn run_all(ctx: &mut Ctx, replay: Option<&Path>) {
    ctx.rule("case = (template constructor with parameters drawn from the ranges the constructor and the documented operator contracts accept, problem instance (real dim 1-6 over 5 objective kinds and 4 domains; binary dim 1-8; permutation/TSP n 3-8 over 3 distance-matrix kinds), iterations 0..25, seed); run through optimize_with (one run in four with the parallel evaluator) with the step observer: constructor Ok, run Ok without panic, final Iterations == requested, observed main-loop passes == requested, stack height at the end of every pass == height at the first pass start and 1 at the end, population size at every pass end within the template's rule (and == number of molecules for CRO); non-trivial = runs with >= 3 iterations; distinct by case");
    ctx.assume("parameter ranges: sizes >= 1, tournament <= population, DE population >= 2y + 1, probabilities in [0,1], cooling factors in [0,1), v_max > 0, IWO initial <= max and initial_deviation < final_deviation, num_swap in 2..=dim, MMAS min < max, ants >= 1");
    if let Some(p) = replay {
        for i in 0..21 {
            if ctx.replay_file(&TemplateCheck(i), p) {
                return;
            }
        }
        return;
    }
    let per = ctx.tier.pick(1000, 6000);
    for i in 0..21 {
        let k = TemplateCheck(i);
        ctx.regressions(&k);
        ctx.random(&k, run_spec_strategy(Some(i), 25), per);
    }
}
