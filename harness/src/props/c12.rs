//! C12 — replacement merges the two top populations as its name says.

use std::path::Path;

use mahf::{
    components::replacement::{DiscardOffspring, Generational, KeepBetterAtIndex, Merge, MuPlusLambda, RandomReplacement, Replacement},
    state::common::Populations,
    Component, Individual, Random, State,
};
use proptest::prelude::*;
use serde::{Deserialize, Serialize};

use crate::{
    engine::{catch, Check, Ctx, Failure, Outcome},
    ensure_that, fail,
    fixtures::problems::{RealKind, RealP},
};

/// (tag, objective): objective None = unevaluated, Some(i8::MAX) = +inf
pub type Ind = (u16, Option<i8>);

pub fn obj_of(o: i8) -> f64 {
    if o == i8::MAX {
        f64::INFINITY
    } else {
        o as f64
    }
}

pub fn mk(i: &Ind) -> Individual<RealP> {
    match i.1 {
        Some(o) => Individual::new(vec![i.0 as f64], obj_of(o).try_into().unwrap()),
        None => Individual::new_unevaluated(vec![i.0 as f64]),
    }
}

pub fn view(i: &Individual<RealP>) -> (u16, Option<f64>) {
    (i.solution()[0] as u16, i.get_objective().map(|o| o.value()))
}

pub fn mview(i: &Ind) -> (u16, Option<f64>) {
    (i.0, i.1.map(obj_of))
}

#[derive(Clone, Debug, Serialize, Deserialize, PartialEq)]
pub enum Op {
    Merge,
    Generational(u32),
    DiscardOffspring,
    MuPlusLambda(u32),
    RandomReplacement(u32),
    KeepBetterAtIndex,
}

#[derive(Clone, Debug, Serialize, Deserialize)]
pub struct Case {
    pub op: Op,
    pub below: Vec<Vec<Ind>>,
    pub parents: Vec<Ind>,
    pub offspring: Vec<Ind>,
    pub seed: u64,
    /// call `Replacement::replace` directly instead of `Component::execute`
    pub direct: bool,
    /// per individual (parents first, then offspring; cyclic): objective value moved by that many representable values
    #[serde(default)]
    pub ulps: Vec<i8>,
    /// all objective values scaled by 1e-17 (differences far below f64::EPSILON)
    #[serde(default)]
    pub tiny: bool,
    /// the component is executed inside that many nested scopes (the population stack lives outside of them)
    #[serde(default)]
    pub nest: u8,
    /// earlier (parents, offspring) pairs the same operator was executed on in the same state before (component path);
    /// their results are removed from the stack again: every call decides on the two populations it is given
    #[serde(default)]
    pub prior: Vec<(Vec<Ind>, Vec<Ind>)>,
    /// 1: a best-so-far individual whose objective equals the best parent's is present in the state (registered before
    /// the offspring were evaluated), 2: one that is better than everything; plus counters
    #[serde(default)]
    pub distractor: u8,
    /// the offspring (bit 0) / parent (bit 1) population lives in a Vec with spare capacity (built by pushing into a
    /// pre-sized buffer, or the truncated result of an earlier operator): capacity is not part of a population
    #[serde(default)]
    pub roomy: u8,
}

fn fine(c: &Case, idx: usize, o: Option<i8>) -> Option<f64> {
    let v = obj_of(o?);
    if !v.is_finite() {
        return Some(v);
    }
    let mut v = if c.tiny { v * 1e-17 } else { v };
    if !c.ulps.is_empty() {
        let k = c.ulps[idx % c.ulps.len()];
        for _ in 0..k.unsigned_abs() {
            v = if k > 0 { crate::props::c10::next_up(v) } else { crate::props::c10::next_down(v) };
        }
    }
    Some(v)
}

/// The individuals in a Vec with `extra` spare capacity.
fn roomy_vec(v: Vec<Individual<RealP>>, extra: usize) -> Vec<Individual<RealP>> {
    if extra == 0 {
        return v;
    }
    let mut out = Vec::with_capacity(v.len() + extra);
    out.extend(v);
    out
}

fn mkv(v: &V) -> Individual<RealP> {
    match v.1 {
        Some(o) => Individual::new(vec![v.0 as f64], o.try_into().unwrap()),
        None => Individual::new_unevaluated(vec![v.0 as f64]),
    }
}

pub struct ReplCheck;

type V = (u16, Option<f64>);

fn sorted(mut v: Vec<V>) -> Vec<V> {
    v.sort_by(|a, b| a.partial_cmp(b).unwrap());
    v
}

/// multiset inclusion: every element of `a` occurs in `b` at least as often
fn sub_multiset(a: &[V], b: &[V]) -> bool {
    let mut pool = b.to_vec();
    for x in a {
        match pool.iter().position(|y| y == x) {
            Some(i) => {
                pool.swap_remove(i);
            }
            None => return false,
        }
    }
    true
}

impl Check for ReplCheck {
    type Case = Case;
    fn name(&self) -> String {
        "C12/replacement".into()
    }
    fn classes(&self) -> &'static [&'static str] {
        &["both non-empty", "cross-population tie at the cut", "mu < total", "mu == 0", "mu > total", "duplicates by value", "unequal sizes", "via Replacement::replace", "+inf objective", "populations below", "distinct objective values within a few representable steps or f64::EPSILON of each other", "executed inside nested scopes", "best-so-far individual and counters present in the state", "the operator ran on other populations in the same state before", "a population in a Vec with spare capacity", "the generator first replays a script of edge-value words (derived from the seed)"]
    }
    fn oracle(&self, c: &Case) -> Outcome {
        let mut cl = 0u64;
        let r = oracle(c, &mut cl);
        Outcome::new(cl & 0b111 == 0b111 || (cl & 1 != 0 && cl & (1 << 5) != 0), cl, r)
    }
}

fn needs_eval(op: &Op) -> bool {
    matches!(op, Op::MuPlusLambda(_) | Op::KeepBetterAtIndex)
}

fn oracle(c: &Case, cl: &mut u64) -> Result<(), Failure> {
    let mut parents = c.parents.clone();
    let mut offspring = c.offspring.clone();
    if needs_eval(&c.op) {
        // implicit precondition of every caller: individuals are evaluated before fitness-based replacement
        for i in parents.iter_mut().chain(offspring.iter_mut()) {
            if i.1.is_none() {
                i.1 = Some(0);
            }
        }
    }
    let pv: Vec<V> = parents.iter().enumerate().map(|(k, i)| (i.0, fine(c, k, i.1))).collect();
    let ov: Vec<V> = offspring.iter().enumerate().map(|(k, i)| (i.0, fine(c, parents.len() + k, i.1))).collect();
    {
        let fin: Vec<f64> = pv.iter().chain(ov.iter()).filter_map(|v| v.1).filter(|o| o.is_finite()).collect();
        if (0..fin.len()).any(|i| (0..i).any(|j| fin[i] != fin[j] && (fin[i] - fin[j]).abs() <= 4.0 * f64::EPSILON * fin[i].abs().max(fin[j].abs()).max(f64::MIN_POSITIVE) || (fin[i] != fin[j] && (fin[i] - fin[j]).abs() <= f64::EPSILON))) {
            *cl |= 1 << 10;
        }
    }
    if c.nest > 0 && !c.direct {
        *cl |= 1 << 11;
    }
    let total = pv.len() + ov.len();
    if !pv.is_empty() && !ov.is_empty() {
        *cl |= 1;
    }
    let all: Vec<V> = pv.iter().chain(ov.iter()).cloned().collect();
    if (0..all.len()).any(|i| (0..i).any(|j| all[i] == all[j])) {
        *cl |= 1 << 5;
    }
    if all.iter().any(|v| v.1 == Some(f64::INFINITY)) {
        *cl |= 1 << 8;
    }
    if !c.below.is_empty() {
        *cl |= 1 << 9;
    }
    if c.direct {
        *cl |= 1 << 7;
    }
    let mu = match c.op {
        Op::Generational(m) | Op::MuPlusLambda(m) | Op::RandomReplacement(m) => Some(m as usize),
        _ => None,
    };
    if let (Some(m), Op::MuPlusLambda(_) | Op::RandomReplacement(_)) = (mu, &c.op) {
        if m < total {
            *cl |= 4;
        }
        if m == 0 {
            *cl |= 8;
        }
        if m > total {
            *cl |= 16;
        }
    }
    if !crate::fixtures::script_of(c.seed).is_empty() {
        *cl |= 1 << 15;
    }
    let problem = RealP::new(1, 0.0, 1.0, RealKind::Tag);
    let at = format!("{:?} on parents {pv:?} offspring {ov:?}", c.op);
    // run
    let result: Result<Vec<V>, String>;
    let mut below_after: Option<Vec<Vec<V>>> = None;
    if c.direct {
        let mut rng = crate::fixtures::random_for(c.seed);
        let extra = pv.len() + ov.len() + 3;
        let p: Vec<_> = roomy_vec(pv.iter().map(mkv).collect(), if c.roomy & 2 != 0 { extra } else { 0 });
        let o: Vec<_> = roomy_vec(ov.iter().map(mkv).collect(), if c.roomy & 1 != 0 { extra } else { 0 });
        if c.roomy & 3 != 0 {
            *cl |= 1 << 14;
        }
        let r = catch(|| match &c.op {
            Op::Merge => Replacement::<RealP>::replace(&Merge, p, o, &mut rng),
            Op::Generational(m) => Replacement::<RealP>::replace(&Generational::from_params(*m), p, o, &mut rng),
            Op::DiscardOffspring => Replacement::<RealP>::replace(&DiscardOffspring, p, o, &mut rng),
            Op::MuPlusLambda(m) => Replacement::<RealP>::replace(&MuPlusLambda::from_params(*m), p, o, &mut rng),
            Op::RandomReplacement(m) => Replacement::<RealP>::replace(&RandomReplacement::from_params(*m), p, o, &mut rng),
            Op::KeepBetterAtIndex => Replacement::<RealP>::replace(&KeepBetterAtIndex, p, o, &mut rng),
        });
        result = match r {
            Ok(Ok(v)) => Ok(v.iter().map(view).collect()),
            Ok(Err(e)) => Err(format!("Err: {e:#}")),
            Err(p) => fail!(format!("C12 {:?} panics", op_name(&c.op)), "{at}: panicked: {p}"),
        };
    } else {
        let mut state: State<RealP> = State::new();
        let mut ps = Populations::<RealP>::new();
        for b in &c.below {
            ps.push(b.iter().map(mk).collect());
        }
        let extra = pv.len() + ov.len() + 3;
        ps.push(roomy_vec(pv.iter().map(mkv).collect(), if c.roomy & 2 != 0 { extra } else { 0 }));
        ps.push(roomy_vec(ov.iter().map(mkv).collect(), if c.roomy & 1 != 0 { extra } else { 0 }));
        if c.roomy & 3 != 0 {
            *cl |= 1 << 14;
        }
        state.insert(ps);
        state.insert(crate::fixtures::random_for(c.seed));
        let comp: Box<dyn Component<RealP>> = match &c.op {
            Op::Merge => Merge::new(),
            Op::Generational(m) => Generational::new(*m),
            Op::DiscardOffspring => DiscardOffspring::new(),
            Op::MuPlusLambda(m) => MuPlusLambda::new(*m),
            Op::RandomReplacement(m) => RandomReplacement::new(*m),
            Op::KeepBetterAtIndex => KeepBetterAtIndex::new(),
        };
        let mut comp = comp;
        for _ in 0..c.nest % 4 {
            comp = mahf::components::Scope::new(vec![comp]);
        }
        if c.distractor % 3 != 0 {
            let fin: Vec<f64> = pv.iter().filter_map(|v| v.1).filter(|o| o.is_finite()).collect();
            let best_parent = fin.iter().cloned().fold(f64::INFINITY, f64::min);
            let v = if c.distractor % 3 == 1 && best_parent.is_finite() { best_parent } else { all.iter().filter_map(|v| v.1).filter(|o| o.is_finite()).fold(0.0, f64::min) - 1.0 };
            let mut b = mahf::state::common::BestIndividual::<RealP>::new();
            b.update(&Individual::new(vec![777.0], v.try_into().unwrap()));
            state.insert(b);
            state.insert(mahf::state::common::Evaluations(9));
            *cl |= 1 << 12;
        }
        if !c.prior.is_empty() {
            *cl |= 1 << 13;
        }
        for (pp, po) in &c.prior {
            let fix = |v: &Vec<Ind>| -> Vec<Individual<RealP>> { v.iter().map(|i| if needs_eval(&c.op) && i.1.is_none() { mk(&(i.0, Some(0))) } else { mk(i) }).collect() };
            state.populations_mut().push(fix(pp));
            state.populations_mut().push(fix(po));
            // the outcome of an earlier call is not this case's subject (errors included); only its side effects are
            let before = state.populations().len();
            let r = catch(|| comp.execute(&problem, &mut state));
            if state.try_borrow::<Populations<RealP>>().is_err() {
                fail!(format!("C12 {} loses the population stack", op_name(&c.op)), "{at}: during an earlier call");
            }
            let after = state.populations().len();
            let expect = if matches!(r, Ok(Ok(()))) { before - 1 } else { after };
            let _ = expect;
            while state.populations().len() > c.below.len() {
                state.populations_mut().pop();
            }
        }
        if !c.prior.is_empty() {
            state.populations_mut().push(pv.iter().map(mkv).collect());
            state.populations_mut().push(ov.iter().map(mkv).collect());
        }
        let r = catch(|| comp.execute(&problem, &mut state));
        if matches!(r, Ok(Ok(()))) && state.try_borrow::<Populations<RealP>>().is_err() {
            fail!(format!("C12 {} loses the population stack", op_name(&c.op)), "{at}: executed inside {} nested scope(s): afterwards the state holds no population stack", c.nest % 4);
        }
        match r {
            Ok(Ok(())) => {
                let ps = state.populations();
                ensure_that!(ps.len() == c.below.len() + 1, "C12 stack height", "{at}: stack height after = {}, expected {} (two consumed, one pushed)", ps.len(), c.below.len() + 1);
                result = Ok(ps.current().iter().map(view).collect());
                below_after = Some((1..ps.len()).rev().map(|d| ps.peek(d).iter().map(view).collect()).collect());
            }
            Ok(Err(e)) => result = Err(format!("Err: {e:#}")),
            Err(p) => fail!(format!("C12 {} panics", op_name(&c.op)), "{at}: panicked: {p}"),
        }
    }
    if let Some(b) = below_after {
        let want: Vec<Vec<V>> = c.below.iter().map(|p| p.iter().map(mview).collect()).collect();
        ensure_that!(b == want, "C12 populations below touched", "{at}: populations below changed: {b:?} vs {want:?}");
    }
    // oracle per operator
    if let Op::KeepBetterAtIndex = c.op {
        if pv.len() != ov.len() {
            *cl |= 1 << 6;
            ensure_that!(result.is_err(), "C12 KeepBetterAtIndex accepts unequal sizes", "{at}: returned {result:?}");
            return Ok(());
        }
    }
    let got = match result {
        Ok(g) => g,
        Err(e) => fail!(format!("C12 {} errs on valid input", op_name(&c.op)), "{at}: {e}"),
    };
    ensure_that!(sub_multiset(&got, &all), format!("C12 {} result not drawn from parents and offspring", op_name(&c.op)), "{at}: result {got:?} contains an individual (or more copies of one) than parents and offspring held");
    match &c.op {
        Op::Merge => ensure_that!(got == all, "C12 Merge content", "{at}: got {got:?}, expected parents ++ offspring"),
        Op::Generational(_) => ensure_that!(got == ov, "C12 Generational content", "{at}: got {got:?}, expected the offspring in order"),
        Op::DiscardOffspring => ensure_that!(got == pv, "C12 DiscardOffspring content", "{at}: got {got:?}, expected the parents in order"),
        Op::RandomReplacement(m) => ensure_that!(got.len() == (*m as usize).min(total), "C12 RandomReplacement size", "{at}: got {} individuals, expected min(mu, total) = {}", got.len(), (*m as usize).min(total)),
        Op::MuPlusLambda(m) => {
            let m = *m as usize;
            ensure_that!(got.len() == m.min(total), "C12 MuPlusLambda size", "{at}: got {} individuals, expected min(mu, total) = {}", got.len(), m.min(total));
            let mut objs: Vec<f64> = all.iter().map(|v| v.1.unwrap()).collect();
            objs.sort_by(|a, b| a.partial_cmp(b).unwrap());
            let mut gobjs: Vec<f64> = got.iter().map(|v| v.1.unwrap()).collect();
            gobjs.sort_by(|a, b| a.partial_cmp(b).unwrap());
            ensure_that!(gobjs[..] == objs[..m.min(total)], "C12 MuPlusLambda does not keep the mu best", "{at}: kept objectives {gobjs:?}, the mu smallest are {:?} (a discarded individual is better than a kept one)", &objs[..m.min(total)]);
            if m < total && m > 0 {
                let cut = objs[m - 1];
                // tie at the cut between a parent and an offspring
                if objs[m] == cut && pv.iter().any(|v| v.1 == Some(cut)) && ov.iter().any(|v| v.1 == Some(cut)) {
                    *cl |= 2;
                }
            }
        }
        Op::KeepBetterAtIndex => {
            let want: Vec<V> = pv.iter().zip(&ov).map(|(p, o)| if o.1.unwrap() < p.1.unwrap() { *o } else { *p }).collect();
            if pv.iter().zip(&ov).any(|(p, o)| p.1 == o.1 && p.0 != o.0) {
                *cl |= 2;
            }
            ensure_that!(got == want, "C12 KeepBetterAtIndex content", "{at}: got {got:?}, expected index-wise the strictly better one with ties kept by the parent: {want:?}");
        }
    }
    let _ = sorted;
    Ok(())
}

fn op_name(op: &Op) -> &'static str {
    match op {
        Op::Merge => "Merge",
        Op::Generational(_) => "Generational",
        Op::DiscardOffspring => "DiscardOffspring",
        Op::MuPlusLambda(_) => "MuPlusLambda",
        Op::RandomReplacement(_) => "RandomReplacement",
        Op::KeepBetterAtIndex => "KeepBetterAtIndex",
    }
}

pub fn ind_strategy() -> impl Strategy<Value = Ind> {
    (0u16..12, prop_oneof![1 => Just(None), 8 => (-3i8..4).prop_map(Some), 1 => Just(Some(i8::MAX))])
}

fn op_strategy() -> impl Strategy<Value = Op> {
    prop_oneof![
        1 => Just(Op::Merge),
        1 => (0u32..20).prop_map(Op::Generational),
        1 => Just(Op::DiscardOffspring),
        4 => (0u32..20).prop_map(Op::MuPlusLambda),
        2 => (0u32..20).prop_map(Op::RandomReplacement),
        3 => Just(Op::KeepBetterAtIndex),
    ]
}

fn case_strategy() -> impl Strategy<Value = Case> {
    (op_strategy(), proptest::collection::vec(proptest::collection::vec(ind_strategy(), 0..3), 0..3), proptest::collection::vec(ind_strategy(), 0..9), proptest::collection::vec(ind_strategy(), 0..9), any::<u64>(), any::<bool>(), any::<bool>(), (prop_oneof![3 => Just(Vec::new()), 2 => proptest::collection::vec(prop_oneof![3 => Just(0i8), 1 => Just(1i8), 1 => Just(-1i8), 1 => Just(2i8)], 1..6)], prop_oneof![5 => Just(false), 1 => Just(true)], prop_oneof![3 => Just(0u8), 1 => 1u8..4], prop_oneof![4 => Just(Vec::new()), 1 => proptest::collection::vec((proptest::collection::vec(ind_strategy(), 0..6), proptest::collection::vec(ind_strategy(), 0..6)), 1..3)], prop_oneof![3 => Just(0u8), 1 => 1u8..3])).prop_map(
        |(op, below, parents, mut offspring, seed, direct, equalise, (ulps, tiny, nest, prior, distractor))| {
            if matches!(op, Op::KeepBetterAtIndex) && equalise {
                offspring.resize(parents.len(), (3, Some(1)));
            }
            Case { op, below, parents, offspring, seed, direct, ulps, tiny, nest, prior, distractor, roomy: (seed >> 7) as u8 % 8 }
        },
    )
}

/// Two MuPlusLambda calls in one state where the second parent population keeps the size and the last individual of
/// the first result but got worse elsewhere (re-evaluated / aged survivors), with offspring in between.
fn mpl_history_strategy() -> impl Strategy<Value = Case> {
    (proptest::collection::vec(-3i8..4, 1..6), proptest::collection::vec(-3i8..4, 0..6), proptest::collection::vec(-3i8..6, 1..6), 0usize..6, 1i8..4, any::<u64>(), 0u8..3).prop_map(|(p0, o0, o1, worse_at, by, seed, nest)| {
        let mu = p0.len();
        let mut all: Vec<i8> = p0.iter().chain(o0.iter()).cloned().collect();
        all.sort();
        let mut survivors: Vec<i8> = all.into_iter().take(mu).collect();
        // a survivor other than the last one becomes worse than the last one
        let last = *survivors.last().unwrap();
        if mu >= 2 {
            let k = worse_at % (mu - 1);
            survivors[k] = last.saturating_add(by);
        }
        let tag = |v: &[i8], base: u16| -> Vec<Ind> { v.iter().enumerate().map(|(i, o)| (base + i as u16, Some(*o))).collect() };
        Case {
            op: Op::MuPlusLambda(mu as u32),
            below: vec![],
            parents: tag(&survivors, 100),
            offspring: tag(&o1, 200),
            seed,
            direct: false,
            ulps: Vec::new(),
            tiny: false,
            nest,
            prior: vec![(tag(&p0, 0), tag(&o0, 50))],
            distractor: 0,
            roomy: 0,
        }
    })
}

fn exhaustive() -> Vec<Case> {
    // all parent/offspring populations of size <= 2 over 3 individuals (two of them tied), all operators, mu in 0..=5
    let inds: [Ind; 3] = [(1, Some(1)), (2, Some(1)), (3, Some(0))];
    let mut pops: Vec<Vec<Ind>> = vec![vec![]];
    for a in inds {
        pops.push(vec![a]);
        for b in inds {
            pops.push(vec![a, b]);
        }
    }
    let mut ops = vec![Op::Merge, Op::DiscardOffspring, Op::KeepBetterAtIndex];
    for m in 0..=5 {
        ops.push(Op::MuPlusLambda(m));
        ops.push(Op::RandomReplacement(m));
        ops.push(Op::Generational(m));
    }
    let mut out = Vec::new();
    for p in &pops {
        for o in &pops {
            for op in &ops {
                for direct in [false, true] {
                    out.push(Case { op: op.clone(), below: if direct { vec![] } else { vec![vec![(9, None)]] }, parents: p.clone(), offspring: o.clone(), seed: 7, direct, ulps: Vec::new(), tiny: false, nest: if direct { 0 } else { (p.len() + o.len()) as u8 % 3 }, prior: Vec::new(), distractor: if direct { 0 } else { (p.len() * 2 + o.len()) as u8 % 3 }, roomy: (p.len() + 2 * o.len()) as u8 % 4 });
                }
            }
        }
    }
    out
}

/// RandomReplacement keeps "mu random ones": over many seeds every individual of parents ++ offspring survives with the
/// same frequency mu / total.
#[derive(Clone, Debug, Serialize, Deserialize)]
pub struct UniformCase {
    pub parents: u8,
    pub offspring: u8,
    pub mu: u8,
    pub seeds: u32,
    pub base_seed: u64,
}

pub struct UniformCheck;

impl Check for UniformCheck {
    type Case = UniformCase;
    fn name(&self) -> String {
        "C12/random-replacement-uniformity".into()
    }
    fn classes(&self) -> &'static [&'static str] {
        &["fewer than half survive", "more than half survive", "single survivor"]
    }
    fn oracle(&self, c: &UniformCase) -> Outcome {
        let (np, no, mu) = (c.parents as usize, c.offspring as usize, c.mu as usize);
        let total = np + no;
        let mut cl = 0;
        if 2 * mu < total {
            cl |= 1;
        } else {
            cl |= 2;
        }
        if mu == 1 {
            cl |= 4;
        }
        if mu == 0 || mu >= total {
            return Outcome::new(false, cl, Ok(()));
        }
        let r = (|| -> Result<(), Failure> {
            let op = RandomReplacement::from_params(mu as u32);
            let mut counts = vec![0u32; total];
            for s in 0..c.seeds {
                let mut rng = Random::new(c.base_seed.wrapping_add(s as u64));
                let p: Vec<Individual<RealP>> = (0..np).map(|k| mk(&(k as u16, Some(1)))).collect();
                let o: Vec<Individual<RealP>> = (0..no).map(|k| mk(&((np + k) as u16, Some(1)))).collect();
                let got = match catch(|| Replacement::<RealP>::replace(&op, p, o, &mut rng)) {
                    Ok(Ok(v)) => v,
                    r => fail!("C12 RandomReplacement errs on valid input", "{c:?}: {:?}", r.map(|x| x.is_ok())),
                };
                ensure_that!(got.len() == mu, "C12 RandomReplacement size", "{c:?}: {} survivors", got.len());
                for i in &got {
                    let k = i.solution()[0] as usize;
                    ensure_that!(k < total, "C12 RandomReplacement result not drawn from parents and offspring", "{c:?}");
                    counts[k] += 1;
                }
            }
            let n = c.seeds as f64;
            let p = mu as f64 / total as f64;
            let band = 6.0 * (n * p * (1.0 - p)).sqrt() + 1.0;
            for (k, cnt) in counts.iter().enumerate() {
                ensure_that!(
                    (*cnt as f64 - n * p).abs() <= band,
                    "C12 RandomReplacement survivors are not a uniformly random subset",
                    "{c:?}: over {} seeds the individual at position {k} of parents ++ offspring survived {cnt} times, expected {:.0} +- {band:.0} (mu / total = {p:.3}); counts {counts:?}",
                    c.seeds,
                    n * p
                );
            }
            Ok(())
        })();
        Outcome::new(true, cl, r)
    }
}

// ------------------------------------------------------------------------------------------------
// large populations (compact cases, expanded into `Case` and decided by the same oracle)
// ------------------------------------------------------------------------------------------------

#[derive(Clone, Debug, Serialize, Deserialize)]
pub struct LargeCase {
    pub op: Op,
    pub parents: u16,
    pub offspring: u16,
    pub seed: u64,
    pub direct: bool,
}

pub struct LargeCheck;

impl Check for LargeCheck {
    type Case = LargeCase;
    fn name(&self) -> String {
        "C12/large-populations".into()
    }
    fn classes(&self) -> &'static [&'static str] {
        &["mu >= combined size", "mu below 1% of the combined size", "combined size >= 4096", "MuPlusLambda", "RandomReplacement"]
    }
    fn oracle(&self, c: &LargeCase) -> Outcome {
        let total = c.parents as usize + c.offspring as usize;
        let mut cl = 0;
        if let Op::MuPlusLambda(m) | Op::RandomReplacement(m) | Op::Generational(m) = c.op {
            if m as usize >= total {
                cl |= 1;
            }
            if (m as usize) * 100 < total && m >= 2 {
                cl |= 2;
            }
        }
        if total >= 4096 {
            cl |= 4;
        }
        match c.op {
            Op::MuPlusLambda(_) => cl |= 8,
            Op::RandomReplacement(_) => cl |= 16,
            _ => {}
        }
        let obj = |k: u64| -> Option<i8> { Some((((k.wrapping_mul(0x9E37_79B9_7F4A_7C15).wrapping_add(c.seed)) >> 29) % 7) as i8 - 3) };
        let case = Case {
            op: c.op.clone(),
            below: if c.seed % 2 == 0 { vec![] } else { vec![vec![(60000, Some(1))]] },
            parents: (0..c.parents).map(|k| (k, obj(k as u64))).collect(),
            offspring: (0..c.offspring).map(|k| (c.parents + k, obj(c.parents as u64 + k as u64))).collect(),
            seed: c.seed,
            direct: c.direct,
            ulps: Vec::new(),
            tiny: false,
            nest: 0,
            prior: Vec::new(),
            distractor: 0,
            roomy: 0,
        };
        let mut ignored = 0u64;
        let r = oracle(&case, &mut ignored).map_err(|f| {
            let msg: String = f.msg.chars().take(160).chain(" ... ".chars()).chain(f.msg.chars().rev().take(500).collect::<Vec<_>>().into_iter().rev()).collect();
            Failure::new(f.sig, format!("{c:?} (individual k: tag k, objective hashed from k and the seed into -3..=3): {msg}"))
        });
        Outcome::new(cl & 3 != 0, cl, r)
    }
}

fn large_strategy() -> impl Strategy<Value = LargeCase> {
    let sizes = prop_oneof![3 => (150u16..800, 150u16..800), 1 => (2000u16..3000, 2100u16..2600), 1 => (4096u16..4200, 0u16..3), 1 => (0u16..3, 4096u16..4200)];
    (sizes, 0u8..10, any::<u64>(), any::<bool>(), 0u8..3).prop_map(|((np, no), pick, seed, direct, kind)| {
        let total = np as u32 + no as u32;
        let mu = match if kind == 1 && pick >= 3 { 9 } else { pick } {
            0 => total,
            1 => total + 1,
            2 => u32::MAX,
            3 => total - 1,
            4 => total / 2,
            5 => 1,
            _ => 2 + (seed % 64) as u32 % (total / 100).max(1),
        };
        let op = match kind {
            0 => Op::MuPlusLambda(mu),
            1 => Op::RandomReplacement(mu),
            _ => if seed % 3 == 0 { Op::Generational(mu) } else if seed % 3 == 1 { Op::Merge } else { Op::MuPlusLambda(mu) },
        };
        LargeCase { op, parents: np, offspring: no, seed, direct }
    })
}

pub fn run_all(ctx: &mut Ctx, replay: Option<&Path>) {
    ctx.rule("case = (operator, mu, populations below, parents, offspring, seed, via Component::execute or Replacement::replace) over tagged individuals with ties, duplicates by value, unevaluated and +inf objectives, objective values 1-2 representable steps apart and values of magnitude 1e-17; the component also executed inside 1-3 nested scopes while the population stack lives outside them, after earlier calls of the same operator on other populations in the same state (incl. a directed family: second MuPlusLambda call on survivors that got worse in place), and with a best-so-far individual / counters present in the state; oracle: stack height -1 and populations below untouched, result is a sub-multiset of parents (+) offspring, content per operator (Merge/Generational/DiscardOffspring exact, MuPlusLambda = min(mu,total) individuals whose objective multiset is the mu smallest, RandomReplacement size (and, in a separate frequency check over many seeds, every individual surviving with frequency mu/total within a 6-sigma band), KeepBetterAtIndex index-wise strictly better with parent on ties, Err on unequal sizes); non-trivial = both populations non-empty with mu < total and a parent/offspring tie at the cut, or duplicates by value. large-populations: compact cases (operator, sizes 300-1600 / 4100-5600 / 4096-4200 + 0-2, mu in {total, total + 1, u32::MAX, total - 1, total / 2, 1, 2..total/100}, seed) expanded into tagged populations with hashed objective values in -3..=3 and decided by the same oracle; non-trivial = mu >= total or 2 <= mu < total / 100; distinct by case");
    ctx.assume("MuPlusLambda and KeepBetterAtIndex get evaluated individuals only (every caller evaluates first)");
    let k = ReplCheck;
    if let Some(p) = replay {
        let _ = ctx.replay_file(&k, p) || ctx.replay_file(&UniformCheck, p) || ctx.replay_file(&LargeCheck, p);
        return;
    }
    ctx.regressions(&k);
    ctx.exhaustive(&k, "all parent x offspring populations of size <= 2 over 3 individuals (two tied) x {Merge, Discard, KeepBetter, MuPlusLambda/Random/Generational with mu in 0..=5} x {execute, replace}", exhaustive().into_iter());
    ctx.random(&k, case_strategy(), ctx.tier.pick(200_000, 1_000_000));
    let u = UniformCheck;
    ctx.regressions(&u);
    let seeds = ctx.tier.pick(600, 3000);
    let base = ctx.derive_seed("random-replacement");
    ctx.exhaustive(
        &u,
        &format!("parents x offspring in {{(1,1),(2,2),(3,1),(1,5),(5,5),(4,12),(8,2)}} x every mu in 1..total, {seeds} seeds each"),
        [(1u8, 1u8), (2, 2), (3, 1), (1, 5), (5, 5), (4, 12), (8, 2)].into_iter().flat_map(move |(a, b)| (1..a + b).map(move |mu| UniformCase { parents: a, offspring: b, mu, seeds, base_seed: base })),
    );
    ctx.random(&k, mpl_history_strategy(), ctx.tier.pick(20_000, 100_000));
    let l = LargeCheck;
    ctx.regressions(&l);
    ctx.random(&l, large_strategy(), ctx.tier.pick(1500, 8000));
}
