//! C06 — evaluation steps evaluate everyone exactly once and the evaluation count is exact.

use std::{
    path::Path,
    sync::{Arc, Mutex},
};

use mahf::{
    conditions::LessThanN,
    identifier::{Global, Identifier, A, B},
    problems::{Evaluate, ObjectiveFunction, Parallel, Sequential},
    state::common::{Evaluations, Evaluator, Populations},
    Configuration, ExecResult, Individual, Random, State, StateRegistry,
};
use better_any::{Tid, TidAble};
use proptest::prelude::*;
use serde::{Deserialize, Serialize};

use crate::{
    engine::{catch, soft_fail, Check, Ctx, Failure, Outcome},
    ensure_that, fail,
    fixtures::{
        problems::{hash_f64s, Instr, Instrumented, RealKind, RealP},
        run::{run_observed_auto, build_bits_with, build_perm_with, build_real_with, bits_of, real_of, run_observed, run_spec_strategy, tsp_of, Audit, EvalKind, Kind, Phase, RunSpec, StepEv},
    },
    props::c16::TEMPLATE_NAMES,
};

// ------------------------------------------------------------------------------------------------
// (a) the evaluation component on prepared states
// ------------------------------------------------------------------------------------------------

#[derive(Clone, Copy, Debug, Serialize, Deserialize, PartialEq)]
pub enum Ev {
    Sequential,
    /// rayon pool with this many threads
    Parallel(u8),
    /// harness evaluator that records the slice it was handed
    Recording,
    /// harness evaluator that also evaluates that many probe solutions of its own while it runs and adds them to the
    /// evaluation counter itself (what an evaluator does that runs a nested evaluation step, a local refinement, a
    /// surrogate refit ...): the step adds the population size on top
    Probing(u8),
}

const PROBE: [f64; 2] = [99.0, 0.5];

struct Probing {
    extra: u8,
}
impl Evaluate for Probing {
    type Problem = RealP;
    fn evaluate(&mut self, problem: &RealP, state: &mut State<RealP>, individuals: &mut [Individual<RealP>]) {
        for _ in 0..self.extra {
            let _ = problem.objective(&PROBE.to_vec());
        }
        if let Ok(mut e) = state.try_borrow_value_mut::<Evaluations>() {
            *e += self.extra as u32;
        }
        for i in individuals {
            i.evaluate_with(|s| problem.objective(s));
        }
    }
}

#[derive(Clone, Debug, Serialize, Deserialize)]
pub struct StepCase {
    /// (tag coordinate, pre-state: 0 unevaluated, 1 evaluated with f, 2 evaluated with a stale value)
    pub pop: Vec<(i8, u8)>,
    pub empty_stack: bool,
    /// requested identifier: 0 Global, 1 A, 2 B
    pub id: u8,
    /// 0 registered under the requested id, 1 only under another id, 2 not at all
    pub registered: u8,
    pub evaluator: Ev,
    /// the evaluator lives in an outer scope
    pub outer: bool,
    pub below: u8,
    pub jitter: u64,
    /// where the evaluation step sits when its evaluator is missing (the requirement must be reported wherever it is):
    /// 0 top level, 1 body of a branch, 2 else-body of a branch that takes its if-body, 3 else-body that is taken,
    /// 4 body of a loop that makes no pass, 5 inside a scope in an else-body
    #[serde(default)]
    pub placement: u8,
}

/// Calls the objective function once (so that "nothing executed" is observable as zero objective calls).
#[derive(Clone, Serialize)]
struct CallsObjective;
impl mahf::Component<RealP> for CallsObjective {
    fn execute(&self, problem: &RealP, _state: &mut State<RealP>) -> ExecResult<()> {
        let _ = problem.objective(&vec![0.0, 0.0]);
        Ok(())
    }
}

struct Recording {
    seen: Arc<Mutex<Vec<usize>>>,
}
impl Evaluate for Recording {
    type Problem = RealP;
    fn evaluate(&mut self, problem: &RealP, _state: &mut State<RealP>, individuals: &mut [Individual<RealP>]) {
        self.seen.lock().unwrap().push(individuals.len());
        for i in individuals {
            i.evaluate_with(|s| problem.objective(s));
        }
    }
}

pub struct StepCheck;

impl Check for StepCheck {
    type Case = StepCase;
    fn name(&self) -> String {
        "C06/evaluation-step".into()
    }
    fn classes(&self) -> &'static [&'static str] {
        &["population >= 2", "parallel with >= 2 threads", "missing evaluator", "evaluator in outer scope", "empty population or stack", "duplicates by value", "already evaluated individuals", "missing evaluator for a step nested in control flow", "the evaluator advances the evaluation counter itself while it runs"]
    }
    fn oracle(&self, c: &StepCase) -> Outcome {
        let mut cl = 0;
        let r = match c.id % 3 {
            0 => step_oracle::<Global>(c, &mut cl),
            1 => step_oracle::<A>(c, &mut cl),
            _ => step_oracle::<B>(c, &mut cl),
        };
        Outcome::new(cl & 1 != 0 && cl & 4 == 0, cl, r)
    }
}

fn insert_eval<I: Identifier>(reg: &mut StateRegistry<'static>, c: &StepCase, seen: &Arc<Mutex<Vec<usize>>>) {
    match c.evaluator {
        Ev::Sequential => {
            reg.insert(Evaluator::<RealP, I>::new(Sequential::<RealP>::new()));
        }
        Ev::Parallel(_) => {
            reg.insert(Evaluator::<RealP, I>::new(Parallel::<RealP>::new()));
        }
        Ev::Recording => {
            reg.insert(Evaluator::<RealP, I>::new(Recording { seen: seen.clone() }));
        }
        Ev::Probing(extra) => {
            reg.insert(Evaluator::<RealP, I>::new(Probing { extra }));
        }
    }
}

fn step_oracle<I: Identifier>(c: &StepCase, cl: &mut u64) -> Result<(), Failure> {
    let mut problem = RealP::new(2, -10.0, 10.0, RealKind::Sphere);
    problem.instr = Instr::with_jitter(c.jitter % 4);
    let n = c.pop.len();
    if n >= 2 {
        *cl |= 1;
    }
    if let Ev::Parallel(t) = c.evaluator {
        if t >= 2 {
            *cl |= 2;
        }
    }
    if c.registered != 0 {
        *cl |= 4;
    }
    if c.outer {
        *cl |= 8;
    }
    if n == 0 || c.empty_stack {
        *cl |= 16;
    }
    if (0..n).any(|i| (0..i).any(|j| c.pop[i].0 == c.pop[j].0)) {
        *cl |= 32;
    }
    if c.pop.iter().any(|p| p.1 != 0) {
        *cl |= 64;
    }
    let sols: Vec<Vec<f64>> = c.pop.iter().map(|(t, _)| vec![*t as f64, 0.25]).collect();
    let inds: Vec<Individual<RealP>> = c
        .pop
        .iter()
        .zip(&sols)
        .map(|((_, pre), s)| match pre % 3 {
            0 => Individual::new_unevaluated(s.clone()),
            1 => Individual::new(s.clone(), problem.f(s).try_into().unwrap()),
            _ => Individual::new(s.clone(), (problem.f(s) + 1000.0).try_into().unwrap()),
        })
        .collect();
    let seen = Arc::new(Mutex::new(Vec::new()));
    // build the state: [outer scope with evaluator]? -> scope with populations
    let mut reg = StateRegistry::new();
    let register = |reg: &mut StateRegistry<'static>| match c.registered % 3 {
        0 => insert_eval::<I>(reg, c, &seen),
        1 => {
            // only under an identifier that is not the requested one
            if c.id % 3 == 0 {
                insert_eval::<A>(reg, c, &seen)
            } else {
                insert_eval::<Global>(reg, c, &seen)
            }
        }
        _ => {}
    };
    if c.outer {
        register(&mut reg);
        reg = reg.into_child();
    } else {
        register(&mut reg);
    }
    let mut ps = Populations::<RealP>::new();
    let below = (c.below % 3) as usize;
    if !c.empty_stack {
        for b in 0..below {
            ps.push(vec![Individual::new_unevaluated(vec![500.0 + b as f64, 0.0])]);
        }
        ps.push(inds);
    }
    reg.insert(ps);
    reg.insert(Random::new(5));
    let mut state: State<'static, RealP> = reg.into();
    let cfg = if c.registered % 3 == 0 {
        Configuration::<RealP>::builder().evaluate_with::<I>().build()
    } else {
        use mahf::conditions::{EveryN, LessThanN as Lt};
        // a step with the (registered) ... no: nothing else may run either - a first component that calls the objective
        let probe = Configuration::<RealP>::builder().do_(Box::new(CallsObjective));
        match c.placement % 6 {
            0 => probe.evaluate_with::<I>().build(),
            1 => probe.if_(EveryN::iterations(1), |b| b.evaluate_with::<I>()).build(),
            2 => probe.if_else_(EveryN::iterations(1), |b| b, |b| b.evaluate_with::<I>()).build(),
            3 => probe.if_else_(Lt::iterations(0), |b| b, |b| b.evaluate_with::<I>()).build(),
            4 => probe.while_(Lt::iterations(0), |b| b.evaluate_with::<I>()).build(),
            _ => probe.if_else_(EveryN::iterations(1), |b| b, |b| b.while_(Lt::iterations(1), |b| b.evaluate_with::<I>())).build(),
        }
    };
    if c.registered % 3 != 0 && c.placement % 6 != 0 {
        *cl |= 128;
    }
    let at = format!("{c:?}");
    let run = |state: &mut State<'static, RealP>| catch(|| cfg.run(&problem, state));
    let r = match c.evaluator {
        Ev::Parallel(t) => {
            crate::fixtures::pool(t as usize).install(|| run(&mut state))
        }
        _ => run(&mut state),
    };
    let calls = problem.instr.calls();
    if c.registered % 3 != 0 {
        match r {
            Ok(Err(_)) => {}
            other => fail!("C06 missing evaluator not reported before execution", "{at}: run returned {:?}", other.map(|x| x.is_ok())),
        }
        ensure_that!(calls == 0, "C06 objective called although the evaluator is missing", "{at}: {calls} objective calls");
        return Ok(());
    }
    match r {
        Ok(Ok(())) => {}
        Ok(Err(e)) => fail!("C06 evaluation step errs", "{at}: {e:#}"),
        Err(p) => fail!("C06 evaluation step panics", "{at}: {p}"),
    }
    // evaluator back where it came from
    let holder: &StateRegistry = if c.outer { state.parent().ok_or_else(|| Failure::new("C06 scope lost", at.clone()))? } else { &state };
    ensure_that!(holder.contains_at_top::<Evaluator<RealP, I>>(), "C06 evaluator not put back into its scope", "{at}: the evaluator is not in the scope it was registered in");
    if c.outer {
        ensure_that!(!state.contains_at_top::<Evaluator<RealP, I>>(), "C06 evaluator not put back into its scope", "{at}: the evaluator moved into the inner scope");
    }
    let evals = state.try_get_value::<Evaluations>().ok();
    let ps = state.populations();
    if c.empty_stack {
        ensure_that!(ps.is_empty() && calls == 0 && evals == Some(0), "C06 evaluation on an empty stack", "{at}: stack {} calls {calls} evaluations {evals:?}", ps.len());
        return Ok(());
    }
    ensure_that!(ps.len() == below + 1, "C06 evaluation changes the stack height", "{at}: height {}", ps.len());
    for b in 0..below {
        let p = ps.peek(below - b);
        ensure_that!(p.len() == 1 && p[0].solution()[0] == 500.0 + b as f64 && !p[0].is_evaluated(), "C06 evaluation touches populations below", "{at}");
    }
    let cur = ps.current();
    ensure_that!(cur.len() == n, "C06 evaluation changes the population size", "{at}: {} individuals after, {n} before", cur.len());
    for (k, (i, s)) in cur.iter().zip(&sols).enumerate() {
        ensure_that!(i.solution() == s, "C06 evaluation changes order or solutions", "{at}: position {k}: {:?} vs {s:?}", i.solution());
        let want = problem.f(s);
        ensure_that!(i.get_objective().map(|o| o.value()) == Some(want), "C06 individual not evaluated with the problem's objective", "{at}: position {k}: objective {:?}, f = {want}", i.get_objective());
    }
    let extra = if let Ev::Probing(x) = c.evaluator { x as usize } else { 0 };
    if extra > 0 {
        *cl |= 256;
    }
    ensure_that!(evals == Some((n + extra) as u32), "C06 evaluation counter not advanced by the population size", "{at}: Evaluations = {evals:?}, population size {n}, evaluations the evaluator counted itself while it ran: {extra}");
    let mut log = problem.instr.log_from(0);
    let mut want: Vec<u64> = sols.iter().map(|s| hash_f64s(s)).chain((0..extra).map(|_| hash_f64s(&PROBE))).collect();
    log.sort();
    want.sort();
    ensure_that!(log == want, "C06 objective not called exactly once per individual", "{at}: {} objective calls for {n} individuals (as multisets of solutions: differ)", calls);
    if let Ev::Recording = c.evaluator {
        let seen = seen.lock().unwrap().clone();
        ensure_that!(seen == vec![n], "C06 evaluator not applied exactly once to the whole population", "{at}: evaluator saw slices of lengths {seen:?}");
    }
    Ok(())
}

// ------------------------------------------------------------------------------------------------
// (a') shadowed evaluators: a scope registers its own evaluator under the identifier the enclosing run also uses
// ------------------------------------------------------------------------------------------------

/// `pre` evaluation steps at the top level, then a scope (under `nest` further plain scopes) whose state initialiser
/// registers its own evaluator for the same identifier and whose body holds `inner` evaluation steps, then `post`
/// evaluation steps at the top level again.
#[derive(Clone, Debug, Serialize, Deserialize)]
pub struct ShadowCase {
    pub n: u8,
    pub id: u8,
    pub pre: u8,
    pub inner: u8,
    pub post: u8,
    pub nest: u8,
    /// the scope registers NO evaluator of its own: the steps inside use the run's evaluator from 1 + nest scopes below,
    /// and it is back in the root scope afterwards
    #[serde(default)]
    pub plain: bool,
}

#[derive(Tid)]
struct SeenHandle(Arc<Mutex<Vec<(char, usize)>>>);
impl mahf::CustomState<'_> for SeenHandle {}

struct Tagged {
    tag: char,
    seen: Arc<Mutex<Vec<(char, usize)>>>,
}
impl Evaluate for Tagged {
    type Problem = RealP;
    fn evaluate(&mut self, problem: &RealP, _state: &mut State<RealP>, individuals: &mut [Individual<RealP>]) {
        self.seen.lock().unwrap().push((self.tag, individuals.len()));
        for i in individuals {
            i.evaluate_with(|s| problem.objective(s));
        }
    }
}

fn shadow_init<I: Identifier>(state: &mut State<RealP>) -> ExecResult<()> {
    let seen = state.borrow::<SeenHandle>().0.clone();
    state.insert(Evaluator::<RealP, I>::new(Tagged { tag: 'I', seen }));
    Ok(())
}

/// The same through the convenience method of `State` (`insert_evaluator` for the default identifier).
fn shadow_init_via_helper<I: Identifier>(state: &mut State<RealP>) -> ExecResult<()> {
    let seen = state.borrow::<SeenHandle>().0.clone();
    if std::any::TypeId::of::<I>() == std::any::TypeId::of::<Global>() {
        state.insert_evaluator(Tagged { tag: 'I', seen });
    } else {
        state.insert_evaluator_as::<I>(Tagged { tag: 'I', seen });
    }
    Ok(())
}

fn shadow_merge(state: &mut State<RealP>, inner: State<RealP>) -> ExecResult<()> {
    if let Ok(e) = inner.try_get_value::<Evaluations>() {
        if inner.contains_at_top::<Evaluations>() {
            if let Ok(mut total) = state.try_borrow_value_mut::<Evaluations>() {
                *total += e;
            }
        }
    }
    Ok(())
}

pub struct ShadowCheck;

impl Check for ShadowCheck {
    type Case = ShadowCase;
    fn name(&self) -> String {
        "C06/shadowed-evaluator".into()
    }
    fn classes(&self) -> &'static [&'static str] {
        &["population >= 2", "evaluation step at the top level after the scope", "scope nested below further scopes", "non-default identifier", "scope without an evaluator of its own"]
    }
    fn oracle(&self, c: &ShadowCase) -> Outcome {
        let mut cl = 0;
        let r = match c.id % 3 {
            0 => shadow_oracle::<Global>(c, &mut cl),
            1 => shadow_oracle::<A>(c, &mut cl),
            _ => shadow_oracle::<B>(c, &mut cl),
        };
        Outcome::new(cl & 3 == 3, cl, r)
    }
}

fn shadow_oracle<I: Identifier>(c: &ShadowCase, cl: &mut u64) -> Result<(), Failure> {
    use mahf::components::{evaluation::PopulationEvaluator, Scope};
    let (n, pre, inner, post, nest) = ((c.n % 7) as usize, (c.pre % 3) as usize, 1 + (c.inner % 3) as usize, (c.post % 4) as usize, (c.nest % 3) as usize);
    if n >= 2 {
        *cl |= 1;
    }
    if post > 0 {
        *cl |= 2;
    }
    if nest > 0 {
        *cl |= 4;
    }
    if c.id % 3 != 0 {
        *cl |= 8;
    }
    let problem = RealP::new(2, -10.0, 10.0, RealKind::Sphere);
    let seen = Arc::new(Mutex::new(Vec::new()));
    let mut reg = StateRegistry::new();
    reg.insert(Evaluator::<RealP, I>::new(Tagged { tag: 'O', seen: seen.clone() }));
    reg.insert(SeenHandle(seen.clone()));
    reg.insert(Evaluations(0));
    let mut ps = Populations::<RealP>::new();
    ps.push((0..n).map(|k| Individual::new_unevaluated(vec![k as f64, 0.5])).collect());
    reg.insert(ps);
    reg.insert(Random::new(5));
    let mut state: State<'static, RealP> = reg.into();
    let step = || -> Box<dyn mahf::Component<RealP>> { PopulationEvaluator::<I>::new_with() };
    let mut scoped: Box<dyn mahf::Component<RealP>> = if c.plain {
        *cl |= 16;
        Scope::new_with(|_| Ok(()), (0..inner).map(|_| step()).collect::<Vec<_>>(), shadow_merge)
    } else if (c.pre + c.post + c.inner) % 2 == 1 {
        Scope::new_with(shadow_init_via_helper::<I>, (0..inner).map(|_| step()).collect::<Vec<_>>(), shadow_merge)
    } else {
        Scope::new_with(shadow_init::<I>, (0..inner).map(|_| step()).collect::<Vec<_>>(), shadow_merge)
    };
    for _ in 0..nest {
        scoped = Scope::new_with(|_| Ok(()), vec![scoped], shadow_merge);
    }
    let mut b = Configuration::<RealP>::builder();
    for _ in 0..pre {
        b = b.do_(step());
    }
    b = b.do_(scoped);
    for _ in 0..post {
        b = b.do_(step());
    }
    let cfg = b.build();
    let at = format!("{c:?}");
    match catch(|| cfg.run(&problem, &mut state)) {
        Ok(Ok(())) => {}
        Ok(Err(e)) => fail!("C06 evaluation step errs", "{at}: {e:#}"),
        Err(p) => fail!("C06 evaluation step panics", "{at}: {p}"),
    }
    let got = seen.lock().unwrap().clone();
    let mut want = vec![('O', n); pre];
    want.extend(vec![(if c.plain { 'O' } else { 'I' }, n); inner]);
    want.extend(vec![('O', n); post]);
    ensure_that!(
        got == want,
        "C06 evaluation step does not apply the evaluator registered for its scope",
        "{at}: evaluator applications (O = the run's evaluator in the root scope, I = the evaluator the scope registered; with population size) {got:?}, expected {want:?}"
    );
    let steps = pre + inner + post;
    let calls = problem.instr.calls();
    ensure_that!(calls == (steps * n) as u64, "C06 objective not called exactly once per individual", "{at}: {calls} objective calls for {steps} evaluation steps on {n} individuals");
    let evals = state.try_get_value::<Evaluations>().ok();
    ensure_that!(evals == Some((steps * n) as u32), "C06 reported evaluations differ from objective calls", "{at}: Evaluations = {evals:?} after {calls} objective calls");
    ensure_that!(state.contains_at_top::<Evaluator<RealP, I>>() && state.parent().is_none(), "C06 evaluator not put back into its scope", "{at}: the root scope has no evaluator after the run");
    Ok(())
}

// ------------------------------------------------------------------------------------------------
// (b) every evaluation step of template runs, and the run total
// ------------------------------------------------------------------------------------------------

#[derive(Clone, Debug, Serialize, Deserialize)]
pub struct RunCase {
    pub spec: RunSpec,
    /// None: iteration-bounded; Some(b): evaluation budget b
    pub budget: Option<u32>,
    pub parallel_threads: Option<u8>,
}

struct A6<P: Instrumented> {
    tpl: &'static str,
    failure: Option<Failure>,
    before: Option<(Vec<u64>, u32, usize)>,
    eval_steps: u32,
    eval_steps_pop2: u32,
    per_pass_steps: u32,
    max_per_pass: u32,
    evals_at_pass_start: u32,
    max_evals_per_pass: u32,
    /// the run's evaluator is `EvalKind::Probing`: one more objective call (on the first solution) and one more counted
    /// evaluation per non-empty evaluation
    probing: bool,
    _p: std::marker::PhantomData<fn() -> P>,
}

impl<P: Instrumented> Audit<P> for A6<P> {
    fn step(&mut self, problem: &P, state: &State<P>, ev: &StepEv) {
        if self.failure.is_some() {
            return;
        }
        let evals = state.try_get_value::<Evaluations>().unwrap_or(0);
        if ev.starts_main_pass {
            self.evals_at_pass_start = evals;
            self.per_pass_steps = 0;
        }
        if ev.ends_main_pass {
            self.max_evals_per_pass = self.max_evals_per_pass.max(evals.saturating_sub(self.evals_at_pass_start));
            self.max_per_pass = self.max_per_pass.max(self.per_pass_steps);
        }
        if ev.name != "PopulationEvaluator" {
            return;
        }
        match ev.phase {
            Phase::Before => {
                let ps = state.populations();
                let hashes: Vec<u64> = ps.get_current().map(|p| p.iter().map(|i| P::sol_hash(i.solution())).collect()).unwrap_or_default();
                self.before = Some((hashes, evals, problem.instr().log_len()));
            }
            Phase::After => {
                let Some((hashes, evals0, log0)) = self.before.take() else { return };
                if !ev.ok {
                    return;
                }
                self.eval_steps += 1;
                self.per_pass_steps += 1;
                if hashes.len() >= 2 {
                    self.eval_steps_pop2 += 1;
                }
                let ps = state.populations();
                let cur = ps.get_current().unwrap_or(&[]);
                let after: Vec<u64> = cur.iter().map(|i| P::sol_hash(i.solution())).collect();
                let at = format!("{}: evaluation step #{} (enclosing {:?})", self.tpl, self.eval_steps, ev.enclosing);
                let mut fail = |sig: &str, msg: String| {
                    self.failure = Some(Failure::new(format!("C06 {} {sig}", self.tpl), format!("{at}: {msg}")));
                };
                if after != hashes {
                    return fail("evaluation changes order or solutions", format!("{} individuals before, {} after, or different order", hashes.len(), after.len()));
                }
                for i in cur {
                    let want = problem.pure_f(i.solution());
                    if i.get_objective().map(|o| o.value().to_bits()) != Some(want.to_bits()) {
                        return fail("individual not evaluated with the problem's objective", format!("objective {:?}, f = {want}", i.get_objective()));
                    }
                }
                // the counter of the scope the evaluator resolves to
                let evals1 = state.try_get_value::<Evaluations>().unwrap_or(0);
                let extra = if self.probing && !hashes.is_empty() { 1 } else { 0 };
                if evals1.wrapping_sub(evals0) != hashes.len() as u32 + extra {
                    return fail("evaluation counter not advanced by the population size", format!("Evaluations {evals0} -> {evals1} for a population of {} (+ {extra} counted by the evaluator itself)", hashes.len()));
                }
                let mut log = problem.instr().log_from(log0);
                let mut want = hashes.clone();
                if extra == 1 {
                    want.push(hashes[0]);
                }
                log.sort();
                want.sort();
                if log != want {
                    return fail("objective not called exactly once per individual", format!("{} objective calls for {} individuals", log.len(), hashes.len()));
                }
            }
        }
    }
}

/// Budget-bounded loops are additionally capped by an iteration bound: a pass that evaluates nothing
/// (or a broken counter) must not hang the harness.
const BUDGET_ITER_CAP: u32 = 150;

pub struct RunCheck(pub usize);

impl Check for RunCheck {
    type Case = RunCase;
    fn name(&self) -> String {
        format!("C06/run/{}", TEMPLATE_NAMES[self.0])
    }
    fn classes(&self) -> &'static [&'static str] {
        &["evaluation step with population >= 2", ">= 2 evaluation steps per pass", "evaluation budget", "parallel evaluator", "out-of-order completion observed", "an evaluator that evaluates a probe of its own and counts it itself"]
    }
    fn oracle(&self, c: &RunCase) -> Outcome {
        let mut cl = 0;
        let r = match c.spec.tpl.kind() {
            Kind::Real => {
                let b = c.budget;
                let it = c.spec.iters;
                let cfg = build_real_with(&c.spec.tpl, &move || match b {
                    Some(b) => LessThanN::evaluations(b) & LessThanN::iterations(BUDGET_ITER_CAP),
                    None => LessThanN::iterations(it),
                })
                .unwrap();
                run_case(c, cfg, real_of(&c.spec.inst), &mut cl)
            }
            Kind::Bits => {
                let b = c.budget;
                let it = c.spec.iters;
                let cfg = build_bits_with(&c.spec.tpl, &move || match b {
                    Some(b) => LessThanN::evaluations(b) & LessThanN::iterations(BUDGET_ITER_CAP),
                    None => LessThanN::iterations(it),
                })
                .unwrap();
                run_case(c, cfg, bits_of(&c.spec.inst), &mut cl)
            }
            Kind::Perm => {
                let b = c.budget;
                let it = c.spec.iters;
                let cfg = build_perm_with(&c.spec.tpl, &move || match b {
                    Some(b) => LessThanN::evaluations(b) & LessThanN::iterations(BUDGET_ITER_CAP),
                    None => LessThanN::iterations(it),
                })
                .unwrap();
                run_case(c, cfg, tsp_of(&c.spec.inst), &mut cl)
            }
        };
        Outcome::new(cl & 1 != 0, cl, r)
    }
}

fn run_case<P: Instrumented + Clone + 'static>(c: &RunCase, cfg: ExecResult<Configuration<P>>, problem: P, cl: &mut u64) -> Result<(), Failure> {
    let tpl = c.spec.tpl.name();
    let Ok(cfg) = cfg else { return Ok(()) };
    // every other run uses a clone of the configuration (a clone describes the same heuristic)
    let cfg = if c.spec.seed & 2 == 2 { cfg.clone() } else { cfg };
    if c.parallel_threads.is_some() {
        problem.instr().0.jitter.store(1 + c.spec.seed % 3, std::sync::atomic::Ordering::Relaxed);
    }
    let audit = Arc::new(Mutex::new(A6::<P> { tpl, failure: None, before: None, eval_steps: 0, eval_steps_pop2: 0, per_pass_steps: 0, max_per_pass: 0, evals_at_pass_start: 0, max_evals_per_pass: 0, probing: c.parallel_threads.is_none() && c.spec.seed % 4 == 1, _p: std::marker::PhantomData }));
    let at = format!("{c:?}");
    let res = match c.parallel_threads {
        Some(t) => {
            *cl |= 8;
            crate::fixtures::pool(t as usize).install(|| run_observed_auto(&cfg, &problem, c.spec.seed, EvalKind::Parallel, audit.clone()))
        }
        None if c.spec.seed % 4 == 1 => {
            *cl |= 32;
            run_observed_auto(&cfg, &problem, c.spec.seed, EvalKind::Probing, audit.clone())
        }
        None => run_observed_auto(&cfg, &problem, c.spec.seed, EvalKind::Sequential, audit.clone()),
    };
    let a = audit.lock().unwrap();
    if problem.instr().out_of_order() > 0 {
        *cl |= 16;
    }
    if a.eval_steps_pop2 > 0 {
        *cl |= 1;
    }
    if a.max_per_pass >= 2 {
        *cl |= 2;
    }
    if let Some(f) = &a.failure {
        soft_fail(f.clone())?;
    }
    let Ok(state) = res else { return Ok(()) }; // failures of the run itself are C16's subject
    let reported = state.try_get_value::<Evaluations>().ok();
    let calls = problem.instr().calls();
    // templates without any evaluation step have no counter
    if reported.map(|r| r as u64) != Some(calls) && !(reported.is_none() && calls == 0) {
        soft_fail(Failure::new(format!("C06 {tpl} reported evaluations differ from objective calls"), format!("{at}: state.evaluations() = {reported:?}, the objective function was invoked {calls} times")))?;
    }
    if let Some(b) = c.budget {
        *cl |= 4;
        let fin = reported.unwrap_or(0);
        // evaluations before the loop (initialisation) + at most one pass beyond the budget
        let init_evals = fin.min(b); // conservative: everything below the budget is allowed
        let _ = init_evals;
        let iters = state.try_get_value::<mahf::state::common::Iterations>().unwrap_or(0);
        if fin < b && iters < BUDGET_ITER_CAP && a.max_evals_per_pass > 0 {
            soft_fail(Failure::new(format!("C06 {tpl} loop stopped before the evaluation budget was used"), format!("{at}: budget {b}, final evaluations {fin} after {iters} iterations")))?;
        }
        if fin >= b {
            let over = fin - b;
            if over >= a.max_evals_per_pass.max(1) && a.max_evals_per_pass > 0 {
                soft_fail(Failure::new(format!("C06 {tpl} evaluation budget overshot by a full pass or more"), format!("{at}: budget {b}, final evaluations {fin}, largest pass used {} evaluations", a.max_evals_per_pass)))?;
            }
        }
    }
    Ok(())
}

fn step_strategy() -> impl Strategy<Value = StepCase> {
    (
        prop_oneof![9 => proptest::collection::vec((-4i8..5, 0u8..3), 0..13), 1 => proptest::collection::vec((-4i8..5, 0u8..3), 32..48)],
        prop_oneof![9 => Just(false), 1 => Just(true)],
        0u8..3,
        prop_oneof![6 => Just(0u8), 1 => Just(1u8), 1 => Just(2u8)],
        prop_oneof![2 => Just(Ev::Sequential), 1 => Just(Ev::Recording), 1 => (0u8..5).prop_map(Ev::Probing), 4 => prop_oneof![Just(1u8), Just(2), Just(4), Just(16)].prop_map(Ev::Parallel)],
        any::<bool>(),
        0u8..3,
        (0u64..4, 0u8..6),
    )
        .prop_map(|(pop, empty_stack, id, registered, evaluator, outer, below, (jitter, placement))| StepCase { pop, empty_stack, id, registered, evaluator, outer, below, jitter, placement })
}

fn run_strategy(k: usize) -> impl Strategy<Value = RunCase> {
    (run_spec_strategy(Some(k), 12), prop_oneof![3 => Just(None), 2 => (0u32..120).prop_map(Some)], prop_oneof![3 => Just(None), 2 => prop_oneof![Just(1u8), Just(2), Just(4), Just(16)].prop_map(Some)]).prop_map(|(spec, budget, parallel_threads)| RunCase { spec, budget, parallel_threads })
}

pub fn run_all(ctx: &mut Ctx, replay: Option<&Path>) {
    ctx.rule("(a) component-level: a configuration consisting of one evaluation step with identifier Global/A/B, run (init, require, execute) on a prepared state: population 0-12 (unevaluated / correctly / stale evaluated individuals, duplicates by value), empty stack, 0-2 populations below, evaluator Sequential / Parallel inside a rayon pool of 1/2/4/16 threads (with latency jitter) / a recording harness evaluator / a harness evaluator that evaluates 0-4 probes of its own and adds them to the counter itself (the step then adds the population size on top), registered under the requested identifier, another one, or not at all, in the same or an outer scope; oracle: same individuals in the same order, all carrying f(solution), Evaluations == population size, objective call log == population as a multiset, evaluator back in the scope it came from, missing evaluator => Err before any objective call; non-trivial = population >= 2 with a registered evaluator. (a') shadowed evaluators (exhaustive): evaluation steps before, inside and after a scope whose initialiser registers its own evaluator under the same identifier; every step must apply the evaluator its scope resolves (innermost), the run's evaluator must be applied again after the scope, counts exact. (b) run-level: every template, iteration- or evaluation-budget-bounded, sequential or parallel: the same audit around every PopulationEvaluator step (observer Before/After), reported evaluations == objective calls at the end, budget overshoot < one pass; non-trivial = run with an evaluation step on >= 2 individuals; distinct by case");
    ctx.assume("rayon's scheduler is not owned by the harness: pool sizes and objective latency jitter perturb completion order (counted), they do not enumerate it");
    let s = StepCheck;
    if let Some(p) = replay {
        if ctx.replay_file(&s, p) || ctx.replay_file(&ShadowCheck, p) {
            return;
        }
        for k in 0..21 {
            if ctx.replay_file(&RunCheck(k), p) {
                return;
            }
        }
        return;
    }
    ctx.regressions(&s);
    ctx.random(&s, step_strategy(), ctx.tier.pick(20_000, 200_000));
    let sh = ShadowCheck;
    ctx.regressions(&sh);
    ctx.exhaustive(
        &sh,
        "population 0-3 x identifier Global/A/B x 0-2 steps before x 1-3 steps inside the scope that registers its own evaluator x 0-3 steps after x 0-2 enclosing plain scopes x {scope registers its own evaluator, scope uses the run's evaluator}",
        (0u8..4).flat_map(|n| (0u8..3).flat_map(move |id| (0u8..3).flat_map(move |pre| (0u8..3).flat_map(move |inner| (0u8..4).flat_map(move |post| (0u8..3).flat_map(move |nest| [false, true].into_iter().map(move |plain| ShadowCase { n, id, pre, inner, post, nest, plain }))))))),
    );
    let per = ctx.tier.pick(150, 1500);
    for k in 0..21 {
        let r = RunCheck(k);
        ctx.regressions(&r);
        ctx.random(&r, run_strategy(k), per);
    }
}
