//! C04 — the population stack is a faithful LIFO stack.

use std::path::Path;

use mahf::{
    Random,
    components::utils::populations::{ClearPopulation, DuplicatePopulation, InterleavePopulations, RotatePopulations, SplitPopulationByObjectiveValue},
    state::common::Populations,
    Component, Individual, State,
};
use proptest::prelude::*;
use serde::{Deserialize, Serialize};

use crate::{
    engine::{catch, Check, Ctx, Outcome},
    ensure_that, fail,
    fixtures::problems::{RealKind, RealP},
};

/// (tag, objective) — the tag lives in coordinate 0 of the solution.
pub type Ind = (u16, Option<i8>);
pub type Pop = Vec<Ind>;

#[derive(Clone, Debug, Serialize, Deserialize, PartialEq)]
pub enum Op {
    Push(Pop),
    Pop,
    TryPop,
    /// `rotate(n)` on `Populations`, only generated for 1 <= n <= height (resolved modulo at run time)
    Rotate(u8),
    /// `current_mut().push(ind)`
    EditPush(Ind),
    /// `current_mut().remove(0)` if non-empty
    EditRemoveFirst,
    /// `get_current_mut()` and reverse the population
    EditReverse,
    /// `current_mut()[0].solution_mut()[0] = tag`
    EditRetag(u16),
    CompRotate(u8),
    /// the next component operation is executed inside that many (1-3) nested scopes; the stack lives outside them
    Nest(u8),
    /// inside 1-3 nested scopes (none of them holds a stack of its own) the stack is reached through
    /// 0: `populations_mut()`, 1: `get_multiple_mut::<(Random, Populations)>()`, 2: the entry API; the individual is
    /// pushed to the current population (a new population is pushed if the stack is empty)
    ScopedEdit(u8, u8, Ind),
    /// inside a nested scope that holds a stack of its own (one marker population): `get_multiple_mut::<(Random,
    /// Populations)>()` - the generator lives outside - reaches the inner stack; the outer one is untouched
    ShadowedAccess(u8),
    /// inside 1-3 nested scopes the stack is taken out with `State::holding`, edited (an individual pushed to the current
    /// population / a new population pushed) and the closure then FAILS: the error is reported, the edited stack is
    /// back in the scope it came from
    ScopedHoldFail(u8, Ind),
    CompClear,
    CompDuplicate,
    CompInterleave,
    CompSplit,
}

fn ind(i: &Ind) -> Individual<RealP> {
    match i.1 {
        Some(o) => Individual::new(vec![i.0 as f64], (o as f64).try_into().unwrap()),
        None => Individual::new_unevaluated(vec![i.0 as f64]),
    }
}

fn view(i: &Individual<RealP>) -> (f64, Option<f64>) {
    (i.solution()[0], i.get_objective().map(|o| o.value()))
}

fn mview(i: &Ind) -> (f64, Option<f64>) {
    (i.0 as f64, i.1.map(|o| o as f64))
}

fn read_stack(ps: &Populations<RealP>) -> Vec<Vec<(f64, Option<f64>)>> {
    // bottom .. top
    let n = ps.len();
    (0..n).rev().map(|d| ps.try_peek(d).map(|p| p.iter().map(view).collect()).unwrap_or_default()).collect()
}

/// Executes `comp`, wrapped in `nest` nested scopes, on `state`.
fn exec_nested(comp: Box<dyn Component<RealP>>, nest: u8, problem: &RealP, state: &mut State<RealP>, step: usize) -> Result<mahf::ExecResult<()>, crate::engine::Failure> {
    let mut comp = comp;
    for _ in 0..nest {
        comp = mahf::components::Scope::new(vec![comp]);
    }
    match catch(|| comp.execute(problem, state)) {
        Ok(r) => {
            if state.try_borrow::<Populations<RealP>>().is_err() {
                fail!("C04 component loses the population stack", "step {step}: after a stack component executed inside {nest} nested scope(s) the state holds no population stack");
            }
            Ok(r)
        }
        Err(p) => fail!("C04 stack component panics", "step {step}: panicked inside {nest} nested scope(s): {p}"),
    }
}

pub struct StackCheck;

const NAME: &str = "C04/stack-history";

/// Full probe of every read accessor against the model (bottom..top).
fn probe(state: &State<RealP>, model: &[Pop], step: usize, op: &Op) -> Result<(), crate::engine::Failure> {
    let h = model.len();
    {
        let ps = state.populations();
        ensure_that!(ps.len() == h, "C04 len", "step {step} {op:?}: len() = {} but the model stack has height {h}", ps.len());
        ensure_that!(ps.is_empty() == (h == 0), "C04 is_empty", "step {step} {op:?}: is_empty() = {} at height {h}", ps.is_empty());
        // depths far beyond any stack, up to the end of the index type, are "too shallow" as well
        for d in [usize::MAX, usize::MAX - 1, usize::MAX / 2 + 1, 1usize << 32, 1000] {
            match catch(|| ps.try_peek(d).is_none()) {
                Ok(true) => {}
                Ok(false) => fail!("C04 try_peek", "step {step} {op:?}: try_peek({d}) returned a population at height {h}"),
                Err(p) => fail!("C04 try_peek panics", "step {step} {op:?}: try_peek({d}) panicked at height {h} instead of returning None: {p}"),
            }
        }
        for d in 0..h + 2 {
            let got = ps.try_peek(d).map(|p| p.iter().map(view).collect::<Vec<_>>());
            let want = if d < h { Some(model[h - 1 - d].iter().map(mview).collect::<Vec<_>>()) } else { None };
            ensure_that!(got == want, "C04 try_peek", "step {step} {op:?}: try_peek({d}) = {got:?}, the model holds {want:?} (height {h})");
        }
        let cur = ps.get_current().map(|p| p.iter().map(view).collect::<Vec<_>>());
        let want = model.last().map(|p| p.iter().map(mview).collect::<Vec<_>>());
        ensure_that!(cur == want, "C04 get_current", "step {step} {op:?}: get_current() = {cur:?}, model top = {want:?}");
    }
    // panicking accessors panic exactly when too shallow (under the fuzzer, where a panic costs ~50 us because of
    // sanitizer-instrumented unwinding, only every 8th step)
    if crate::engine::LIGHT_PROBES.load(std::sync::atomic::Ordering::Relaxed) && step % 8 != 0 {
        return Ok(());
    }
    for d in [0usize, h.saturating_sub(1), h, h + 1] {
        let r = catch(|| {
            let ps = state.populations();
            ps.peek(d).iter().map(view).collect::<Vec<_>>()
        });
        match (r, d < h) {
            (Ok(v), true) => {
                let want: Vec<_> = model[h - 1 - d].iter().map(mview).collect();
                ensure_that!(v == want, "C04 peek", "step {step} {op:?}: peek({d}) = {v:?}, model {want:?}");
            }
            (Err(_), false) => {}
            (Ok(v), false) => fail!("C04 peek beyond height", "step {step} {op:?}: peek({d}) returned {v:?} at height {h}"),
            (Err(p), true) => fail!("C04 peek panics within height", "step {step} {op:?}: peek({d}) panicked at height {h}: {p}"),
        }
    }
    // the lens on the size of the current population (used by conditions and log entries) reads the TOP population
    if h > 0 {
        use mahf::lens::Lens;
        static P: std::sync::OnceLock<RealP> = std::sync::OnceLock::new();
        let problem = P.get_or_init(|| RealP::new(1, -1.0, 1.0, RealKind::Tag));
        let got = mahf::lens::common::PopulationSizeLens::<RealP>::new().get(problem, state).ok();
        ensure_that!(got == Some(model[h - 1].len() as u32), "C04 population-size lens", "step {step} {op:?}: PopulationSizeLens reads {got:?}, the current (top) population holds {} individuals (stack heights bottom..top: {:?})", model[h - 1].len(), model.iter().map(|p| p.len()).collect::<Vec<_>>());
    }
    let r = catch(|| {
        let ps = state.populations();
        ps.current().iter().map(view).collect::<Vec<_>>()
    });
    match (r, h > 0) {
        (Ok(v), true) => {
            let want: Vec<_> = model[h - 1].iter().map(mview).collect();
            ensure_that!(v == want, "C04 current", "step {step} {op:?}: current() = {v:?}, model {want:?}");
        }
        (Err(_), false) => {}
        (Ok(v), false) => fail!("C04 current on empty", "step {step} {op:?}: current() returned {v:?} on an empty stack"),
        (Err(p), true) => fail!("C04 current panics", "step {step} {op:?}: current() panicked at height {h}: {p}"),
    }
    Ok(())
}

impl Check for StackCheck {
    type Case = Vec<Op>;
    fn name(&self) -> String {
        NAME.into()
    }
    fn classes(&self) -> &'static [&'static str] {
        &["height>=3", "rotate 2<=n<=height", "rotate n==height", "pop on empty", "component op", "edit in place", "split with tie", "component executed inside nested scopes", "stack edited from inside nested scopes (accessor / multiple lookup / entry API)", "scope with a stack of its own", "stack held from inside nested scopes by a closure that fails"]
    }
    fn oracle(&self, ops: &Vec<Op>) -> Outcome {
        let mut classes = 0u64;
        let r = run(ops, &mut classes);
        let nontrivial = classes & 0b11 == 0b11;
        Outcome::new(nontrivial, classes, r)
    }
}

fn run(ops: &[Op], classes: &mut u64) -> Result<(), crate::engine::Failure> {
    let problem = RealP::new(1, -1.0, 1.0, RealKind::Tag);
    let mut state: State<RealP> = State::new();
    state.insert(Populations::<RealP>::new());
    state.insert(Random::new(1));
    let mut model: Vec<Pop> = Vec::new();
    probe(&state, &model, 0, &Op::TryPop)?;
    let mut nest = 0u8;
    for (k, op) in ops.iter().enumerate() {
        let step = k + 1;
        let h = model.len();
        // a pending `Nest` applies to the next operation only
        let nest_now = if matches!(op, Op::Nest(_)) { 0 } else { std::mem::take(&mut nest) };
        if nest_now > 0 && matches!(op, Op::CompRotate(_) | Op::CompClear | Op::CompDuplicate | Op::CompInterleave | Op::CompSplit) {
            *classes |= 1 << 7;
        }
        match op {
            Op::Nest(k) => nest = 1 + k % 3,
            Op::ScopedEdit(depth, how, i) => {
                *classes |= 1 << 8;
                let depth = 1 + depth % 3;
                let how = how % 3;
                fn go(st: &mut State<RealP>, depth: u8, how: u8, i: &Ind) -> mahf::ExecResult<()> {
                    if depth > 0 {
                        return st.with_inner_state(|inner| go(inner, depth - 1, how, i)).map(|_| ());
                    }
                    let edit = |ps: &mut Populations<RealP>| {
                        if ps.is_empty() {
                            ps.push(vec![ind(i)]);
                        } else {
                            ps.current_mut().push(ind(i));
                        }
                    };
                    match how {
                        0 => edit(&mut st.populations_mut()),
                        1 => {
                            let (_rng, ps) = st.try_get_multiple_mut::<(Random, Populations<RealP>)>()?;
                            edit(ps);
                        }
                        _ => {
                            let mut e = st.entry::<Populations<RealP>>().or_default();
                            edit(&mut e);
                        }
                    }
                    Ok(())
                }
                let r = catch(|| go(&mut state, depth, how, i));
                ensure_that!(matches!(r, Ok(Ok(()))), "C04 stack access inside nested scopes fails", "step {step} {op:?}: {r:?}");
                if h == 0 {
                    model.push(vec![*i]);
                } else {
                    model[h - 1].push(*i);
                }
            }
            Op::ScopedHoldFail(depth, i) => {
                *classes |= 1 << 10;
                let depth = 1 + depth % 3;
                fn go(st: &mut State<RealP>, depth: u8, i: &Ind) -> mahf::ExecResult<()> {
                    if depth > 0 {
                        // the scope's own clean-up must not hide where the stack went: handle the error inside
                        let mut seen = None;
                        st.with_inner_state(|inner| {
                            seen = Some(go(inner, depth - 1, i));
                            Ok(())
                        })?;
                        return seen.unwrap_or(Ok(()));
                    }
                    st.holding::<Populations<RealP>>(|ps, _rest| {
                        if ps.is_empty() {
                            ps.push(vec![ind(i)]);
                        } else {
                            ps.current_mut().push(ind(i));
                        }
                        Err(eyre::eyre!("injected failure while the stack is held"))
                    })
                }
                let r = catch(|| go(&mut state, depth, i));
                ensure_that!(matches!(r, Ok(Err(_))), "C04 holding swallows the closure's error", "step {step} {op:?}: {:?}", r.map(|x| x.is_ok()));
                ensure_that!(state.try_borrow::<Populations<RealP>>().is_ok() && state.contains_at_top::<Populations<RealP>>(), "C04 component loses the population stack", "step {step} {op:?}: after a failed closure the population stack is not back in the scope it was taken from");
                if h == 0 {
                    model.push(vec![*i]);
                } else {
                    model[h - 1].push(*i);
                }
            }
            Op::ShadowedAccess(depth) => {
                *classes |= 1 << 9;
                let depth = 1 + depth % 2;
                fn go(st: &mut State<RealP>, depth: u8) -> mahf::ExecResult<Vec<f64>> {
                    if depth > 1 {
                        let mut out = Vec::new();
                        st.with_inner_state(|inner| {
                            out = go(inner, depth - 1)?;
                            Ok(())
                        })?;
                        return Ok(out);
                    }
                    let mut out = Vec::new();
                    st.with_inner_state(|inner| {
                        let mut own = Populations::<RealP>::new();
                        own.push(vec![ind(&(999, None))]);
                        inner.insert(own);
                        let (_rng, ps) = inner.try_get_multiple_mut::<(Random, Populations<RealP>)>()?;
                        out = ps.current().iter().map(|i| i.solution()[0]).collect();
                        ps.current_mut().push(ind(&(998, None)));
                        Ok(())
                    })?;
                    Ok(out)
                }
                match catch(|| go(&mut state, depth)) {
                    Ok(Ok(seen)) => ensure_that!(seen == vec![999.0], "C04 shadowed stack not reached", "step {step} {op:?}: inside a scope with its own stack, the multiple lookup (Random, Populations) reached a stack whose current population is {seen:?}, expected the scope's own [999]"),
                    r => fail!("C04 stack access inside nested scopes fails", "step {step} {op:?}: {r:?}"),
                }
            }
            Op::Push(p) => {
                state.populations_mut().push(p.iter().map(ind).collect());
                model.push(p.clone());
            }
            Op::Pop => {
                let r = catch(|| state.populations_mut().pop().iter().map(view).collect::<Vec<_>>());
                match (r, model.pop()) {
                    (Ok(v), Some(m)) => {
                        let want: Vec<_> = m.iter().map(mview).collect();
                        ensure_that!(v == want, "C04 pop", "step {step}: pop() returned {v:?}, model top was {want:?}");
                    }
                    (Err(_), None) => *classes |= 1 << 3,
                    (Ok(v), None) => fail!("C04 pop on empty", "step {step}: pop() on an empty stack returned {v:?}"),
                    (Err(p), Some(_)) => fail!("C04 pop panics", "step {step}: pop() panicked at height {h}: {p}"),
                }
            }
            Op::TryPop => {
                let r = catch(|| state.populations_mut().try_pop().map(|p| p.iter().map(view).collect::<Vec<_>>()));
                let want = model.pop().map(|m| m.iter().map(mview).collect::<Vec<_>>());
                if want.is_none() {
                    *classes |= 1 << 3;
                }
                match r {
                    Ok(v) => ensure_that!(v == want, "C04 try_pop", "step {step}: try_pop() = {v:?}, model {want:?}"),
                    Err(p) => fail!("C04 try_pop panics", "step {step}: try_pop() panicked at height {h}: {p}"),
                }
            }
            Op::Rotate(n) | Op::CompRotate(n) => {
                let is_comp = matches!(op, Op::CompRotate(_));
                let n = *n as usize;
                if is_comp {
                    *classes |= 1 << 4;
                    let comp = RotatePopulations::from_params(n);
                    let r = exec_nested(Box::new(comp), nest_now, &problem, &mut state, step)?;
                    if n > h {
                        match r {
                            Err(_) => {}
                            Ok(()) => fail!("C04 RotatePopulations too shallow accepted", "step {step}: RotatePopulations({n}) returned Ok at height {h}"),
                        }
                        probe(&state, &model, step, op)?;
                        continue;
                    }
                    match r {
                        Ok(()) => {}
                        Err(e) => fail!("C04 RotatePopulations err within height", "step {step}: RotatePopulations({n}) erred at height {h}: {e}"),
                    }
                } else {
                    if n > h {
                        continue; // outside the stated domain 0..=height
                    }
                    let r = catch(|| state.populations_mut().rotate(n));
                    if let Err(p) = r {
                        fail!("C04 rotate panics within height", "step {step}: rotate({n}) panicked at height {h}: {p}");
                    }
                }
                if n >= 2 {
                    *classes |= 1 << 1;
                }
                if n == h {
                    *classes |= 1 << 2;
                }
                let before = model.clone();
                if n > 0 {
                    model[h - n..h].rotate_right(1);
                }
                let got = read_stack(&state.populations());
                let want: Vec<Vec<_>> = model.iter().map(|p| p.iter().map(mview).collect()).collect();
                if got != want {
                    fail!(
                        "C04 rotate window",
                        "step {step}: rotate({n}) at height {h}: expected the top {n} populations shifted by one ([.., p3, p2, p1] -> [.., p1, p3, p2]), everything below untouched.\n before (bottom..top): {before:?}\n got: {got:?}\n want: {want:?}"
                    );
                }
                // metamorphic: n-1 further rotations restore the original order
                if !is_comp && n > 0 {
                    for _ in 0..n - 1 {
                        state.populations_mut().rotate(n);
                    }
                    let got = read_stack(&state.populations());
                    let orig: Vec<Vec<_>> = before.iter().map(|p| p.iter().map(mview).collect()).collect();
                    ensure_that!(got == orig, "C04 rotate n times", "step {step}: {n} successive rotate({n}) do not restore the order: {got:?} vs {orig:?}");
                    // and one more brings us back to the model state
                    state.populations_mut().rotate(n);
                }
            }
            Op::EditPush(i) => {
                if h == 0 {
                    let r = catch(|| state.populations_mut().current_mut().len());
                    ensure_that!(r.is_err(), "C04 current_mut on empty", "step {step}: current_mut() did not panic on an empty stack");
                    let none = state.populations_mut().get_current_mut().is_none();
                    ensure_that!(none, "C04 get_current_mut on empty", "step {step}: get_current_mut() is Some on an empty stack");
                    continue;
                }
                *classes |= 1 << 5;
                state.populations_mut().current_mut().push(ind(i));
                model[h - 1].push(*i);
            }
            Op::EditRemoveFirst => {
                if h == 0 || model[h - 1].is_empty() {
                    continue;
                }
                *classes |= 1 << 5;
                state.populations_mut().current_mut().remove(0);
                model[h - 1].remove(0);
            }
            Op::EditReverse => {
                let mut ps = state.populations_mut();
                match ps.get_current_mut() {
                    Some(p) => {
                        ensure_that!(h > 0, "C04 get_current_mut on empty", "step {step}: get_current_mut() is Some on an empty stack");
                        p.reverse();
                        model[h - 1].reverse();
                        *classes |= 1 << 5;
                    }
                    None => ensure_that!(h == 0, "C04 get_current_mut", "step {step}: get_current_mut() is None at height {h}"),
                }
            }
            Op::EditRetag(t) => {
                if h == 0 || model[h - 1].is_empty() {
                    continue;
                }
                *classes |= 1 << 5;
                state.populations_mut().current_mut()[0].solution_mut()[0] = *t as f64;
                model[h - 1][0] = (*t, None);
            }
            Op::CompClear => {
                if h == 0 {
                    continue;
                }
                *classes |= 1 << 4;
                let r = exec_nested(Box::new(ClearPopulation), nest_now, &problem, &mut state, step)?;
                ensure_that!(r.is_ok(), "C04 ClearPopulation", "step {step}: ClearPopulation failed: {r:?}");
                model[h - 1].clear();
            }
            Op::CompDuplicate => {
                // (size cap: repeated duplication doubles the population every time)
                if h == 0 || model[h - 1].len() > 64 {
                    continue;
                }
                *classes |= 1 << 4;
                let r = exec_nested(Box::new(DuplicatePopulation), nest_now, &problem, &mut state, step)?;
                ensure_that!(r.is_ok(), "C04 DuplicatePopulation", "step {step}: DuplicatePopulation failed: {r:?}");
                let top = model[h - 1].clone();
                model[h - 1] = top.iter().flat_map(|i| [*i, *i]).collect();
            }
            Op::CompInterleave => {
                if h < 2 {
                    continue;
                }
                *classes |= 1 << 4;
                let r = exec_nested(Box::new(InterleavePopulations), nest_now, &problem, &mut state, step)?;
                ensure_that!(r.is_ok(), "C04 InterleavePopulations", "step {step}: InterleavePopulations failed: {r:?}");
                let p1 = model.pop().unwrap();
                let p2 = model.pop().unwrap();
                let mut out = Vec::new();
                let (mut a, mut b) = (p1.iter(), p2.iter());
                loop {
                    let x = a.next();
                    let y = b.next();
                    if x.is_none() && y.is_none() {
                        break;
                    }
                    out.extend(x);
                    out.extend(y);
                }
                // itertools::interleave alternates strictly only while both have elements, then continues with the rest
                model.push(out);
                // compare as multiset + check alternation prefix, then resync exact order from the implementation
                let got: Vec<_> = state.populations().current().iter().map(view).collect();
                let mut g = got.clone();
                let mut w: Vec<_> = model[h - 2].iter().map(mview).collect();
                g.sort_by(|a, b| a.partial_cmp(b).unwrap());
                w.sort_by(|a, b| a.partial_cmp(b).unwrap());
                ensure_that!(g == w, "C04 InterleavePopulations content", "step {step}: interleave lost or invented individuals: {got:?}");
                let want: Vec<_> = model[h - 2].iter().map(mview).collect();
                ensure_that!(got == want, "C04 InterleavePopulations order", "step {step}: interleave order {got:?}, expected alternating {want:?}");
            }
            Op::CompSplit => {
                if h == 0 || model[h - 1].len() < 2 || model[h - 1].iter().any(|i| i.1.is_none()) {
                    continue;
                }
                *classes |= 1 << 4;
                let r = exec_nested(Box::new(SplitPopulationByObjectiveValue), nest_now, &problem, &mut state, step)?;
                ensure_that!(r.is_ok(), "C04 SplitPopulationByObjectiveValue", "step {step}: split failed: {r:?}");
                let top = model.pop().unwrap();
                let n = top.len();
                let ps = state.populations();
                ensure_that!(ps.len() == h + 1, "C04 split height", "step {step}: split left height {} (expected {})", ps.len(), h + 1);
                let lower: Vec<_> = ps.peek(0).iter().map(view).collect();
                let upper: Vec<_> = ps.peek(1).iter().map(view).collect();
                ensure_that!(lower.len() == (n + 1) / 2 && upper.len() == n / 2, "C04 split sizes", "step {step}: split sizes {} / {} for n = {n}", lower.len(), upper.len());
                let mut all: Vec<_> = lower.iter().chain(upper.iter()).cloned().collect();
                let sorted_ok = all.windows(2).all(|w| w[0].1 <= w[1].1);
                ensure_that!(sorted_ok, "C04 split order", "step {step}: lower ++ upper is not sorted by objective: {all:?}");
                let mut w: Vec<_> = top.iter().map(mview).collect();
                if top.iter().map(|x| x.1).collect::<std::collections::BTreeSet<_>>().len() < top.len() {
                    *classes |= 1 << 6;
                }
                all.sort_by(|a, b| a.partial_cmp(b).unwrap());
                w.sort_by(|a, b| a.partial_cmp(b).unwrap());
                ensure_that!(all == w, "C04 split content", "step {step}: split lost or invented individuals");
                // resync the model (ties make the exact order unspecified)
                let back = |v: &Vec<(f64, Option<f64>)>| v.iter().map(|x| (x.0 as u16, x.1.map(|o| o as i8))).collect::<Pop>();
                model.push(back(&upper));
                model.push(back(&lower));
            }
        }
        if model.len() >= 3 {
            *classes |= 1;
        }
        probe(&state, &model, step, op)?;
    }
    Ok(())
}

fn catalogue() -> Vec<Pop> {
    vec![vec![(1, Some(5))], vec![(2, Some(3)), (3, Some(3))], vec![]]
}

fn exhaustive_alphabet() -> Vec<Op> {
    let c = catalogue();
    vec![
        Op::Push(c[0].clone()),
        Op::Push(c[1].clone()),
        Op::Push(c[2].clone()),
        Op::Pop,
        Op::TryPop,
        Op::Rotate(1),
        Op::Rotate(2),
        Op::Rotate(3),
        Op::Rotate(4),
        Op::EditPush((9, None)),
        Op::EditReverse,
        Op::CompRotate(0),
        Op::CompRotate(2),
        Op::CompRotate(3),
        Op::Nest(1),
        Op::ScopedEdit(1, 1, (7, None)),
        Op::ScopedEdit(1, 2, (8, Some(1))),
        Op::CompDuplicate,
        Op::CompInterleave,
        Op::CompSplit,
        Op::CompClear,
    ]
}

/// All histories over the alphabet with length exactly 0..=l (DFS order, shortest first per prefix).
pub struct Histories {
    alphabet: Vec<Op>,
    idx: Vec<usize>,
    l: usize,
    done: bool,
    started: bool,
}

impl Histories {
    pub fn new(alphabet: Vec<Op>, l: usize) -> Self {
        Self { alphabet, idx: Vec::new(), l, done: false, started: false }
    }
}

impl Iterator for Histories {
    type Item = Vec<Op>;
    fn next(&mut self) -> Option<Vec<Op>> {
        if self.done {
            return None;
        }
        if !self.started {
            self.started = true;
            return Some(Vec::new());
        }
        // next in length-lexicographic order (shortlex)
        let a = self.alphabet.len();
        let mut i = self.idx.len();
        loop {
            if i == 0 {
                // all positions overflowed: grow
                let n = self.idx.len() + 1;
                if n > self.l {
                    self.done = true;
                    return None;
                }
                self.idx = vec![0; n];
                break;
            }
            i -= 1;
            if self.idx[i] + 1 < a {
                self.idx[i] += 1;
                for j in i + 1..self.idx.len() {
                    self.idx[j] = 0;
                }
                break;
            }
        }
        Some(self.idx.iter().map(|&k| self.alphabet[k].clone()).collect())
    }
}

fn ind_strategy() -> impl Strategy<Value = Ind> {
    (0u16..40, prop_oneof![Just(None), (-3i8..4).prop_map(Some)])
}

fn evaluated_ind() -> impl Strategy<Value = Ind> {
    (0u16..40, (-3i8..4).prop_map(Some))
}

fn pop_strategy() -> impl Strategy<Value = Pop> {
    prop_oneof![
        3 => proptest::collection::vec(ind_strategy(), 0..4),
        2 => proptest::collection::vec(evaluated_ind(), 2..5),
    ]
}

fn op_strategy() -> impl Strategy<Value = Op> {
    prop_oneof![
        6 => pop_strategy().prop_map(Op::Push),
        2 => Just(Op::Pop),
        2 => Just(Op::TryPop),
        5 => (0u8..6).prop_map(Op::Rotate),
        2 => ind_strategy().prop_map(Op::EditPush),
        1 => Just(Op::EditRemoveFirst),
        1 => Just(Op::EditReverse),
        1 => (0u16..40).prop_map(Op::EditRetag),
        2 => (0u8..7).prop_map(Op::CompRotate),
        2 => (0u8..3).prop_map(Op::Nest),
        2 => (0u8..3, 0u8..3, ind_strategy()).prop_map(|(d, h, i)| Op::ScopedEdit(d, h, i)),
        1 => (0u8..2).prop_map(Op::ShadowedAccess),
        1 => (0u8..3, ind_strategy()).prop_map(|(d, i)| Op::ScopedHoldFail(d, i)),
        1 => Just(Op::CompClear),
        1 => Just(Op::CompDuplicate),
        1 => Just(Op::CompInterleave),
        1 => Just(Op::CompSplit),
    ]
}

/// Deep stacks: heights far beyond what the history check reaches (up to 600), rotations of windows of every size
/// (resolved monotonically into 0..=height), pushes and pops in between; model = Vec of tags.
pub struct DeepStackCheck;

#[derive(Clone, Debug, Serialize, Deserialize, PartialEq)]
pub enum DeepOp {
    /// rotate(n) with n = frac * (height + 1) >> 16
    Rotate(u16),
    /// rotate(height - back) (windows just below the whole stack), skipped when back > height
    RotateNearFull(u8),
    Push,
    Pop,
}

impl Check for DeepStackCheck {
    type Case = (u16, Vec<DeepOp>);
    fn name(&self) -> String {
        "C04/deep-stack".into()
    }
    fn classes(&self) -> &'static [&'static str] {
        &["height>128", "partial window > 128", "partial window > 256", "whole-stack rotation at height > 128"]
    }
    fn oracle(&self, case: &Self::Case) -> Outcome {
        let mut classes = 0u64;
        let r = run_deep(case.0 as usize, &case.1, &mut classes);
        Outcome::new(classes & 0b10 != 0, classes, r)
    }
}

fn run_deep(height: usize, ops: &[DeepOp], classes: &mut u64) -> Result<(), crate::engine::Failure> {
    let mut ps = Populations::<RealP>::new();
    let mut model: Vec<u32> = Vec::new();
    let mut next = 0u32;
    let mk = |t: u32| vec![Individual::<RealP>::new_unevaluated(vec![t as f64]), Individual::<RealP>::new_unevaluated(vec![-(t as f64)])];
    for _ in 0..height {
        ps.push(mk(next));
        model.push(next);
        next += 1;
    }
    let read = |ps: &Populations<RealP>| -> Vec<u32> { (0..ps.len()).rev().map(|d| ps.try_peek(d).map(|p| if p.len() == 2 && p[1].solution()[0] == -p[0].solution()[0] { p[0].solution()[0] as u32 } else { u32::MAX }).unwrap_or(u32::MAX)).collect() };
    for (step, op) in ops.iter().enumerate() {
        let h = model.len();
        if h > 128 {
            *classes |= 1;
        }
        let n = match op {
            DeepOp::Rotate(f) => Some(((*f as usize) * (h + 1)) >> 16),
            DeepOp::RotateNearFull(b) => h.checked_sub(*b as usize),
            DeepOp::Push => {
                ps.push(mk(next));
                model.push(next);
                next += 1;
                None
            }
            DeepOp::Pop => {
                if h > 0 {
                    let got = catch(|| ps.pop());
                    let want = model.pop().unwrap();
                    match got {
                        Ok(p) => ensure_that!(p.len() == 2 && p[0].solution()[0] == want as f64, "C04 deep pop", "step {step}: pop() at height {h} returned a population tagged {:?}, the model's top is {want}", p.first().map(|i| i.solution()[0])),
                        Err(e) => fail!("C04 pop panics", "step {step}: pop() panicked at height {h}: {e}"),
                    }
                }
                None
            }
        };
        if let Some(n) = n {
            if n > 128 && n < h {
                *classes |= 2;
            }
            if n > 256 && n < h {
                *classes |= 4;
            }
            if n == h && h > 128 {
                *classes |= 8;
            }
            if let Err(e) = catch(|| ps.rotate(n)) {
                fail!("C04 rotate panics within height", "step {step}: rotate({n}) panicked at height {h}: {e}");
            }
            if n > 0 {
                model[h - n..h].rotate_right(1);
            }
        }
        ensure_that!(ps.len() == model.len(), "C04 len", "step {step} {op:?}: len() = {} but the model stack has height {}", ps.len(), model.len());
        let got = read(&ps);
        if got != model {
            let first = got.iter().zip(&model).position(|(a, b)| a != b);
            fail!("C04 rotate window", "step {step} {op:?} (n = {n:?}) at height {h}: the stack differs from the model from position {first:?} (bottom = 0): got {:?}.. want {:?}..", first.map(|i| &got[i..(i + 4).min(got.len())]), first.map(|i| &model[i..(i + 4).min(model.len())]));
        }
    }
    Ok(())
}

fn deep_strategy() -> impl Strategy<Value = (u16, Vec<DeepOp>)> {
    let op = prop_oneof![
        4 => any::<u16>().prop_map(DeepOp::Rotate),
        3 => (0u8..12).prop_map(DeepOp::RotateNearFull),
        1 => Just(DeepOp::Push),
        1 => Just(DeepOp::Pop),
    ];
    (prop_oneof![0u16..600, 120u16..140, 250u16..264], proptest::collection::vec(op, 1..12))
}

pub fn run_all(ctx: &mut Ctx, replay: Option<&Path>) {
    ctx.rule("case = history of population-stack operations executed against Populations (inside a State) and a Vec<Vec<_>> model in lock-step, with a full probe of len/is_empty/try_peek(0..h+1)/get_current/peek/current after every step; rotations of the top n populations for every n in 0..=height (n = 0 is the identity, also through the component on an empty stack); non-trivial = the history reaches height >= 3 and contains a rotate(n) with 2 <= n <= height; distinct by history");
    ctx.assume("rotate(n > height) is outside the stated domain and not generated for the direct call; RotatePopulations(n > height) must be an Err; rotating the top 0 populations (also on an empty stack) is the identity and must be accepted");
    ctx.assume("Clear/Duplicate/Interleave/Split components are only applied when their implicit preconditions hold (a current population; two populations; >= 2 evaluated individuals)");
    let k = StackCheck;
    if let Some(p) = replay {
        let _ = ctx.replay_file(&k, p) || ctx.replay_file(&DeepStackCheck, p);
        return;
    }
    ctx.regressions(&k);
    let l = ctx.tier.pick(4, 5);
    ctx.exhaustive(&k, &format!("all histories of length <= {l} over a 17-operation alphabet (3 tagged populations incl. the empty one, rotate(1..4), in-place edits, utility components)"), Histories::new(exhaustive_alphabet(), l));
    let n = ctx.tier.pick(3000, 50_000);
    ctx.random(&k, proptest::collection::vec(op_strategy(), 0..100), n);
    ctx.rule("deep stacks: a stack of 0..600 tagged two-individual populations, then up to 11 rotations (window size anywhere in 0..=height, and windows of height-0..11), pushes and pops, compared with a Vec model after every step; non-trivial = a partial window (n < height) of more than 128 populations was rotated");
    let n = ctx.tier.pick(1500, 30_000);
    ctx.random(&DeepStackCheck, deep_strategy(), n);
}
