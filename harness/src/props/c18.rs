//! C18 — particle swarm keeps velocities clamped and best memories consistent.

use std::{
    path::Path,
    sync::{Arc, Mutex},
};

use mahf::{
    components::swarm::pso::{BestParticle, BestParticles, InertiaWeight, ParticleVelocities, ParticleVelocitiesUpdate},
    identifier::Global,
    lens::ValueOf,
    state::common::{Iterations, Progress},
    Component, Individual, State,
};
use proptest::prelude::*;
use serde::{Deserialize, Serialize};

use crate::{
    engine::{catch, soft_fail, Check, Ctx, Failure, Outcome},
    ensure_that,
    fixtures::{
        problems::{hash_f64s, RealKind, RealP},
        run::{build_real, real_of, run_observed, Audit, EvalKind, Inst, Phase, StepEv, Tpl},
        state_with,
    },
};

#[derive(Clone, Debug, Serialize, Deserialize)]
pub struct PsoCase {
    pub n: u32,
    pub w0: f64,
    pub w1: f64,
    pub c1: f64,
    pub c2: f64,
    /// v_max as a multiple of the domain width
    pub vmax_rel: f64,
    pub dim: usize,
    pub kind: RealKind,
    pub lo: f64,
    pub hi: f64,
    pub iters: u32,
    pub seed: u64,
    /// Some(r): the run is assembled from the generic `pso` template with a swarm initialisation whose velocity range
    /// is r x domain width, independent of the update's v_max (the shipped `real_pso` uses v_max for both)
    #[serde(default)]
    pub vinit_rel: Option<f64>,
    /// (generic assembly only) bit 0: a sampling phase (60 random points, evaluated, best-so-far updated) runs before a
    /// fresh swarm is created, so a best-so-far individual that is not a particle exists when the swarm is initialised;
    /// bit 1: a second linear schedule with the same bounds, driven by the same progress, for the inertia weight of
    /// another (identifier A) velocity update runs right before the swarm's own schedule;
    /// bit 2: the state update is the custom block [global best update, personal bests update] (reversed order);
    /// bit 3: the loop condition is `LessThanN::evaluations(huge) | LessThanN::iterations(n)` (the iteration bound that
    /// feeds the progress stands second in a disjunction);
    /// bit 4: a log rule with the trigger `LessThanN::iterations(n / 2)` is registered, which the template's logger
    /// evaluates at the end of every pass
    #[serde(default)]
    pub extras: u8,
}

type W = InertiaWeight<ParticleVelocitiesUpdate<Global>>;

#[derive(Default)]
struct A18 {
    vmax: f64,
    c1: f64,
    c2: f64,
    w0: f64,
    w1: f64,
    failure: Option<Failure>,
    // snapshot before the velocity update
    snap: Option<(Vec<Vec<f64>>, Vec<Vec<f64>>, Vec<Vec<f64>>, Vec<f64>, f64)>,
    history: Vec<Vec<(f64, u64)>>,
    last_pbest: Vec<f64>,
    swarm_ready: bool,
    paired_linear: bool,
    iters: u32,
    clamped_steps: u32,
    pbest_improvements: u32,
    passes: u32,
    velocity_updates: u32,
    weight_updates: u32,
}

impl A18 {
    fn fail(&mut self, sig: &str, msg: String) {
        if self.failure.is_none() {
            self.failure = Some(Failure::new(format!("C18 {sig}"), msg));
        }
    }
}

impl Audit<RealP> for A18 {
    fn step(&mut self, _problem: &RealP, state: &State<RealP>, ev: &StepEv) {
        if self.failure.is_some() {
            return;
        }
        if ev.ends_main_pass {
            self.passes += 1;
        }
        let xs: Vec<Vec<f64>> = state.populations().get_current().map(|p| p.iter().map(|i| i.solution().clone()).collect()).unwrap_or_default();
        if ev.phase == Phase::Before && ev.name == "ParticleVelocitiesUpdate" {
            let vs = state.try_borrow::<ParticleVelocities<Global>>().map(|v| (**v).clone()).unwrap_or_default();
            let xps: Vec<Vec<f64>> = state.try_borrow::<BestParticles<RealP, Global>>().map(|b| b.iter().map(|i| i.solution().clone()).collect()).unwrap_or_default();
            let xg: Vec<f64> = state.try_borrow::<BestParticle<RealP, Global>>().ok().and_then(|b| b.as_ref().map(|i| i.solution().clone())).unwrap_or_default();
            let w = state.try_get_value::<W>().unwrap_or(f64::NAN);
            self.snap = Some((xs.clone(), vs, xps, xg, w));
        }
        if ev.phase != Phase::After {
            return;
        }
        // collection sizes: one entry per particle, always (once the swarm state is initialised)
        if self.swarm_ready && ev.ok {
            let nv = state.try_borrow::<ParticleVelocities<Global>>().map(|v| v.len()).unwrap_or(usize::MAX);
            let nb = state.try_borrow::<BestParticles<RealP, Global>>().map(|b| b.len()).unwrap_or(usize::MAX);
            // inside the loop body the current population is the swarm
            if ev.enclosing.iter().any(|e| e == "Loop") && (nv != xs.len() || nb != xs.len()) {
                return self.fail("collection sizes differ", format!("after {}: {} particles, {nv} velocities, {nb} personal bests", ev.name, xs.len()));
            }
        }
        match ev.name {
            "PopulationEvaluator" => {
                let ps = state.populations();
                if let Some(p) = ps.get_current() {
                    if self.history.len() != p.len() {
                        self.history = vec![Vec::new(); p.len()];
                    }
                    for (k, i) in p.iter().enumerate() {
                        if let Some(o) = i.get_objective() {
                            self.history[k].push((o.value(), hash_f64s(i.solution())));
                        }
                    }
                }
            }
            "ParticleVelocitiesUpdate" if ev.ok => {
                self.velocity_updates += 1;
                let Some((x0, v0, xp, xg, w)) = self.snap.take() else { return };
                let v1 = state.try_borrow::<ParticleVelocities<Global>>().map(|v| (**v).clone()).unwrap_or_default();
                let stored_w = state.try_get_value::<W>().unwrap_or(f64::NAN);
                if stored_w.to_bits() != w.to_bits() {
                    return self.fail("velocity update changes the inertia weight", format!("{w} -> {stored_w}"));
                }
                if v1.len() != x0.len() || xs.len() != x0.len() {
                    return self.fail("collection sizes differ", format!("velocity update: {} particles before, {} after, {} velocities", x0.len(), xs.len(), v1.len()));
                }
                let vmax = self.vmax;
                let mut any_clamped = false;
                for p in 0..x0.len() {
                    for d in 0..x0[p].len() {
                        let (vo, vn) = (v0[p][d], v1[p][d]);
                        if !(vn.abs() <= vmax) {
                            return self.fail("velocity exceeds v_max", format!("particle {p} dim {d}: |{vn}| > v_max = {vmax}"));
                        }
                        let moved = x0[p][d] + vn;
                        if xs[p][d].to_bits() != moved.to_bits() && xs[p][d] != moved {
                            return self.fail("particle did not move by exactly its new velocity", format!("particle {p} dim {d}: x {} -> {}, new velocity {vn} (x + v = {moved})", x0[p][d], xs[p][d]));
                        }
                        // interval hull of w*v_old + [0,c1](xp - x) + [0,c2](xg - x)
                        let a = self.c1 * (xp[p][d] - x0[p][d]);
                        let b = self.c2 * (xg[d] - x0[p][d]);
                        let base = w * vo;
                        let lo = base + a.min(0.0) + b.min(0.0);
                        let hi = base + a.max(0.0) + b.max(0.0);
                        let tol = 1e-9 * (1.0 + lo.abs().max(hi.abs()));
                        let clamped = vn.abs() == vmax;
                        any_clamped |= clamped;
                        let ok = if clamped {
                            (vn > 0.0 && hi >= vmax - tol) || (vn < 0.0 && lo <= -vmax + tol)
                        } else {
                            vn >= lo - tol && vn <= hi + tol
                        };
                        if !ok {
                            return self.fail(
                                "new velocity outside w*v_old + [0,c1](xp-x) + [0,c2](xg-x) with the stored inertia weight",
                                format!("particle {p} dim {d}: v_old {vo}, stored weight {w}, c1*(xp-x) = {a}, c2*(xg-x) = {b}: hull [{lo}, {hi}], v_max {vmax}, but v_new = {vn}"),
                            );
                        }
                        if self.c1 == 0.0 && self.c2 == 0.0 {
                            let want = (w * vo).clamp(-vmax, vmax);
                            if vn != want {
                                return self.fail("inertia-only velocity is not clamp(weight * v_old) with the stored weight", format!("particle {p} dim {d}: v_old {vo}, stored weight {w}: expected {want}, got {vn}"));
                            }
                        }
                    }
                }
                if any_clamped {
                    self.clamped_steps += 1;
                }
                let evaluated = state.populations().get_current().map(|p| p.iter().any(|i| i.is_evaluated())).unwrap_or(false);
                if evaluated {
                    return self.fail("moved particles keep their objective value", "after the velocity update a particle is still marked evaluated".into());
                }
            }
            "Linear" if ev.ok => {
                if self.paired_linear && ev.len == 2 && ev.index == 0 {
                    // the schedule of the other velocity update (first of the pair), not the swarm's
                    return;
                }
                self.weight_updates += 1;
                // the loop's current progress: completed passes / iteration bound (computed here, not read from the
                // progress state - a stale progress state would otherwise make a stale weight look right)
                let progress = state.try_get_value::<Iterations>().map(|i| f64::from(i) / f64::from(self.iters)).unwrap_or(f64::NAN);
                let stored = state.try_get_value::<Progress<ValueOf<Iterations>>>().unwrap_or(f64::NAN);
                if stored.to_bits() != progress.to_bits() {
                    return self.fail("progress state is not passes / iteration bound when the inertia weight is updated", format!("stored progress {stored}, iterations / n = {progress}"));
                }
                let want = (self.w1 - self.w0) * progress + self.w0;
                let got = state.try_get_value::<W>().unwrap_or(f64::NAN);
                if got.to_bits() != want.to_bits() {
                    return self.fail("inertia weight is not the linear interpolation at the current progress", format!("progress {progress}: weight {got}, expected (end - start) * progress + start = {want}"));
                }
            }
            // the swarm's memories are audited when a state update is complete: after whichever of the two update
            // components stands last in its block (the shipped update runs personal bests first, a custom one may not)
            "GlobalBestParticleUpdate" | "PersonalBestParticlesUpdate" if ev.ok && ev.index + 1 == ev.len => {
                self.swarm_ready = true;
                let bests: Vec<(f64, u64)> = state.try_borrow::<BestParticles<RealP, Global>>().map(|b| b.iter().map(|i| (i.objective().value(), hash_f64s(i.solution()))).collect()).unwrap_or_default();
                let g = state.try_borrow::<BestParticle<RealP, Global>>().ok().and_then(|b| b.as_ref().map(|i| (i.objective().value(), hash_f64s(i.solution()))));
                if bests.len() != self.history.len() && !self.history.is_empty() {
                    return self.fail("collection sizes differ", format!("{} personal bests for {} particles", bests.len(), self.history.len()));
                }
                for (k, (o, h)) in bests.iter().enumerate() {
                    let hist = &self.history[k];
                    let min = hist.iter().map(|x| x.0).fold(f64::INFINITY, f64::min);
                    if *o != min {
                        return self.fail("personal best is not the best evaluated position of that particle", format!("particle {k}: personal best objective {o}, minimum over its {} evaluated positions {min}", hist.len()));
                    }
                    if !hist.iter().any(|x| x.0 == *o && x.1 == *h) {
                        return self.fail("personal best was never a position of that particle", format!("particle {k}: objective {o}"));
                    }
                    if let Some(prev) = self.last_pbest.get(k) {
                        if o > prev {
                            return self.fail("personal best got worse", format!("particle {k}: {prev} -> {o}"));
                        }
                        if o < prev {
                            self.pbest_improvements += 1;
                        }
                    }
                }
                self.last_pbest = bests.iter().map(|b| b.0).collect();
                let min_p = bests.iter().map(|b| b.0).fold(f64::INFINITY, f64::min);
                match g {
                    Some((go, gh)) => {
                        if go != min_p {
                            return self.fail("global best differs from the best personal best", format!("global best {go}, best personal best {min_p}"));
                        }
                        if !bests.iter().any(|b| b.0 == go && b.1 == gh) && !bests.iter().any(|b| b.0 == go) {
                            return self.fail("global best is not one of the personal bests", format!("global best {go}"));
                        }
                    }
                    None => {
                        if !bests.is_empty() {
                            return self.fail("global best missing", "no global best although personal bests exist".into());
                        }
                    }
                }
            }
            _ => {}
        }
    }
}

pub struct PsoCheck;

impl Check for PsoCheck {
    type Case = PsoCase;
    fn name(&self) -> String {
        "C18/pso-run".into()
    }
    fn classes(&self) -> &'static [&'static str] {
        &["a velocity component was clamped", ">= 3 passes", "a personal best improved", "inertia only (c1 = c2 = 0)", "single particle", "v_max small relative to the domain", "initial velocities beyond the update's v_max", "a best-so-far individual that is not a particle exists before the swarm is created", "a second linear schedule with equal bounds runs right before the swarm's", "a log trigger bounds the same counter by n / 2"]
    }
    fn oracle(&self, c: &PsoCase) -> Outcome {
        let mut cl = 0;
        let r = pso_oracle(c, &mut cl);
        Outcome::new(cl & 1 != 0 || (cl & 2 != 0 && cl & 4 != 0), cl, r)
    }
}

fn pso_oracle(c: &PsoCase, cl: &mut u64) -> Result<(), Failure> {
    let width = c.hi - c.lo;
    let vmax = c.vmax_rel * width;
    let tpl = Tpl::Pso { n: c.n, w0: c.w0, w1: c.w1, c1: c.c1, c2: c.c2, vmax };
    let inst = Inst::Real { dim: c.dim, kind: c.kind, lo: c.lo, hi: c.hi };
    let problem = real_of(&inst);
    let built = match c.vinit_rel {
        None => build_real(&tpl, c.iters).unwrap(),
        Some(r) => generic_pso(c, r * width, vmax),
    };
    if c.vinit_rel.map_or(false, |r| r > c.vmax_rel) {
        *cl |= 64;
    }
    let cfg = match built {
        Ok(cfg) => cfg,
        Err(e) => return soft_fail(Failure::new("C18 real_pso constructor rejects valid parameters", format!("{c:?}: {e:#}"))),
    };
    if c.c1 == 0.0 && c.c2 == 0.0 {
        *cl |= 8;
    }
    if c.n == 1 {
        *cl |= 16;
    }
    if c.vmax_rel <= 0.01 {
        *cl |= 32;
    }
    let paired = c.vinit_rel.is_some() && c.extras & 2 != 0;
    if c.vinit_rel.is_some() && c.extras & 1 != 0 {
        *cl |= 128;
    }
    if paired {
        *cl |= 256;
    }
    if c.vinit_rel.is_some() && c.extras & 16 != 0 {
        *cl |= 512;
    }
    let audit = Arc::new(Mutex::new(A18 { vmax, c1: c.c1, c2: c.c2, w0: c.w0, w1: c.w1, paired_linear: paired, iters: c.iters, ..Default::default() }));
    let res = run_observed(&cfg, &problem, c.seed, EvalKind::Sequential, audit.clone());
    let a = audit.lock().unwrap();
    if a.clamped_steps > 0 {
        *cl |= 1;
    }
    if a.passes >= 3 {
        *cl |= 2;
    }
    if a.pbest_improvements > 0 {
        *cl |= 4;
    }
    if let Some(f) = &a.failure {
        let mut f = f.clone();
        f.msg = format!("{c:?}: {}", f.msg);
        return Err(f);
    }
    if let Err(e) = res {
        return soft_fail(Failure::new("C18 real_pso run fails", format!("{c:?}: {e}")));
    }
    ensure_that!(a.velocity_updates == c.iters && a.weight_updates == c.iters, "C18 number of swarm updates", "{c:?}: {} velocity updates and {} weight updates in {} iterations", a.velocity_updates, a.weight_updates, c.iters);
    Ok(())
}

/// `real_pso` re-assembled from the generic `pso` template, with its own velocity range for the swarm initialisation.
fn generic_pso(c: &PsoCase, v_init: f64, v_max: f64) -> mahf::ExecResult<mahf::Configuration<RealP>> {
    use mahf::{
        components::{boundary, initialization, mapping, swarm, Block},
        conditions::LessThanN,
        heuristics::pso::{pso, Parameters},
        identifier::A,
    };
    type WA = InertiaWeight<ParticleVelocitiesUpdate<A>>;
    let own = mapping::Linear::new(c.w0, c.w1, ValueOf::<Progress<ValueOf<Iterations>>>::new(), ValueOf::<W>::new());
    let schedule: Box<dyn Component<RealP>> = if c.extras & 2 != 0 {
        Block::new(vec![mapping::Linear::new(c.w0, c.w1, ValueOf::<Progress<ValueOf<Iterations>>>::new(), ValueOf::<WA>::new()), own])
    } else {
        own
    };
    let mut b = mahf::Configuration::builder();
    if c.extras & 1 != 0 {
        b = b.do_(initialization::RandomSpread::new(60)).evaluate().update_best_individual();
    }
    if c.extras & 2 != 0 {
        b = b.do_(Box::new(OtherWeight(c.w0)));
    }
    if c.extras & 16 != 0 {
        b = b.do_(Box::new(LogFirstHalf((c.iters / 2).max(1))));
    }
    Ok(b
        .do_(initialization::RandomSpread::new(c.n))
        .evaluate()
        .update_best_individual()
        .do_(pso::<RealP, Global>(
            Parameters {
                particle_init: swarm::pso::ParticleSwarmInit::new(v_init)?,
                particle_update: swarm::pso::ParticleVelocitiesUpdate::new(c.w0, c.c1, c.c2, v_max)?,
                constraints: boundary::Saturation::new(),
                inertia_weight_update: Some(schedule),
                state_update: if c.extras & 4 != 0 {
                    Block::new(vec![swarm::pso::GlobalBestParticleUpdate::<Global>::new(), swarm::pso::PersonalBestParticlesUpdate::<Global>::new()])
                } else {
                    swarm::pso::ParticleSwarmUpdate::new()
                },
            },
            if c.extras & 8 != 0 { LessThanN::evaluations(c.n * (1 + c.iters / 2)) | LessThanN::iterations(c.iters) } else { LessThanN::iterations(c.iters) },
        ))
        .build())
}

/// Registers a log rule "record the iteration counter while iterations < m": the template's logger evaluates the trigger
/// at the end of every pass, i.e. another `LessThanN` over the iteration counter runs between two tests of the loop
/// condition (and writes the same progress state, m < n).
#[derive(Clone, Serialize)]
struct LogFirstHalf(u32);
impl Component<RealP> for LogFirstHalf {
    fn init(&self, _p: &RealP, state: &mut State<RealP>) -> mahf::ExecResult<()> {
        let m = self.0;
        state.configure_log(|cfg| {
            cfg.with(mahf::conditions::LessThanN::iterations(m), ValueOf::<Iterations>::entry::<RealP>());
            Ok(())
        })
    }
    fn execute(&self, _p: &RealP, _state: &mut State<RealP>) -> mahf::ExecResult<()> {
        Ok(())
    }
}

/// Registers the inertia weight of a second (identifier A) velocity update, as a second swarm in the same state would.
#[derive(Clone, Serialize)]
struct OtherWeight(f64);
impl Component<RealP> for OtherWeight {
    fn init(&self, _p: &RealP, state: &mut State<RealP>) -> mahf::ExecResult<()> {
        state.insert(InertiaWeight::<ParticleVelocitiesUpdate<mahf::identifier::A>>::new(self.0));
        Ok(())
    }
    fn execute(&self, _p: &RealP, _state: &mut State<RealP>) -> mahf::ExecResult<()> {
        Ok(())
    }
}

#[derive(Clone, Debug, Serialize, Deserialize)]
pub struct MismatchCase {
    pub particles: u8,
    pub velocities: u8,
    pub bests: u8,
    pub has_global: bool,
}

pub struct MismatchCheck;

impl Check for MismatchCheck {
    type Case = MismatchCase;
    fn name(&self) -> String {
        "C18/mismatched-collections".into()
    }
    fn oracle(&self, c: &MismatchCase) -> Outcome {
        let problem = RealP::new(2, -1.0, 1.0, RealKind::Sphere);
        let mk = |n: u8| -> Vec<Individual<RealP>> { (0..n).map(|k| Individual::new(vec![k as f64 * 0.1, 0.2], 1.0.try_into().unwrap())).collect() };
        let mut st = state_with::<RealP>(vec![mk(c.particles)], 3);
        st.insert(ParticleVelocities::<Global>::new(vec![vec![0.1, 0.1]; c.velocities as usize]));
        st.insert(BestParticles::<RealP, Global>::new(mk(c.bests)));
        st.insert(BestParticle::<RealP, Global>::new(if c.has_global { Some(mk(1).remove(0)) } else { None }));
        let comp = ParticleVelocitiesUpdate::new::<RealP>(0.5, 1.0, 1.0, 0.5).unwrap();
        let r = catch(|| {
            comp.init(&problem, &mut st)?;
            comp.execute(&problem, &mut st)
        });
        let consistent = c.particles == c.velocities && c.particles == c.bests && c.has_global;
        let res = match (r, consistent) {
            (Ok(Ok(())), true) => Ok(()),
            (Ok(Err(_)), false) => Ok(()),
            (Ok(Ok(())), false) => Err(Failure::new("C18 velocity update accepts mismatched collections", format!("{c:?}: returned Ok"))),
            (Ok(Err(e)), true) => Err(Failure::new("C18 velocity update rejects consistent collections", format!("{c:?}: {e:#}"))),
            (Err(p), _) => Err(Failure::new("C18 velocity update panics", format!("{c:?}: {p}"))),
        };
        Outcome::new(!consistent, 0, res)
    }
}

fn pso_strategy(max_iters: u32) -> impl Strategy<Value = PsoCase> {
    (
        1u32..13,
        prop_oneof![Just(0.0), Just(1.0), 0.0f64..1.2],
        prop_oneof![Just(0.0), Just(0.4), 0.0f64..1.2],
        prop_oneof![2 => Just(0.0), 5 => 0.0f64..2.5],
        prop_oneof![2 => Just(0.0), 5 => 0.0f64..2.5],
        prop_oneof![Just(0.001), Just(0.1), Just(1.0), Just(10.0)],
        1usize..6,
        prop_oneof![2 => Just(RealKind::Sphere), 2 => Just(RealKind::Rastrigin), 2 => Just(RealKind::Slope), 2 => Just(RealKind::ShiftedOutside), 2 => Just(RealKind::Plateau), 3 => Just(RealKind::Infeasible)],
        prop_oneof![Just((-5.0, 5.0)), Just((0.0, 1.0)), Just((3.0, 7.0)), Just((-100.0, 100.0))],
        1u32..=max_iters,
        (any::<u64>(), prop_oneof![3 => Just(None), 2 => prop_oneof![Just(0.001), Just(0.1), Just(1.0), Just(10.0), Just(50.0)].prop_map(Some)], 0u8..32),
    )
        .prop_map(|(n, w0, w1, c1, c2, vmax_rel, dim, kind, (lo, hi), iters, (seed, vinit_rel, extras))| PsoCase { n, w0, w1, c1, c2, vmax_rel, dim, kind, lo, hi, iters, seed, vinit_rel, extras })
}

pub fn run_all(ctx: &mut Ctx, replay: Option<&Path>) {
    ctx.rule("case = real_pso run (swarm 1-12, dim 1-5, start/end weight in [0,1.2], c1/c2 in [0,2.5] incl. both 0, v_max in {0.001, 0.1, 1, 10} x domain width, 6 objective kinds incl. one that is +inf on half of the domain, 4 domains, 1-20 iterations, seed; a quarter of the runs assembled from the generic pso template with initial velocities drawn from a range independent of - also larger than - the update's v_max) optionally with a log rule whose trigger bounds the same iteration counter by n / 2 and is evaluated by the template's logger at the end of every pass) audited at every component step: after each velocity update |v| <= v_max, x_after == x_before + v_new exactly, particles unevaluated, v_new inside the interval hull w*v_old + [0,c1](xp-x) + [0,c2](xg-x) computed with the STORED inertia weight (exactly clamp(w*v_old) when c1 = c2 = 0); after each inertia mapping weight == (end-start)*progress+start bit-exactly with the loop's current progress; after each swarm update every personal best == min over that particle's evaluated history (harness-tracked), a member of it, never worse, global best == best personal best; one velocity / personal best per particle at every step; non-trivial = a step where a velocity component was clamped, or >= 3 passes with a personal-best improvement; plus direct velocity-update cases with mismatched collection sizes (documented errors); distinct by case");
    let p = PsoCheck;
    let m = MismatchCheck;
    if let Some(path) = replay {
        let _ = ctx.replay_file(&p, path) || ctx.replay_file(&m, path);
        return;
    }
    ctx.regressions(&p);
    ctx.regressions(&m);
    ctx.random(&p, pso_strategy(20), ctx.tier.pick(25_000, 120_000));
    ctx.exhaustive(&m, "particles, velocities, personal bests in 0..4 each x global best present/absent", (0u8..4).flat_map(|a| (0u8..4).flat_map(move |b| (0u8..4).flat_map(move |c| [false, true].into_iter().map(move |g| MismatchCase { particles: a, velocities: b, bests: c, has_global: g })))));
}
