//! C05 — objective values are never stale: an evaluated individual carries f(solution).
//!
//! (a) individual-level operation histories against an evaluated/unevaluated model,
//! (b) every component step of every run of every shipped template, through the step observer,
//! (c) single shipped components on prepared, evaluated populations.

use std::{
    path::Path,
    sync::{Arc, Mutex},
};

use mahf::{
    components::{boundary, mutation, recombination, replacement, selection, swarm},
    population::{AsSolutions, AsSolutionsMut, BestIndividual as BestOf, IntoIndividuals, IntoSingle, IntoSingleRef, IntoSolutions},
    state::common::{BestIndividual, Populations},
    Component, Configuration, ExecResult, Individual, SingleObjective, State,
};
use proptest::prelude::*;
use serde::{Deserialize, Serialize};

use crate::{
    engine::{catch, soft_fail, Check, Ctx, Failure, Outcome},
    ensure_that, fail,
    fixtures::{
        problems::{BitsP, Instrumented, RealKind, RealP, TspP},
        run::{run_observed_auto, dispatch, run_observed, run_spec_strategy, walk_individuals, Audit, EvalKind, Phase, RunSpec, RunVisitor, StepEv},
        state_with,
    },
    props::c16::TEMPLATE_NAMES,
};

// ------------------------------------------------------------------------------------------------
// (a) individual-level histories
// ------------------------------------------------------------------------------------------------

const SLOTS: usize = 3;

#[derive(Clone, Debug, Serialize, Deserialize, PartialEq)]
pub enum IOp {
    New(u8, i8),
    NewUnevaluated(u8, i8),
    EvaluateWith(u8),
    /// `evaluate_with` using a different objective function g(x) = f(x) + 100: the value must become g(solution)
    EvaluateWithOther(u8),
    SetObjective(u8),
    /// `solution_mut()` and write value v to coordinate 0
    MutWrite(u8, i8),
    /// `solution_mut()` without changing anything
    MutTouch(u8),
    Clone(u8, u8),
    /// `Clone::clone_from` (slot j takes over slot i, reusing j's allocation)
    CloneFrom(u8, u8),
    /// `Vec::clone_from` / `clone_from_slice` of the whole collection onto a rotated copy of itself
    VecCloneFrom,
    IntoSolutionRoundTrip(u8),
    /// read-only accessors on the whole collection
    AsSolutions,
    /// `as_solutions_mut()` on the whole collection (hands out &mut to every solution)
    AsSolutionsMut,
    /// move the collection into a population stack, rotate/pop it back
    ThroughPopulations,
    /// `into_single` / `into_single_ref` on a one-element copy of slot i
    IntoSingle(u8),
    /// `best_individual()` over the evaluated slots
    Best,
    IntoIndividuals(u8),
}

fn f(sol: &[f64]) -> f64 {
    sol.iter().map(|x| x * x + 1.0).sum()
}

fn obj(sol: &[f64]) -> SingleObjective {
    SingleObjective::try_from(f(sol)).unwrap()
}

pub struct IndCheck;

impl Check for IndCheck {
    type Case = Vec<IOp>;
    fn name(&self) -> String {
        "C05/individual-history".into()
    }
    fn classes(&self) -> &'static [&'static str] {
        &["solution_mut on an evaluated individual followed by a read", "as_solutions_mut on evaluated individuals", "clone of an evaluated individual", "through the population stack"]
    }
    fn oracle(&self, ops: &Vec<IOp>) -> Outcome {
        let mut cl = 0;
        let r = ind_oracle(ops, &mut cl);
        Outcome::new(cl & 1 != 0, cl, r)
    }
}

/// (solution, evaluated flag, offset of the objective function it was last evaluated with)
type M = Option<(Vec<f64>, bool, f64)>;

fn probe(inds: &[Option<Individual<RealP>>], model: &[M], at: &str) -> Result<(), Failure> {
    for (k, (i, m)) in inds.iter().zip(model).enumerate() {
        match (i, m) {
            (None, None) => {}
            (Some(i), Some((sol, ev, off))) => {
                ensure_that!(i.solution() == sol, "C05 solution differs from the model", "{at}: slot {k} solution {:?}, model {sol:?}", i.solution());
                ensure_that!(i.is_evaluated() == *ev, if *ev { "C05 individual lost its objective" } else { "C05 stale objective: individual still evaluated after its solution was handed out mutably" }, "{at}: slot {k}: is_evaluated() = {}, model says {ev}", i.is_evaluated());
                let got = i.get_objective().map(|o| o.value());
                let want = if *ev { Some(f(sol) + off) } else { None };
                ensure_that!(got == want, "C05 objective does not belong to the current solution", "{at}: slot {k}: get_objective() = {got:?}, f(solution) = {want:?}");
                let r = catch(|| i.objective().value());
                match (r, ev) {
                    (Ok(v), true) => ensure_that!(v == f(sol) + off, "C05 objective does not belong to the current solution", "{at}: slot {k}: objective() = {v}"),
                    (Err(_), false) => {}
                    (Ok(v), false) => fail!("C05 objective() on an unevaluated individual", "{at}: slot {k}: objective() returned {v} for an unevaluated individual"),
                    (Err(p), true) => fail!("C05 objective() panics on an evaluated individual", "{at}: slot {k}: {p}"),
                }
            }
            _ => fail!("C05 harness", "{at}: slot {k} presence differs"),
        }
    }
    Ok(())
}

fn ind_oracle(ops: &[IOp], cl: &mut u64) -> Result<(), Failure> {
    let mut inds: Vec<Option<Individual<RealP>>> = vec![None, None, None];
    let mut model: Vec<M> = vec![None, None, None];
    let mut pending_read_after_mut = false;
    for (n, op) in ops.iter().enumerate() {
        let at = format!("step {} {op:?}", n + 1);
        match op {
            IOp::New(i, v) => {
                let i = *i as usize % SLOTS;
                let sol = vec![*v as f64, 0.5];
                inds[i] = Some(Individual::new(sol.clone(), obj(&sol)));
                model[i] = Some((sol, true, 0.0));
            }
            IOp::NewUnevaluated(i, v) => {
                let i = *i as usize % SLOTS;
                let sol = vec![*v as f64, 0.5];
                inds[i] = Some(Individual::new_unevaluated(sol.clone()));
                model[i] = Some((sol, false, 0.0));
            }
            IOp::EvaluateWith(i) => {
                let i = *i as usize % SLOTS;
                if let (Some(ind), Some(m)) = (&mut inds[i], &mut model[i]) {
                    ind.evaluate_with(|s| obj(s));
                    m.1 = true;
                    m.2 = 0.0;
                }
            }
            IOp::EvaluateWithOther(i) => {
                let i = *i as usize % SLOTS;
                if let (Some(ind), Some(m)) = (&mut inds[i], &mut model[i]) {
                    ind.evaluate_with(|s| SingleObjective::try_from(f(s) + 100.0).unwrap());
                    m.1 = true;
                    m.2 = 100.0;
                }
            }
            IOp::CloneFrom(i, j) => {
                let (i, j) = (*i as usize % SLOTS, *j as usize % SLOTS);
                if i != j {
                    if let Some(src) = inds[i].clone() {
                        if model[j].as_ref().map_or(false, |m| m.1) && !model[i].as_ref().map_or(false, |m| m.1) {
                            *cl |= 4;
                        }
                        match &mut inds[j] {
                            Some(t) => t.clone_from(&src),
                            None => inds[j] = Some(src.clone()),
                        }
                        model[j] = model[i].clone();
                    }
                }
            }
            IOp::VecCloneFrom => {
                let src: Vec<Individual<RealP>> = inds.iter().flatten().cloned().collect();
                if src.len() >= 2 {
                    let mut rotated = src.clone();
                    rotated.rotate_left(1);
                    let mut a = rotated.clone();
                    a.clone_from(&src);
                    let mut b = rotated.clone();
                    b.clone_from_slice(&src);
                    for (k, (x, y)) in a.iter().zip(&src).enumerate() {
                        ensure_that!(x == y && x.is_evaluated() == y.is_evaluated(), "C05 Vec::clone_from does not keep solution and objective together", "{at}: position {k}: {:?}/{:?} vs source {:?}/{:?}", x.solution(), x.get_objective(), y.solution(), y.get_objective());
                    }
                    for (k, (x, y)) in b.iter().zip(&src).enumerate() {
                        ensure_that!(x == y && x.is_evaluated() == y.is_evaluated(), "C05 clone_from_slice does not keep solution and objective together", "{at}: position {k}: {:?}/{:?} vs source {:?}/{:?}", x.solution(), x.get_objective(), y.solution(), y.get_objective());
                    }
                }
            }
            IOp::SetObjective(i) => {
                let i = *i as usize % SLOTS;
                if let (Some(ind), Some(m)) = (&mut inds[i], &mut model[i]) {
                    let o = obj(ind.solution());
                    let was = ind.set_objective(o);
                    ensure_that!(was == m.1, "C05 set_objective reports the wrong previous state", "{at}: returned {was}, model {}", m.1);
                    m.1 = true;
                    m.2 = 0.0;
                }
            }
            IOp::MutWrite(i, v) => {
                let i = *i as usize % SLOTS;
                if let (Some(ind), Some(m)) = (&mut inds[i], &mut model[i]) {
                    if m.1 {
                        pending_read_after_mut = true;
                    }
                    ind.solution_mut()[0] = *v as f64;
                    m.0[0] = *v as f64;
                    m.1 = false;
                }
            }
            IOp::MutTouch(i) => {
                let i = *i as usize % SLOTS;
                if let (Some(ind), Some(m)) = (&mut inds[i], &mut model[i]) {
                    if m.1 {
                        pending_read_after_mut = true;
                    }
                    let _ = ind.solution_mut();
                    m.1 = false;
                }
            }
            IOp::Clone(i, j) => {
                let (i, j) = (*i as usize % SLOTS, *j as usize % SLOTS);
                if model[i].as_ref().map_or(false, |m| m.1) {
                    *cl |= 4;
                }
                inds[j] = inds[i].clone();
                model[j] = model[i].clone();
            }
            IOp::IntoSolutionRoundTrip(i) => {
                let i = *i as usize % SLOTS;
                if let Some(ind) = inds[i].take() {
                    let sol = ind.into_solution();
                    inds[i] = Some(Individual::new_unevaluated(sol));
                    model[i].as_mut().unwrap().1 = false;
                }
            }
            IOp::AsSolutions => {
                let v: Vec<Individual<RealP>> = inds.iter().flatten().cloned().collect();
                let sols: Vec<Vec<f64>> = v.as_solutions().into_iter().cloned().collect();
                let want: Vec<Vec<f64>> = model.iter().flatten().map(|m| m.0.clone()).collect();
                ensure_that!(sols == want, "C05 as_solutions", "{at}: {sols:?} vs {want:?}");
                // reading must not change anything
                for (a, b) in v.iter().zip(inds.iter().flatten()) {
                    ensure_that!(a == b, "C05 as_solutions changes individuals", "{at}");
                }
            }
            IOp::AsSolutionsMut => {
                let mut v: Vec<Individual<RealP>> = inds.iter().flatten().cloned().collect();
                if model.iter().flatten().any(|m| m.1) {
                    *cl |= 2;
                    pending_read_after_mut = true;
                }
                {
                    let sols = v.as_solutions_mut();
                    let _ = sols.len();
                }
                let mut it = v.into_iter();
                for k in 0..SLOTS {
                    if inds[k].is_some() {
                        inds[k] = it.next();
                        model[k].as_mut().unwrap().1 = false;
                    }
                }
            }
            IOp::ThroughPopulations => {
                *cl |= 8;
                let v: Vec<Individual<RealP>> = inds.iter().flatten().cloned().collect();
                let mut ps = Populations::<RealP>::new();
                ps.push(vec![]);
                ps.push(v);
                ps.rotate(2);
                ps.rotate(2);
                let copy = ps.current().to_vec();
                ps.push(copy);
                let back = ps.pop();
                let orig = ps.pop();
                ensure_that!(back == orig, "C05 population copy differs", "{at}");
                let mut it = back.into_iter();
                for k in 0..SLOTS {
                    if inds[k].is_some() {
                        inds[k] = it.next();
                    }
                }
            }
            IOp::IntoSingle(i) => {
                let i = *i as usize % SLOTS;
                if let Some(ind) = &inds[i] {
                    let v = vec![ind.clone()];
                    let r = v.iter().into_single_ref().map(|x| x.clone());
                    ensure_that!(r.as_ref().ok() == Some(ind), "C05 into_single_ref", "{at}");
                    let s = v.into_single();
                    ensure_that!(s.as_ref().ok() == Some(ind), "C05 into_single", "{at}");
                    let e: Vec<Individual<RealP>> = vec![];
                    ensure_that!(e.into_single().is_err(), "C05 into_single on empty", "{at}");
                    let two = vec![ind.clone(), ind.clone()];
                    ensure_that!(two.into_single().is_err(), "C05 into_single on two", "{at}");
                }
            }
            IOp::Best => {
                let v: Vec<Individual<RealP>> = inds.iter().flatten().filter(|i| i.is_evaluated()).cloned().collect();
                let want = model.iter().flatten().filter(|m| m.1).map(|m| f(&m.0) + m.2).fold(None, |acc: Option<f64>, x| Some(acc.map_or(x, |a| a.min(x))));
                let got = v.best_individual().map(|i| i.objective().value());
                ensure_that!(got == want, "C05 best_individual", "{at}: {got:?} vs {want:?}");

            }
            IOp::IntoIndividuals(i) => {
                let i = *i as usize % SLOTS;
                let sols: Vec<Vec<f64>> = inds.iter().flatten().map(|x| x.solution().clone()).collect();
                let made: Vec<Individual<RealP>> = sols.clone().into_individuals();
                ensure_that!(made.iter().all(|x| !x.is_evaluated()), "C05 into_individuals creates evaluated individuals", "{at}");
                let back: Vec<Vec<f64>> = made.into_solutions();
                ensure_that!(back == sols, "C05 into_individuals/into_solutions round trip", "{at}");
                let _ = i;
            }
        }
        probe(&inds, &model, &at)?;
        if pending_read_after_mut {
            *cl |= 1;
        }
    }
    Ok(())
}

fn iop_strategy() -> impl Strategy<Value = IOp> {
    let s = 0u8..SLOTS as u8;
    prop_oneof![
        3 => (s.clone(), -3i8..4).prop_map(|(i, v)| IOp::New(i, v)),
        1 => (s.clone(), -3i8..4).prop_map(|(i, v)| IOp::NewUnevaluated(i, v)),
        2 => s.clone().prop_map(IOp::EvaluateWith),
        1 => s.clone().prop_map(IOp::EvaluateWithOther),
        2 => (s.clone(), s.clone()).prop_map(|(i, j)| IOp::CloneFrom(i, j)),
        1 => Just(IOp::VecCloneFrom),
        1 => s.clone().prop_map(IOp::SetObjective),
        3 => (s.clone(), -3i8..4).prop_map(|(i, v)| IOp::MutWrite(i, v)),
        2 => s.clone().prop_map(IOp::MutTouch),
        2 => (s.clone(), s.clone()).prop_map(|(i, j)| IOp::Clone(i, j)),
        1 => s.clone().prop_map(IOp::IntoSolutionRoundTrip),
        1 => Just(IOp::AsSolutions),
        1 => Just(IOp::AsSolutionsMut),
        1 => Just(IOp::ThroughPopulations),
        1 => s.clone().prop_map(IOp::IntoSingle),
        1 => Just(IOp::Best),
        1 => s.prop_map(IOp::IntoIndividuals),
    ]
}

fn iop_alphabet() -> Vec<IOp> {
    vec![
        IOp::New(0, 1),
        IOp::New(1, 2),
        IOp::NewUnevaluated(0, 3),
        IOp::EvaluateWith(0),
        IOp::EvaluateWithOther(0),
        IOp::CloneFrom(0, 1),
        IOp::CloneFrom(1, 0),
        IOp::VecCloneFrom,
        IOp::SetObjective(0),
        IOp::MutWrite(0, -1),
        IOp::MutTouch(0),
        IOp::MutTouch(1),
        IOp::Clone(0, 1),
        IOp::Clone(1, 0),
        IOp::IntoSolutionRoundTrip(0),
        IOp::AsSolutionsMut,
        IOp::ThroughPopulations,
        IOp::Best,
    ]
}

// ------------------------------------------------------------------------------------------------
// (b) every step of every template run
// ------------------------------------------------------------------------------------------------

#[derive(Default)]
struct A5 {
    failure: Option<Failure>,
    steps: u64,
    steps_with_change: u64,
    individuals_checked: u64,
    last: Vec<u64>,
    tpl: &'static str,
    passes: u32,
    /// the run started on a state left by a run on an instance with ANOTHER objective: memories of that run (swarm
    /// bests ...) legitimately hold values of the other objective until their component re-initialises them, so only
    /// the population stack (emptied before the run) is audited
    stack_only: bool,
}

impl<P: Instrumented> Audit<P> for A5 {
    fn step(&mut self, problem: &P, state: &State<P>, ev: &StepEv) {
        if ev.phase != Phase::After || self.failure.is_some() {
            return;
        }
        if ev.ends_main_pass {
            self.passes += 1;
        }
        self.steps += 1;
        let mut hashes = Vec::new();
        let mut bad: Option<String> = None;
        let mut n = 0;
        let stack_only = self.stack_only;
        walk_individuals(state, &mut |place, ind| {
            if stack_only && !place.contains("population stack") {
                return;
            }
            n += 1;
            hashes.push(P::sol_hash(ind.solution()));
            if let Some(o) = ind.get_objective() {
                let want = problem.pure_f(ind.solution());
                if o.value().to_bits() != want.to_bits() && bad.is_none() {
                    bad = Some(format!("{place}: objective {:?} but f(solution) = {want:?}", o.value()));
                }
            }
        });
        self.individuals_checked += n;
        if hashes != self.last {
            self.steps_with_change += 1;
        }
        self.last = hashes;
        if let Some(b) = bad {
            self.failure = Some(Failure::new(
                format!("C05 {} stale objective after {}", self.tpl, ev.name),
                format!("{}: after component {} (enclosing {:?}, pass {}): {b}", self.tpl, ev.name, ev.enclosing, self.passes),
            ));
        }
    }
}

struct V5 {
    classes: u64,
    nontrivial: bool,
}

impl RunVisitor for V5 {
    type Out = Result<(), Failure>;
    fn visit<P: Instrumented + Clone + 'static>(&mut self, cfg: ExecResult<Configuration<P>>, problem: P, spec: &RunSpec) -> Self::Out {
        let tpl = spec.tpl.name();
        let Ok(cfg) = cfg else { return Ok(()) }; // constructor failures are C16's subject
        let audit = Arc::new(Mutex::new(A5 { tpl, stack_only: crate::fixtures::run::is_warm(spec.seed) && spec.seed & 1 == 1, ..Default::default() }));
        let _ = run_observed_auto(&cfg, &problem, spec.seed, EvalKind::Sequential, audit.clone());
        let a = audit.lock().unwrap();
        if a.steps_with_change > 0 {
            self.classes |= 1;
        }
        if a.passes >= 3 {
            self.classes |= 2;
        }
        self.nontrivial = a.steps_with_change > 0 && a.passes >= 3;
        match &a.failure {
            Some(f) => soft_fail(f.clone()),
            None => Ok(()),
        }
    }
}

pub struct RunCheck(pub usize);

impl Check for RunCheck {
    type Case = RunSpec;
    fn name(&self) -> String {
        format!("C05/run/{}", TEMPLATE_NAMES[self.0])
    }
    fn classes(&self) -> &'static [&'static str] {
        &["a step changed some solution", ">= 3 loop passes"]
    }
    fn oracle(&self, spec: &RunSpec) -> Outcome {
        let mut v = V5 { classes: 0, nontrivial: false };
        let r = dispatch(spec, &mut v);
        Outcome::new(v.nontrivial, v.classes, r)
    }
}

// ------------------------------------------------------------------------------------------------
// (c) single components on prepared evaluated populations
// ------------------------------------------------------------------------------------------------

#[derive(Clone, Debug, Serialize, Deserialize)]
pub struct CompCase {
    pub which: u8,
    pub size: u8,
    pub dim: u8,
    pub seed: u64,
}

pub struct CompCheck;

const N_COMPONENTS: u8 = 37;

/// An evaluator that repairs the solutions it is given in place before evaluating them (Lamarckian / repairing
/// evaluation): whatever it does to an individual, solution and objective value stay together.
pub struct Repairing;
impl mahf::problems::Evaluate for Repairing {
    type Problem = RealP;
    fn evaluate(&mut self, problem: &RealP, _state: &mut State<RealP>, individuals: &mut [Individual<RealP>]) {
        use mahf::problems::ObjectiveFunction;
        for i in individuals {
            for x in i.solution_mut().iter_mut() {
                *x = (*x * 4.0).round() / 4.0;
            }
            i.evaluate_with(|s| problem.objective(s));
        }
    }
}

/// A user-style mutation that validates AFTER writing: the solution of individual `fail_at` is already modified when
/// `mutate` reports the error. Run through the crate's default `mutation::mutation` driver.
#[derive(Clone, Serialize)]
pub struct WriteThenFail {
    pub fail_at: usize,
    #[serde(skip)]
    pub calls: Arc<Mutex<usize>>,
}

impl mutation::Mutation<RealP> for WriteThenFail {
    fn mutate(&self, solution: &mut Vec<f64>, _problem: &RealP, _state: &mut State<RealP>) -> ExecResult<()> {
        let mut k = self.calls.lock().unwrap();
        let i = *k;
        *k += 1;
        for x in solution.iter_mut() {
            *x += 0.25;
        }
        if i == self.fail_at {
            return Err(eyre::eyre!("validation failed after the write"));
        }
        Ok(())
    }
}

impl Component<RealP> for WriteThenFail {
    fn execute(&self, problem: &RealP, state: &mut State<RealP>) -> ExecResult<()> {
        mutation::mutation(self, problem, state)
    }
}

/// `x` moved by `k` representable values (k < 0: towards -inf)
fn nudge(x: f64, k: i64) -> f64 {
    let mut v = x;
    for _ in 0..k.unsigned_abs() {
        v = if k > 0 { next_up(v) } else { -next_up(-v) };
    }
    v
}
fn next_up(x: f64) -> f64 {
    if x == 0.0 {
        f64::from_bits(1)
    } else if x > 0.0 {
        f64::from_bits(x.to_bits() + 1)
    } else {
        f64::from_bits(x.to_bits() - 1)
    }
}

impl Check for CompCheck {
    type Case = CompCase;
    fn name(&self) -> String {
        "C05/components".into()
    }
    fn classes(&self) -> &'static [&'static str] {
        &["population >= 2", "component changed a solution", "coordinates within a few representable values of a domain bound", "partly evaluated population", "operator fails after writing"]
    }
    fn oracle(&self, c: &CompCase) -> Outcome {
        let mut cl = 0;
        let r = comp_oracle(c, &mut cl);
        Outcome::new(cl & 3 == 3, cl, r)
    }
}

fn audit_state<P: Instrumented>(problem: &P, state: &State<P>, name: &str, at: &str) -> Result<(), Failure> {
    let mut bad = None;
    walk_individuals(state, &mut |place, ind| {
        if let Some(o) = ind.get_objective() {
            let want = problem.pure_f(ind.solution());
            if o.value().to_bits() != want.to_bits() && bad.is_none() {
                bad = Some(format!("{place}: solution {:x} carries objective {:?} but f(solution) = {want:?}", P::sol_hash(ind.solution()), o.value()));
            }
        }
    });
    match bad {
        Some(b) => Err(Failure::new(format!("C05 stale objective after {name}"), format!("{at}: {b}"))),
        None => Ok(()),
    }
}

fn sols_of<P: Instrumented>(state: &State<P>) -> Vec<u64> {
    let mut v = Vec::new();
    walk_individuals(state, &mut |_, i| v.push(P::sol_hash(i.solution())));
    v
}

fn run_one<P: Instrumented + 'static>(problem: &P, comp: Box<dyn Component<P>>, mut state: State<'static, P>, name: &str, at: &str, cl: &mut u64) -> Result<(), Failure> {
    audit_state(problem, &state, "harness preparation", at)?;
    let before = sols_of(&state);
    let r = catch(|| {
        comp.init(problem, &mut state)?;
        comp.execute(problem, &mut state)
    });
    if let Ok(Err(_)) = &r {
        // whatever is left in the state after a reported error must still be consistent
        return audit_state(problem, &state, name, at);
    }
    if !matches!(r, Ok(Ok(()))) {
        return Ok(()); // panics on these inputs are C11-C14's subject
    }
    if sols_of(&state) != before {
        *cl |= 2;
    }
    audit_state(problem, &state, name, at)
}

fn comp_oracle(c: &CompCase, cl: &mut u64) -> Result<(), Failure> {
    let size = (c.size % 9) as usize;
    let dim = 2 + (c.dim % 5) as usize;
    if size >= 2 {
        *cl |= 1;
    }
    let which = c.which % N_COMPONENTS;
    let at = format!("component #{which} size {size} dim {dim} seed {}", c.seed);
    // deterministic pseudo-random content
    let mut s = c.seed | 1;
    let mut next = || {
        s ^= s << 13;
        s ^= s >> 7;
        s ^= s << 17;
        (s >> 11) as f64 / (1u64 << 53) as f64
    };
    match which {
        0..=21 | 34 | 35 | 36 => {
            // variant 0: wide domain, Rastrigin, coordinates anywhere in or slightly outside the domain;
            // variants 1-3: narrow domains (bounds of magnitude <= 1, where neighbouring floats are <= EPSILON apart),
            // an objective that depends on every bit of the solution, and most coordinates within two representable
            // values of a bound (or denormal-close to a bound 0)
            let variant = (c.seed >> 61) % 4;
            let (lo, hi, kind) = match variant {
                0 => (-5.0, 5.0, RealKind::Rastrigin),
                1 => (-1.0, 1.0, RealKind::Fingerprint),
                2 => (0.0, 1.0, RealKind::Fingerprint),
                _ => (-0.5, 0.25, RealKind::Fingerprint),
            };
            if variant != 0 {
                *cl |= 4;
            }
            let problem = RealP::new(dim, lo, hi, kind);
            let mut mk = |n: usize| -> Vec<Individual<RealP>> {
                (0..n)
                    .map(|_| {
                        let sol: Vec<f64> = (0..dim)
                            .map(|_| {
                                if variant == 0 {
                                    return -6.0 + 12.0 * next();
                                }
                                let r = next();
                                if r < 0.3 {
                                    lo - 0.2 * (hi - lo) + 1.4 * (hi - lo) * next()
                                } else {
                                    let b = if next() < 0.5 { lo } else { hi };
                                    let k = (next() * 5.0) as i64 - 2;
                                    if b == 0.0 && next() < 0.5 {
                                        [-1e-300, 1e-300, -f64::MIN_POSITIVE, -0.0, -1e-17][(next() * 5.0) as usize % 5]
                                    } else {
                                        nudge(b, k)
                                    }
                                }
                            })
                            .collect();
                        let o = problem.f(&sol);
                        Individual::new(sol, o.try_into().unwrap())
                    })
                    .collect()
            };
            let pop = mk(size);
            let (name, comp, pops): (&str, Box<dyn Component<RealP>>, Vec<Vec<Individual<RealP>>>) = match which {
                0 => ("NormalMutation", mutation::NormalMutation::new(0.5, 0.5), vec![mk(2), pop]),
                1 => ("UniformMutation", mutation::UniformMutation::new(0.5, 0.5), vec![pop]),
                2 => ("PartialRandomSpread", mutation::PartialRandomSpread::new(0.5), vec![pop]),
                3 => ("Saturation", boundary::Saturation::new(), vec![pop]),
                4 => ("Toroidal", boundary::Toroidal::new(), vec![pop]),
                5 => ("Mirror", boundary::Mirror::new(), vec![pop]),
                6 => ("CompleteOneTailedNormalCorrection", boundary::CompleteOneTailedNormalCorrection::new(), vec![pop]),
                7 => ("NPointCrossover", recombination::NPointCrossover::new::<RealP, f64>(1, 1.0, true), vec![pop]),
                8 => ("UniformCrossover", recombination::UniformCrossover::new::<RealP, f64>(0.7, false), vec![pop]),
                9 => ("ArithmeticCrossover", recombination::ArithmeticCrossover::new::<RealP>(1.0, true), vec![pop]),
                10 => ("DEMutation", mutation::de::DEMutation::new::<RealP>(1, 0.8).unwrap(), vec![mk(3 * size)]),
                11 => ("DEBinomialCrossover", recombination::de::DEBinomialCrossover::new::<RealP>(0.5), vec![pop, mk(size)]),
                12 => ("DEExponentialCrossover", recombination::de::DEExponentialCrossover::new::<RealP>(0.5), vec![pop, mk(size)]),
                13 => ("BlackHoleParticlesUpdate", swarm::bh::BlackHoleParticlesUpdate::new::<RealP>(), vec![pop]),
                14 => ("Tournament", selection::Tournament::new::<RealP>(4, 1), vec![pop]),
                15 => ("DEBest", selection::de::DEBest::new::<RealP>(1).unwrap(), vec![pop]),
                16 => ("MuPlusLambda", replacement::MuPlusLambda::new::<RealP>(3), vec![pop, mk(3)]),
                17 => ("KeepBetterAtIndex", replacement::KeepBetterAtIndex::new::<RealP>(), vec![pop, mk(size)]),
                18 => ("RandomReplacement", replacement::RandomReplacement::new::<RealP>(2), vec![pop, mk(2)]),
                19 => ("RouletteWheel", selection::RouletteWheel::new::<RealP>(3, 0.1), vec![pop]),
                20 => ("FullyRandom", selection::FullyRandom::new::<RealP>(3), vec![pop]),
                36 => {
                    // 32-47 individuals, every third one already (correctly) evaluated, the rest unevaluated, evaluated
                    // by the parallel evaluator
                    let mut big = mk(32 + size);
                    for (k, i) in big.iter_mut().enumerate() {
                        if k % 3 != 1 {
                            let s = i.solution().clone();
                            *i = Individual::new_unevaluated(s);
                        }
                    }
                    ("PopulationEvaluator with the parallel evaluator on a partly evaluated population of >= 32", mahf::components::evaluation::PopulationEvaluator::<mahf::identifier::Global>::new_with(), vec![mk(1), big])
                }
                35 => ("PopulationEvaluator with an evaluator that repairs solutions in place", mahf::components::evaluation::PopulationEvaluator::<mahf::identifier::Global>::new_with(), vec![mk(1), pop]),
                34 => {
                    *cl |= 16;
                    let fail_at = if size == 0 { 0 } else { (c.seed >> 8) as usize % (size + 1) };
                    ("mutation::mutation with a Mutation that fails after writing", Box::new(WriteThenFail { fail_at, calls: Arc::new(Mutex::new(0)) }), vec![mk(2), pop])
                }
                _ => ("EventHorizon", replacement::bh::EventHorizon::new::<RealP>(), vec![pop]),
            };
            let mut st = state_with(pops, c.seed);
            if which == 35 {
                st.insert(mahf::state::common::Evaluator::<RealP, mahf::identifier::Global>::new(Repairing));
            }
            if which == 36 {
                st.insert(mahf::state::common::Evaluator::<RealP, mahf::identifier::Global>::new(mahf::problems::Parallel::<RealP>::new()));
            }
            if which == 21 {
                let mut b = BestIndividual::<RealP>::new();
                if let Some(i) = st.populations().current().iter().min_by_key(|i| *i.objective()) {
                    b.update(i);
                } else {
                    return Ok(());
                }
                st.insert(b);
            }
            run_one(&problem, comp, st, name, &at, cl)
        }
        22..=25 => {
            let problem = BitsP::new(dim);
            // one case in three: a partly evaluated population (unevaluated offspring next to evaluated elitists)
            let partly = (c.seed >> 40) % 3 == 0;
            if partly {
                *cl |= 8;
            }
            let mut mk = |n: usize| -> Vec<Individual<BitsP>> {
                (0..n)
                    .map(|_| {
                        let sol: Vec<bool> = (0..dim).map(|_| next() < 0.5).collect();
                        let o = problem.f(&sol);
                        if partly && next() < 0.45 {
                            Individual::new_unevaluated(sol)
                        } else {
                            Individual::new(sol, o.try_into().unwrap())
                        }
                    })
                    .collect()
            };
            let pop = mk(size);
            let (name, comp): (&str, Box<dyn Component<BitsP>>) = match which {
                22 => ("BitFlipMutation", mutation::BitFlipMutation::new(0.5)),
                23 => ("PartialRandomBitstring", mutation::PartialRandomBitstring::new(0.5, 0.5)),
                24 => ("UniformCrossover", recombination::UniformCrossover::new::<BitsP, bool>(1.0, true)),
                _ => ("NPointCrossover", recombination::NPointCrossover::new::<BitsP, bool>(1, 1.0, false)),
            };
            run_one(&problem, comp, state_with(vec![pop], c.seed), name, &at, cl)
        }
        _ => {
            let n = dim + 1;
            let problem = TspP::generated(n, 0, 5);
            let partly = (c.seed >> 40) % 3 == 0;
            if partly && which <= 31 {
                *cl |= 8;
            }
            let mut mk = |k: usize| -> Vec<Individual<TspP>> {
                (0..k)
                    .map(|_| {
                        let mut sol: Vec<usize> = (0..n).collect();
                        for i in (1..n).rev() {
                            let j = (next() * (i + 1) as f64) as usize;
                            sol.swap(i, j.min(i));
                        }
                        let o = problem.f(&sol);
                        if partly && which <= 31 && next() < 0.45 {
                            Individual::new_unevaluated(sol)
                        } else {
                            Individual::new(sol, o.try_into().unwrap())
                        }
                    })
                    .collect()
            };
            let pop = mk(size);
            let (name, comp): (&str, Box<dyn Component<TspP>>) = match which {
                26 => ("ScrambleMutation", mutation::ScrambleMutation::new::<TspP>(0.7)),
                27 => ("SwapMutation", mutation::SwapMutation::new::<TspP>(2).unwrap()),
                28 => ("InversionMutation", mutation::InversionMutation::new::<TspP, usize>()),
                29 => ("InsertionMutation", mutation::common::InsertionMutation::new::<TspP>()),
                30 => ("TranslocationMutation", mutation::TranslocationMutation::new::<TspP>()),
                31 => ("CycleCrossover", recombination::CycleCrossover::new::<TspP, usize>(1.0, true)),
                32 => ("AcoGeneration", mahf::components::generative::AcoGeneration::new::<TspP>(3, 1.0, 1.0, 1.0)),
                _ => ("All", selection::All::new::<TspP>()),
            };
            run_one(&problem, comp, state_with(vec![pop], c.seed), name, &at, cl)
        }
    }
}

pub fn run_all(ctx: &mut Ctx, replay: Option<&Path>) {
    ctx.rule("(a) individual-level: histories of new/new_unevaluated/evaluate_with (two different objective functions)/set_objective/solution_mut (with and without a change)/clone/clone_from/Vec::clone_from/clone_from_slice/into_solution/as_solutions/as_solutions_mut/into_single(_ref)/best_individual/into_individuals/moves through the population stack over 3 slots against an evaluated-flag model, probing is_evaluated/get_objective/objective()/solution after every step; non-trivial = solution_mut on an evaluated individual followed by a read. (b) run-level: every shipped template with valid parameters; after EVERY component execution every individual reachable in any scope (population stack, best-so-far, archive, swarm and molecule memories) that is evaluated must carry bit-exactly f(solution); non-trivial = run with >= 3 passes in which some step changed a solution. (c) component-level: 34 shipped components on prepared evaluated populations (bit-valued and permutation operators also on partly evaluated ones) (real-valued ones also on narrow domains with coordinates within two representable values of a bound and an objective that depends on every bit of the solution), plus the evaluation step with a harness evaluator that repairs solutions in place, and the crate's `mutation::mutation` driver around a harness Mutation that reports an error after it has written to the solution (the state left behind by the Err is audited too), same audit; distinct by case");
    ctx.assume("the harness objective is a pure function of the solution; set_objective is only used with f(solution)");
    let i = IndCheck;
    let c = CompCheck;
    if let Some(p) = replay {
        if ctx.replay_file(&i, p) || ctx.replay_file(&c, p) {
            return;
        }
        for k in 0..21 {
            if ctx.replay_file(&RunCheck(k), p) {
                return;
            }
        }
        return;
    }
    ctx.regressions(&i);
    ctx.regressions(&c);
    let l = ctx.tier.pick(4, 5);
    ctx.exhaustive(&i, &format!("all histories of length <= {l} over an 18-operation alphabet on two slots"), crate::props::c01::Shortlex::new(iop_alphabet(), l));
    ctx.random(&i, proptest::collection::vec(iop_strategy(), 0..60), ctx.tier.pick(5000, 50_000));
    ctx.random(&c, (0u8..N_COMPONENTS, 0u8..9, 0u8..5, any::<u64>()).prop_map(|(which, size, dim, seed)| CompCase { which, size, dim, seed }), ctx.tier.pick(20_000, 100_000));
    let per = ctx.tier.pick(150, 800);
    for k in 0..21 {
        let r = RunCheck(k);
        ctx.regressions(&r);
        ctx.random(&r, run_spec_strategy(Some(k), 15), per);
    }
}
