use std::path::Path;

use crate::engine::Ctx;

pub mod c01;
pub mod c02;
pub mod c03;
pub mod c04;
pub mod c05;
pub mod c06;
pub mod c07;
pub mod c08;
pub mod c09;
pub mod c10;
pub mod c11;
pub mod c12;
pub mod c13;
pub mod c14;
pub mod c15;
pub mod c16;
pub mod c17;
pub mod c18;
pub mod c19;
pub mod c20;

pub type RunFn = fn(&mut Ctx, Option<&Path>);

pub fn registry() -> Vec<(&'static str, RunFn)> {
    vec![("C01", c01::run_all as RunFn), ("C02", c02::run_all as RunFn), ("C03", c03::run_all as RunFn), ("C04", c04::run_all as RunFn), ("C05", c05::run_all as RunFn), ("C06", c06::run_all as RunFn), ("C07", c07::run_all as RunFn), ("C08", c08::run_all as RunFn), ("C09", c09::run_all as RunFn), ("C10", c10::run_all as RunFn), ("C11", c11::run_all as RunFn), ("C12", c12::run_all as RunFn), ("C13", c13::run_all as RunFn), ("C14", c14::run_all as RunFn), ("C15", c15::run_all as RunFn), ("C16", c16::run_all as RunFn), ("C17", c17::run_all as RunFn), ("C18", c18::run_all as RunFn), ("C19", c19::run_all as RunFn), ("C20", c20::run_all as RunFn)]
}
