//! C03 — configurations execute with structured-program semantics and a fixed lifecycle.
//!
//! Trees over {leaf, seq, while, if, if/else, scope} are built through the public builder and, as a
//! differential twin, through the direct constructors. Leaves and conditions are harness components that
//! trace every lifecycle call into a thread-local trace, perform generated state effects and fail at an
//! injected point. A reference interpreter (independent of mahf) predicts trace, result and caller state.

use std::{cell::RefCell, collections::BTreeMap, path::Path};

use better_any::{Tid, TidAble};
use mahf::{
    components::{Block, Branch, Loop, Scope},
    conditions::Condition,
    state::{common::Iterations, StateReq},
    Component, Configuration, CustomState, ExecResult, State, StateRegistry,
};
use proptest::prelude::*;
use serde::{Deserialize, Serialize};

use crate::{
    engine::{catch, Check, Ctx, Failure, Outcome},
    ensure_that, fail,
    fixtures::problems::{RealKind, RealP},
    props::c01::{T0, T1, T2, T3},
    with_type,
};

#[derive(Clone, Debug, Serialize, Deserialize, PartialEq)]
pub enum Effect {
    None,
    /// +1 on the caller's counter state
    Bump,
    /// insert marker k with value v into the current scope (execute phase)
    Insert(u8, i64),
    /// same, but in the init phase
    InitInsert(u8, i64),
    /// set_value on the innermost instance of marker k (no-op when absent)
    Set(u8, i64),
    /// `require` marker k
    Require(u8),
    /// the component's work (its traced execute event, a possible fault point) happens inside
    /// `state.holding::<marker k>(..)` when marker k (harness types only, k % 4) is visible; no other effect
    Hold(u8),
    /// `state.entry::<marker k>().or_insert(v)` (k % 4): creates the marker in the CURRENT scope unless some scope holds it
    EntryInsert(u8, i64),
}

#[derive(Clone, Debug, Serialize, Deserialize, PartialEq)]
pub enum Node {
    Leaf(u16, Effect),
    Seq(Vec<Node>),
    While(u16, Vec<bool>, Vec<Node>),
    If(u16, Vec<bool>, Vec<Node>),
    IfElse(u16, Vec<bool>, Vec<Node>, Vec<Node>),
    Scope(Vec<Node>),
    /// `Scope::new_with`: a state initialiser that creates marker 3 inside the scope and a merge function that adds
    /// 1000 to the caller's counter (both traced, both possible fault points)
    ScopeWith(Vec<Node>),
}

#[derive(Clone, Debug, Serialize, Deserialize, PartialEq, Eq)]
pub enum Ev {
    /// state initialiser of a `ScopeWith`
    SInit,
    /// merge function of a `ScopeWith`
    SMerge,
    Init(u16),
    Require(u16),
    Exec(u16),
    CInit(u16),
    CRequire(u16),
    CEval(u16, bool),
}

#[derive(Clone, Debug, Serialize, Deserialize)]
pub struct Case {
    pub tree: Vec<Node>,
    /// markers present in the caller's state before the run
    pub seeds: [Option<i64>; 5],
    /// the caller's state has one extra (outer) scope holding a second instance of marker 0
    pub outer_scope: bool,
    /// index (into the fault-free reference trace) of the event that fails; None = no fault
    pub fault: Option<u16>,
    /// an iteration counter left in the caller's scope before the run (a state that was used for an earlier run, or
    /// pre-seeded by the caller): a loop initialised in that scope starts counting from zero regardless
    #[serde(default)]
    pub seed_iterations: Option<u32>,
}

// ------------------------------------------------------------------------------------------------
// harness components
// ------------------------------------------------------------------------------------------------

#[derive(Default)]
struct Tl {
    trace: Vec<Ev>,
    fault_at: Option<usize>,
    cond_pos: BTreeMap<u16, usize>,
}

thread_local! {
    static TL: RefCell<Tl> = RefCell::new(Tl::default());
}

/// Resets the thread-local trace (used by C03 and C10).
pub fn tl_reset(fault_at: Option<usize>) {
    TL.with(|t| {
        *t.borrow_mut() = Tl { trace: Vec::new(), fault_at, cond_pos: BTreeMap::new() };
    });
}

pub fn tl_take_trace() -> Vec<Ev> {
    TL.with(|t| std::mem::take(&mut t.borrow_mut().trace))
}

/// Records the event; Err if this is the injected fault point.
fn emit(ev: Ev) -> ExecResult<()> {
    TL.with(|t| {
        let mut t = t.borrow_mut();
        t.trace.push(ev);
        if t.fault_at == Some(t.trace.len() - 1) {
            Err(eyre::eyre!("injected fault"))
        } else {
            Ok(())
        }
    })
}

/// Marker k: 0..=3 are harness state types, 4 is the crate's own `Evaluations` counter (a scope must restore a
/// shadowed instance of ANY type, also of the common states).
pub const N_MARKERS: u8 = 5;

fn m_insert(state: &mut State<RealP>, k: u8, v: i64) {
    if k % N_MARKERS == 4 {
        state.insert(mahf::state::common::Evaluations(v as u32));
    } else {
        with_type!(k % N_MARKERS, T => { state.insert(T::from(v)); });
    }
}
fn m_set(state: &mut State<RealP>, k: u8, v: i64) {
    if k % N_MARKERS == 4 {
        state.set_value::<mahf::state::common::Evaluations>(v as u32);
    } else {
        with_type!(k % N_MARKERS, T => { state.set_value::<T>(v); });
    }
}
fn m_require(req: &StateReq<RealP>, k: u8) -> ExecResult<()> {
    if k % N_MARKERS == 4 {
        req.require::<LeafC, mahf::state::common::Evaluations>()?;
    } else {
        with_type!(k % N_MARKERS, T => req.require::<LeafC, T>()?);
    }
    Ok(())
}
fn m_top(state: &StateRegistry, k: u8) -> Option<i64> {
    if k % N_MARKERS == 4 {
        if state.contains_at_top::<mahf::state::common::Evaluations>() {
            state.try_get_value::<mahf::state::common::Evaluations>().ok().map(|v| v as i64)
        } else {
            None
        }
    } else {
        with_type!(k % N_MARKERS, T => if state.contains_at_top::<T>() { state.try_get_value::<T>().ok() } else { None })
    }
}

#[derive(Tid)]
pub struct Counter(pub i64);
impl CustomState<'_> for Counter {}

fn scope_with_init(state: &mut State<RealP>) -> ExecResult<()> {
    emit(Ev::SInit)?;
    m_insert(state, 3, 77);
    Ok(())
}

fn scope_with_merge(state: &mut State<RealP>, _inner: State<RealP>) -> ExecResult<()> {
    emit(Ev::SMerge)?;
    if let Ok(mut c) = state.try_borrow_mut::<Counter>() {
        c.0 += 1000;
    }
    Ok(())
}

#[derive(Clone, Serialize)]
pub struct LeafC {
    pub id: u16,
    #[serde(skip)]
    pub effect: Effect,
}

impl Component<RealP> for LeafC {
    fn init(&self, _p: &RealP, state: &mut State<RealP>) -> ExecResult<()> {
        emit(Ev::Init(self.id))?;
        if let Effect::InitInsert(k, v) = &self.effect {
            m_insert(state, *k, *v);
        }
        Ok(())
    }
    fn require(&self, _p: &RealP, req: &StateReq<RealP>) -> ExecResult<()> {
        emit(Ev::Require(self.id))?;
        if let Effect::Require(k) = &self.effect {
            m_require(req, *k)?;
        }
        Ok(())
    }
    fn execute(&self, _p: &RealP, state: &mut State<RealP>) -> ExecResult<()> {
        if let Effect::Hold(k) = &self.effect {
            let id = self.id;
            let visible = with_type!(*k % 4, T => state.contains::<T>());
            if visible {
                return with_type!(*k % 4, T => state.holding::<T>(|_t, _rest| emit(Ev::Exec(id))));
            }
        }
        emit(Ev::Exec(self.id))?;
        match &self.effect {
            Effect::EntryInsert(k, v) => {
                with_type!(*k % 4, T => { state.entry::<T>().or_insert(T::from(*v)); });
            }
            Effect::Bump => {
                state.try_borrow_mut::<Counter>()?.0 += 1;
            }
            Effect::Insert(k, v) => m_insert(state, *k, *v),
            Effect::Set(k, v) => m_set(state, *k, *v),
            _ => {}
        }
        Ok(())
    }
}

#[derive(Clone, Serialize)]
pub struct ScriptC {
    pub id: u16,
    pub script: Vec<bool>,
}

impl Condition<RealP> for ScriptC {
    fn init(&self, _p: &RealP, _s: &mut State<RealP>) -> ExecResult<()> {
        emit(Ev::CInit(self.id))
    }
    fn require(&self, _p: &RealP, _r: &StateReq<RealP>) -> ExecResult<()> {
        emit(Ev::CRequire(self.id))
    }
    fn evaluate(&self, _p: &RealP, _s: &mut State<RealP>) -> ExecResult<bool> {
        let b = TL.with(|t| {
            let mut t = t.borrow_mut();
            let pos = t.cond_pos.entry(self.id).or_insert(0);
            let b = self.script.get(*pos).copied().unwrap_or(false);
            *pos += 1;
            b
        });
        emit(Ev::CEval(self.id, b))?;
        Ok(b)
    }
}

// ------------------------------------------------------------------------------------------------
// building the real configuration, two ways
// ------------------------------------------------------------------------------------------------

fn build_direct(nodes: &[Node]) -> Vec<Box<dyn Component<RealP>>> {
    nodes
        .iter()
        .map(|n| -> Box<dyn Component<RealP>> {
            match n {
                Node::Leaf(id, e) => Box::new(LeafC { id: *id, effect: e.clone() }),
                Node::Seq(b) => Block::new(build_direct(b)),
                Node::While(c, s, b) => Loop::new(Box::new(ScriptC { id: *c, script: s.clone() }), build_direct(b)),
                Node::If(c, s, b) => Branch::new(Box::new(ScriptC { id: *c, script: s.clone() }), build_direct(b)),
                Node::IfElse(c, s, a, b) => Branch::new_with_else(Box::new(ScriptC { id: *c, script: s.clone() }), build_direct(a), build_direct(b)),
                Node::Scope(b) => Scope::new(build_direct(b)),
                Node::ScopeWith(b) => Scope::new_with(scope_with_init, build_direct(b), scope_with_merge),
            }
        })
        .collect()
}

fn build_builder(nodes: &[Node], mut b: mahf::configuration::ConfigurationBuilder<RealP>) -> mahf::configuration::ConfigurationBuilder<RealP> {
    for n in nodes {
        b = match n {
            Node::Leaf(id, e) => b.do_(Box::new(LeafC { id: *id, effect: e.clone() })),
            Node::Seq(body) => b.do_(build_builder(body, Configuration::builder()).build_component()),
            Node::While(c, s, body) => b.while_(Box::new(ScriptC { id: *c, script: s.clone() }), |bb| build_builder(body, bb)),
            Node::If(c, s, body) => b.if_(Box::new(ScriptC { id: *c, script: s.clone() }), |bb| build_builder(body, bb)),
            Node::IfElse(c, s, x, y) => b.if_else_(Box::new(ScriptC { id: *c, script: s.clone() }), |bb| build_builder(x, bb), |bb| build_builder(y, bb)),
            Node::Scope(body) => b.scope_(|bb| build_builder(body, bb)),
            Node::ScopeWith(body) => b.do_(Scope::new_with(scope_with_init, build_builder(body, Configuration::builder()).build_component(), scope_with_merge)),
        };
    }
    b
}

// ------------------------------------------------------------------------------------------------
// reference interpreter
// ------------------------------------------------------------------------------------------------

#[derive(Clone, Debug, PartialEq)]
pub enum Stop {
    Injected,
    ReqMissing,
    NoIterations,
}

#[derive(Clone, Debug, Default)]
struct ScopeM {
    markers: BTreeMap<u8, i64>,
    iterations: Option<u32>,
}

struct Model {
    scopes: Vec<ScopeM>,
    counter: i64,
    trace: Vec<Ev>,
    cond_pos: BTreeMap<u16, usize>,
    fault_at: Option<usize>,
    // statistics
    loop_passes: u32,
    max_scope_depth: usize,
    fault_depth: Option<usize>,
}

impl Model {
    fn emit(&mut self, ev: Ev) -> Result<(), Stop> {
        self.trace.push(ev);
        if self.fault_at == Some(self.trace.len() - 1) {
            self.fault_depth = Some(self.scopes.len());
            Err(Stop::Injected)
        } else {
            Ok(())
        }
    }
    fn visible(&self, k: u8) -> bool {
        self.scopes.iter().any(|s| s.markers.contains_key(&k))
    }
    fn init(&mut self, nodes: &[Node]) -> Result<(), Stop> {
        for n in nodes {
            match n {
                Node::Leaf(id, e) => {
                    self.emit(Ev::Init(*id))?;
                    if let Effect::InitInsert(k, v) = e {
                        self.scopes.last_mut().unwrap().markers.insert(*k, *v);
                    }
                }
                Node::Seq(b) => self.init(b)?,
                Node::While(c, _, b) => {
                    self.scopes.last_mut().unwrap().iterations = Some(0);
                    self.emit(Ev::CInit(*c))?;
                    self.init(b)?;
                }
                Node::If(c, _, b) => {
                    self.emit(Ev::CInit(*c))?;
                    self.init(b)?;
                }
                Node::IfElse(c, _, a, b) => {
                    self.emit(Ev::CInit(*c))?;
                    self.init(a)?;
                    self.init(b)?;
                }
                Node::Scope(_) | Node::ScopeWith(_) => {}
            }
        }
        Ok(())
    }
    fn require(&mut self, nodes: &[Node]) -> Result<(), Stop> {
        for n in nodes {
            match n {
                Node::Leaf(id, e) => {
                    self.emit(Ev::Require(*id))?;
                    if let Effect::Require(k) = e {
                        if !self.visible(*k) {
                            return Err(Stop::ReqMissing);
                        }
                    }
                }
                Node::Seq(b) => self.require(b)?,
                Node::While(c, _, b) | Node::If(c, _, b) => {
                    self.emit(Ev::CRequire(*c))?;
                    self.require(b)?;
                }
                Node::IfElse(c, _, a, b) => {
                    self.emit(Ev::CRequire(*c))?;
                    self.require(a)?;
                    self.require(b)?;
                }
                Node::Scope(_) | Node::ScopeWith(_) => {}
            }
        }
        Ok(())
    }
    fn eval(&mut self, c: u16, script: &[bool]) -> Result<bool, Stop> {
        let pos = self.cond_pos.entry(c).or_insert(0);
        let b = script.get(*pos).copied().unwrap_or(false);
        *pos += 1;
        self.emit(Ev::CEval(c, b))?;
        Ok(b)
    }
    fn exec(&mut self, nodes: &[Node]) -> Result<(), Stop> {
        for n in nodes {
            match n {
                Node::Leaf(id, e) => {
                    self.emit(Ev::Exec(*id))?;
                    match e {
                        Effect::Bump => self.counter += 1,
                        Effect::Insert(k, v) => {
                            self.scopes.last_mut().unwrap().markers.insert(*k, *v);
                        }
                        Effect::Set(k, v) => {
                            if let Some(s) = self.scopes.iter_mut().rev().find(|s| s.markers.contains_key(k)) {
                                s.markers.insert(*k, *v);
                            }
                        }
                        Effect::EntryInsert(k, v) => {
                            let k = *k % 4;
                            if !self.visible(k) {
                                self.scopes.last_mut().unwrap().markers.insert(k, *v);
                            }
                        }
                        _ => {}
                    }
                }
                Node::Seq(b) => self.exec(b)?,
                Node::While(c, s, b) => {
                    self.emit(Ev::CInit(*c))?;
                    while self.eval(*c, s)? {
                        self.exec(b)?;
                        match self.scopes.iter_mut().rev().find_map(|s| s.iterations.as_mut()) {
                            Some(it) => *it += 1,
                            None => return Err(Stop::NoIterations),
                        }
                        self.loop_passes += 1;
                    }
                }
                Node::If(c, s, b) => {
                    if self.eval(*c, s)? {
                        self.exec(b)?;
                    }
                }
                Node::IfElse(c, s, a, b) => {
                    if self.eval(*c, s)? {
                        self.exec(a)?;
                    } else {
                        self.exec(b)?;
                    }
                }
                Node::Scope(b) => {
                    self.scopes.push(ScopeM::default());
                    self.max_scope_depth = self.max_scope_depth.max(self.scopes.len());
                    let r = self.init(b).and_then(|_| self.require(b)).and_then(|_| self.exec(b));
                    self.scopes.pop();
                    r?;
                }
                Node::ScopeWith(b) => {
                    self.scopes.push(ScopeM::default());
                    self.max_scope_depth = self.max_scope_depth.max(self.scopes.len());
                    let r = self.emit(Ev::SInit).and_then(|_| {
                        self.scopes.last_mut().unwrap().markers.insert(3, 77);
                        self.init(b)
                    });
                    let r = r.and_then(|_| self.require(b)).and_then(|_| self.exec(b));
                    self.scopes.pop();
                    // the merge function only runs for a scope that completed
                    r?;
                    self.emit(Ev::SMerge)?;
                    self.counter += 1000;
                }
            }
        }
        Ok(())
    }
    fn run(&mut self, nodes: &[Node]) -> Result<(), Stop> {
        self.init(nodes)?;
        let r = self.require(nodes);
        if r.is_err() {
            return r;
        }
        self.exec(nodes)
    }
}

fn model_for(case: &Case, fault_at: Option<usize>) -> Model {
    let mut scopes = Vec::new();
    if case.outer_scope {
        let mut s = ScopeM::default();
        s.markers.insert(0, 900);
        scopes.push(s);
    }
    let mut s = ScopeM::default();
    for (k, v) in case.seeds.iter().enumerate() {
        if let Some(v) = v {
            s.markers.insert(k as u8, *v);
        }
    }
    s.iterations = case.seed_iterations;
    scopes.push(s);
    Model { scopes, counter: 0, trace: Vec::new(), cond_pos: BTreeMap::new(), fault_at, loop_passes: 0, max_scope_depth: 0, fault_depth: None }
}

// ------------------------------------------------------------------------------------------------
// oracle
// ------------------------------------------------------------------------------------------------

fn count_nodes(nodes: &[Node]) -> usize {
    nodes
        .iter()
        .map(|n| match n {
            Node::Leaf(..) => 1,
            Node::Seq(b) | Node::Scope(b) | Node::ScopeWith(b) | Node::While(_, _, b) | Node::If(_, _, b) => 1 + count_nodes(b),
            Node::IfElse(_, _, a, b) => 1 + count_nodes(a) + count_nodes(b),
        })
        .sum()
}

/// (has loop with >= 1 pass is measured by the model) structural facts: nesting depth of scope/branch under a loop
fn nested_depth(nodes: &[Node], d: usize) -> usize {
    nodes
        .iter()
        .map(|n| match n {
            Node::Leaf(..) => d,
            Node::Seq(b) | Node::Scope(b) | Node::ScopeWith(b) | Node::While(_, _, b) | Node::If(_, _, b) => nested_depth(b, d + 1).max(d + 1),
            Node::IfElse(_, _, a, b) => nested_depth(a, d + 1).max(nested_depth(b, d + 1)).max(d + 1),
        })
        .max()
        .unwrap_or(d)
}

fn has_kind(nodes: &[Node], f: &dyn Fn(&Node) -> bool) -> bool {
    nodes.iter().any(|n| {
        f(n) || match n {
            Node::Leaf(..) => false,
            Node::Seq(b) | Node::Scope(b) | Node::ScopeWith(b) | Node::While(_, _, b) | Node::If(_, _, b) => has_kind(b, f),
            Node::IfElse(_, _, a, b) => has_kind(a, f) || has_kind(b, f),
        }
    })
}

pub struct ConfigCheck;

const CL_LOOP_PASS: u64 = 1;
const CL_NESTED2: u64 = 1 << 1;
const CL_FAULT: u64 = 1 << 2;
const CL_FAULT_IN_SCOPE: u64 = 1 << 3;
const CL_ZERO_ITER_LOOP: u64 = 1 << 4;
const CL_REQ_FAIL: u64 = 1 << 5;
const CL_SCOPE: u64 = 1 << 6;
const CL_SHADOW_IN_SCOPE: u64 = 1 << 7;
const CL_FAULT_INIT: u64 = 1 << 8;
const CL_FAULT_REQUIRE: u64 = 1 << 9;
const CL_FAULT_EXEC: u64 = 1 << 10;

impl Check for ConfigCheck {
    type Case = Case;
    fn name(&self) -> String {
        "C03/config-semantics".into()
    }
    fn classes(&self) -> &'static [&'static str] {
        &["loop with >=1 pass", "nesting depth >=2", "fault injected", "fault inside a scope", "zero-iteration loop", "failed requirement", "has scope", "scope shadows outer marker", "fault in init phase", "fault in require phase", "fault in execute/evaluate phase"]
    }
    fn oracle(&self, case: &Case) -> Outcome {
        let mut classes = 0;
        let r = run_case(case, &mut classes);
        let nt = classes & (CL_LOOP_PASS | CL_NESTED2) == (CL_LOOP_PASS | CL_NESTED2) && (has_kind(&case.tree, &|n| matches!(n, Node::Scope(_) | Node::ScopeWith(_) | Node::If(..) | Node::IfElse(..))));
        Outcome::new(nt, classes, r)
    }
}

fn run_real(case: &Case, cfg: &Configuration<RealP>, fault_at: Option<usize>) -> (Vec<Ev>, Result<(), String>, State<'static, RealP>) {
    TL.with(|t| {
        *t.borrow_mut() = Tl { trace: Vec::new(), fault_at, cond_pos: BTreeMap::new() };
    });
    let problem = RealP::new(1, -1.0, 1.0, RealKind::Sphere);
    let mut reg = StateRegistry::new();
    if case.outer_scope {
        reg.insert(T0(900));
        reg = reg.into_child();
    }
    let mut state: State<'static, RealP> = reg.into();
    for (k, v) in case.seeds.iter().enumerate() {
        if let Some(v) = v {
            m_insert(&mut state, k as u8, *v);
        }
    }
    state.insert(Counter(0));
    if let Some(v) = case.seed_iterations {
        state.insert(Iterations(v));
    }
    let r = catch(|| cfg.run(&problem, &mut state));
    let result = match r {
        Ok(Ok(())) => Ok(()),
        Ok(Err(e)) => Err(format!("{e:#}")),
        Err(p) => Err(format!("PANIC: {p}")),
    };
    let trace = TL.with(|t| std::mem::take(&mut t.borrow_mut().trace));
    (trace, result, state)
}

fn first_diff(a: &[Ev], b: &[Ev]) -> String {
    let i = a.iter().zip(b.iter()).position(|(x, y)| x != y).unwrap_or(a.len().min(b.len()));
    format!("first difference at event {i}: real {:?} vs expected {:?} (real len {}, expected len {})", a.get(i), b.get(i), a.len(), b.len())
}

fn run_case(case: &Case, classes: &mut u64) -> Result<(), Failure> {
    // reference run without fault, to resolve the fault point
    let mut free = model_for(case, None);
    let _ = free.run(&case.tree);
    let fault_at = case.fault.map(|f| f as usize % free.trace.len().max(1)).filter(|_| !free.trace.is_empty());
    let mut m = model_for(case, fault_at);
    let expected = m.run(&case.tree);
    // classes
    if m.loop_passes > 0 {
        *classes |= CL_LOOP_PASS;
    }
    if nested_depth(&case.tree, 0) >= 2 {
        *classes |= CL_NESTED2;
    }
    if has_kind(&case.tree, &|n| matches!(n, Node::Scope(_) | Node::ScopeWith(_))) {
        *classes |= CL_SCOPE;
    }
    if has_kind(&case.tree, &|n| matches!(n, Node::While(..))) && m.trace.iter().any(|e| matches!(e, Ev::CEval(_, false))) {
        *classes |= CL_ZERO_ITER_LOOP;
    }
    if let Some(f) = fault_at {
        *classes |= CL_FAULT;
        // inside a scope: the event lies between a scope entry and exit — approximated by: the model's scope depth at the fault
        let base = if case.outer_scope { 2 } else { 1 };
        if m.fault_depth.map_or(false, |d| d > base) {
            *classes |= CL_FAULT_IN_SCOPE;
        }
        match free.trace[f] {
            Ev::Init(_) | Ev::CInit(_) => *classes |= CL_FAULT_INIT,
            Ev::Require(_) | Ev::CRequire(_) => *classes |= CL_FAULT_REQUIRE,
            _ => *classes |= CL_FAULT_EXEC,
        }
    }
    if expected == Err(Stop::ReqMissing) {
        *classes |= CL_REQ_FAIL;
    }
    let caller_depth = if case.outer_scope { 2 } else { 1 };

    let direct = Configuration::new(Block::new(build_direct(&case.tree)));
    let built = build_builder(&case.tree, Configuration::builder()).build();
    let cloned = built.clone();
    for (how, cfg) in [("direct constructors", &direct), ("builder", &built), ("clone of builder result", &cloned)] {
        let (trace, result, state) = run_real(case, cfg, fault_at);
        // 1. trace
        if trace != m.trace {
            let what = classify_trace_diff(&trace, &m.trace, &expected);
            fail!(format!("C03 trace: {what}"), "[{how}] lifecycle/execution trace differs from the structured-program semantics: {}\n tree: {:?}\n real: {trace:?}\n expected: {:?}", first_diff(&trace, &m.trace), case.tree, m.trace);
        }
        // 2. result
        match (&result, &expected) {
            (Ok(()), Ok(())) => {}
            (Err(e), Err(Stop::Injected)) => ensure_that!(e.contains("injected fault"), "C03 returned error is not the injected one", "[{how}] expected the injected error, got: {e}"),
            (Err(e), Err(Stop::ReqMissing)) => ensure_that!(e.contains("is missing, but it is a requirement"), "C03 returned error is not the requirement error", "[{how}] expected the requirement error, got: {e}"),
            (Err(_), Err(Stop::NoIterations)) => {}
            (r, e) => fail!("C03 result", "[{how}] run returned {r:?}, expected {e:?}"),
        }
        // 3. every scope closed again
        let mut depth = 1;
        let mut cur: &StateRegistry = &state;
        while let Some(p) = cur.parent() {
            depth += 1;
            cur = p;
        }
        ensure_that!(depth == caller_depth, "C03 scope left open or caller scope lost", "[{how}] registry depth after the run is {depth}, before it was {caller_depth} (result {result:?})");
        // 4. caller-visible state
        let top = &m.scopes[m.scopes.len() - 1];
        for k in 0..N_MARKERS {
            let want_top = top.markers.get(&k).copied();
            let got_top: Option<i64> = m_top(&state, k);
            let sig = if fault_at.is_some() { "C03 caller state after error" } else { "C03 caller state after run" };
            ensure_that!(got_top == want_top, sig, "[{how}] marker {k} in the caller's scope is {got_top:?}, expected {want_top:?} (scope-created state must be gone, shadowed outer values restored, writes to non-shadowed outer state kept); result {result:?}\n tree: {:?}", case.tree);
        }
        if case.outer_scope {
            let want = m.scopes[0].markers.get(&0).copied();
            let got = state.parent().and_then(|p| p.try_get_value::<T0>().ok());
            ensure_that!(got == want, "C03 outer caller scope", "[{how}] marker 0 in the caller's outer scope is {got:?}, expected {want:?}");
        }
        let got_counter = state.try_borrow::<Counter>().ok().map(|c| c.0);
        ensure_that!(got_counter == Some(m.counter), if fault_at.is_some() { "C03 caller state after error" } else { "C03 counter" }, "[{how}] caller counter state is {got_counter:?}, expected Some({}) ; result {result:?}", m.counter);
        let got_it = if state.contains_at_top::<Iterations>() { state.try_get_value::<Iterations>().ok() } else { None };
        ensure_that!(got_it == top.iterations, "C03 iterations", "[{how}] Iterations in the caller's scope is {got_it:?}, expected {:?} (one counter per scope, reset by each loop initialised there, +1 per completed pass)", top.iterations);
    }
    let _ = (T1(0), T2(0), T3(0));
    Ok(())
}

fn classify_trace_diff(real: &[Ev], want: &[Ev], expected: &Result<(), Stop>) -> &'static str {
    let is_exec = |e: &Ev| matches!(e, Ev::Exec(_) | Ev::CEval(..));
    if expected.is_err() && real.len() > want.len() && real[..want.len()] == *want {
        return "execution continues after the first error";
    }
    if *expected == Err(Stop::ReqMissing) && real.iter().any(is_exec) {
        return "something executed although a requirement failed";
    }
    let i = real.iter().zip(want.iter()).position(|(x, y)| x != y).unwrap_or(real.len().min(want.len()));
    match (real.get(i), want.get(i)) {
        (Some(Ev::Init(_) | Ev::CInit(_)), _) | (_, Some(Ev::Init(_) | Ev::CInit(_))) => "initialisation order/count",
        (Some(Ev::Require(_) | Ev::CRequire(_)), _) | (_, Some(Ev::Require(_) | Ev::CRequire(_))) => "requirement check order/count",
        (Some(Ev::CEval(..)), _) | (_, Some(Ev::CEval(..))) => "condition evaluation order/count",
        _ => "execution order/count",
    }
}

// ------------------------------------------------------------------------------------------------
// generators
// ------------------------------------------------------------------------------------------------

/// Renumbers leaves and conditions in pre-order so that ids are unique.
pub fn normalise(nodes: &mut [Node], next_leaf: &mut u16, next_cond: &mut u16) {
    for n in nodes {
        match n {
            Node::Leaf(id, _) => {
                *id = *next_leaf;
                *next_leaf += 1;
            }
            Node::Seq(b) | Node::Scope(b) | Node::ScopeWith(b) => normalise(b, next_leaf, next_cond),
            Node::While(c, _, b) | Node::If(c, _, b) => {
                *c = *next_cond;
                *next_cond += 1;
                normalise(b, next_leaf, next_cond);
            }
            Node::IfElse(c, _, a, b) => {
                *c = *next_cond;
                *next_cond += 1;
                normalise(a, next_leaf, next_cond);
                normalise(b, next_leaf, next_cond);
            }
        }
    }
}

/// All forests (Vec<Node>) with exactly `n` nodes; leaf effects and scripts are filled in by `variants`.
fn forests(n: usize, memo: &mut BTreeMap<usize, Vec<Vec<Node>>>) -> Vec<Vec<Node>> {
    if let Some(v) = memo.get(&n) {
        return v.clone();
    }
    let mut out = Vec::new();
    if n == 0 {
        out.push(Vec::new());
    } else {
        // first tree has k nodes, the rest is a forest of n-k
        for k in 1..=n {
            let firsts = trees(k, memo);
            let rests = forests(n - k, memo);
            for f in &firsts {
                for r in &rests {
                    let mut v = vec![f.clone()];
                    v.extend(r.iter().cloned());
                    out.push(v);
                }
            }
        }
    }
    memo.insert(n, out.clone());
    out
}

fn trees(k: usize, memo: &mut BTreeMap<usize, Vec<Vec<Node>>>) -> Vec<Node> {
    let mut out = Vec::new();
    if k == 1 {
        out.push(Node::Leaf(0, Effect::None));
    }
    if k >= 1 {
        // unary constructs with a body of k-1 nodes (body may be empty)
        for body in forests(k - 1, memo) {
            out.push(Node::Scope(body.clone()));
            out.push(Node::ScopeWith(body.clone()));
            out.push(Node::While(0, vec![], body.clone()));
            out.push(Node::If(0, vec![], body.clone()));
            if k >= 2 {
                out.push(Node::Seq(body.clone()));
            }
        }
        // if/else with bodies a + b = k-1, both non-empty (the empty-else case is `If`)
        for a in 1..k.saturating_sub(1) {
            let b = k - 1 - a;
            for x in forests(a, memo) {
                for y in forests(b, memo) {
                    out.push(Node::IfElse(0, vec![], x.clone(), y.clone()));
                }
            }
        }
    }
    out
}

/// Expands a shape into all assignments of scripts ({[],[T],[T,T]} for loops, {[T],[F]} for branches)
/// and leaf effects (a small alphabet that depends on the leaf position so that the product stays bounded).
fn variants(shape: &[Node], leaf_kinds: &[Effect]) -> Vec<Vec<Node>> {
    fn expand(nodes: &[Node], leaf_kinds: &[Effect]) -> Vec<Vec<Node>> {
        let mut acc: Vec<Vec<Node>> = vec![Vec::new()];
        for n in nodes {
            let alts: Vec<Node> = match n {
                Node::Leaf(id, _) => leaf_kinds.iter().map(|e| Node::Leaf(*id, e.clone())).collect(),
                Node::Seq(b) => expand(b, leaf_kinds).into_iter().map(Node::Seq).collect(),
                Node::Scope(b) => expand(b, leaf_kinds).into_iter().map(Node::Scope).collect(),
                Node::ScopeWith(b) => expand(b, leaf_kinds).into_iter().map(Node::ScopeWith).collect(),
                Node::While(c, _, b) => {
                    let bodies = expand(b, leaf_kinds);
                    let mut v = Vec::new();
                    for s in [vec![], vec![true], vec![true, true]] {
                        for body in &bodies {
                            v.push(Node::While(*c, s.clone(), body.clone()));
                        }
                    }
                    v
                }
                Node::If(c, _, b) => {
                    let bodies = expand(b, leaf_kinds);
                    let mut v = Vec::new();
                    for s in [vec![true], vec![false]] {
                        for body in &bodies {
                            v.push(Node::If(*c, s.clone(), body.clone()));
                        }
                    }
                    v
                }
                Node::IfElse(c, _, a, b) => {
                    let xs = expand(a, leaf_kinds);
                    let ys = expand(b, leaf_kinds);
                    let mut v = Vec::new();
                    for s in [vec![true], vec![false]] {
                        for x in &xs {
                            for y in &ys {
                                v.push(Node::IfElse(*c, s.clone(), x.clone(), y.clone()));
                            }
                        }
                    }
                    v
                }
            };
            let mut next = Vec::with_capacity(acc.len() * alts.len());
            for prefix in &acc {
                for a in &alts {
                    let mut p = prefix.clone();
                    p.push(a.clone());
                    next.push(p);
                }
            }
            acc = next;
        }
        acc
    }
    expand(shape, leaf_kinds)
}

/// Exhaustive cases: all trees with <= n nodes x scripts x leaf kinds x (no fault + every single fault point).
fn exhaustive_cases(n: usize, leaf_kinds: Vec<Effect>) -> impl Iterator<Item = Case> {
    let mut memo = BTreeMap::new();
    let mut shapes: Vec<Vec<Node>> = Vec::new();
    for k in 0..=n {
        shapes.extend(forests(k, &mut memo));
    }
    shapes.into_iter().flat_map(move |shape| {
        let vs = variants(&shape, &leaf_kinds);
        vs.into_iter().flat_map(|mut tree| {
            let (mut a, mut b) = (0, 0);
            normalise(&mut tree, &mut a, &mut b);
            let base = Case { tree, seeds: [Some(7), None, None, None, Some(3)], outer_scope: false, fault: None, seed_iterations: Some(40) };
            let mut free = model_for(&base, None);
            let _ = free.run(&base.tree);
            let len = free.trace.len();
            let mut cases = vec![base.clone()];
            for f in 0..len {
                let mut c = base.clone();
                c.fault = Some(f as u16);
                cases.push(c);
            }
            cases
        })
    })
}

fn effect_strategy() -> impl Strategy<Value = Effect> {
    prop_oneof![
        2 => Just(Effect::None),
        3 => Just(Effect::Bump),
        2 => (0u8..4).prop_map(Effect::Hold),
        2 => (0u8..4, 150i64..199).prop_map(|(k, v)| Effect::EntryInsert(k, v)),
        3 => (0u8..N_MARKERS, 0i64..50).prop_map(|(k, v)| Effect::Insert(k, v)),
        1 => (0u8..N_MARKERS, 50i64..99).prop_map(|(k, v)| Effect::InitInsert(k, v)),
        3 => (0u8..N_MARKERS, 100i64..150).prop_map(|(k, v)| Effect::Set(k, v)),
        1 => (0u8..N_MARKERS).prop_map(Effect::Require),
    ]
}

fn script_strategy() -> impl Strategy<Value = Vec<bool>> {
    proptest::collection::vec(prop_oneof![3 => Just(true), 1 => Just(false)], 0..4)
}

fn node_strategy() -> impl Strategy<Value = Node> {
    let leaf = effect_strategy().prop_map(|e| Node::Leaf(0, e));
    leaf.prop_recursive(6, 40, 4, |inner| {
        let body = proptest::collection::vec(inner.clone(), 0..4);
        prop_oneof![
            3 => effect_strategy().prop_map(|e| Node::Leaf(0, e)),
            1 => body.clone().prop_map(Node::Seq),
            3 => (script_strategy(), body.clone()).prop_map(|(s, b)| Node::While(0, s, b)),
            2 => (script_strategy(), body.clone()).prop_map(|(s, b)| Node::If(0, s, b)),
            2 => (script_strategy(), body.clone(), body.clone()).prop_map(|(s, a, b)| Node::IfElse(0, s, a, b)),
            3 => body.clone().prop_map(Node::Scope),
            2 => body.prop_map(Node::ScopeWith),
        ]
    })
}

fn case_strategy() -> impl Strategy<Value = Case> {
    (
        proptest::collection::vec(node_strategy(), 0..5),
        [proptest::option::of(0i64..9), proptest::option::of(10i64..19), proptest::option::of(20i64..29), proptest::option::of(30i64..39), proptest::option::of(40i64..49)],
        any::<bool>(),
        prop_oneof![1 => Just(None), 3 => (0u16..64).prop_map(Some)],
        prop_oneof![2 => Just(None), 1 => (0u32..60).prop_map(Some)],
    )
        .prop_map(|(mut tree, seeds, outer_scope, fault, seed_iterations)| {
            let (mut a, mut b) = (0, 0);
            normalise(&mut tree, &mut a, &mut b);
            Case { tree, seeds, outer_scope, fault, seed_iterations }
        })
}

pub fn run_all(ctx: &mut Ctx, replay: Option<&Path>) {
    ctx.level("fault_enumeration");
    ctx.rule("case = configuration tree over {leaf, seq, while, if, if/else, scope} with scripted condition outcomes, leaf state effects, pre-seeded caller markers and at most one injected fault (the k-th event of the fault-free reference trace fails, whatever its phase: init/require/execute/evaluate); each case is built through the builder, through the direct constructors and cloned, run with Configuration::run, and compared with a reference interpreter: full lifecycle trace, returned error, registry depth, every caller marker, the counter state and Iterations; non-trivial = tree has a loop with >= 1 pass and a scope or branch, nesting depth >= 2; distinct by (tree, seeds, fault)");
    ctx.assume("script positions of the harness conditions are global per condition (not reset by init), so every program terminates");
    let k = ConfigCheck;
    if let Some(p) = replay {
        ctx.replay_file(&k, p);
        return;
    }
    ctx.regressions(&k);
    let kinds3 = vec![Effect::Bump, Effect::Insert(4, 41), Effect::Set(0, 142), Effect::Hold(0), Effect::EntryInsert(1, 171)];
    match ctx.tier {
        crate::engine::Tier::Quick => {
            ctx.exhaustive(&k, "all trees with <= 3 nodes x scripts {[],[T],[T,T]} / {[T],[F]} x 3 leaf effects x every single fault point", exhaustive_cases(3, kinds3.clone()));
            ctx.exhaustive(&k, "all trees with exactly 4 nodes (leaf effect fixed to `insert the Evaluations marker`) x scripts x every single fault point", exhaustive_cases(4, vec![Effect::Insert(4, 41)]).filter(|c| count_nodes(&c.tree) == 4));
        }
        crate::engine::Tier::Thorough => {
            ctx.exhaustive(&k, "all trees with <= 4 nodes x scripts x 3 leaf effects x every single fault point", exhaustive_cases(4, kinds3));
            ctx.exhaustive(&k, "all trees with exactly 5 nodes (leaf effect fixed to `insert the Evaluations marker`) x scripts x every single fault point", exhaustive_cases(5, vec![Effect::Insert(4, 41)]).filter(|c| count_nodes(&c.tree) == 5));
        }
    }
    let n = ctx.tier.pick(4000, 60_000);
    ctx.random(&k, case_strategy(), n);
}
