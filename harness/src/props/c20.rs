//! C20 — chemical-reaction steps conserve energy and keep molecules aligned.

use std::{
    path::Path,
    sync::{Arc, Mutex},
};

use mahf::{
    components::misc::cro::{ChemicalReaction, DecompositionUpdate, EnergyBuffer, IntermolecularIneffectiveCollisionUpdate, Molecule, OnWallIneffectiveCollisionUpdate, SynthesisUpdate},
    Component, Individual, State,
};
use proptest::prelude::*;
use serde::{Deserialize, Serialize};

use crate::{
    engine::{catch, soft_fail, Check, Ctx, Failure, Outcome},
    ensure_that, fail,
    fixtures::{
        problems::{RealKind, RealP},
        run::{run_observed_auto, build_real, inst_strategy, real_of, run_observed, tpl_strategy, Audit, EvalKind, Kind, Phase, RunSpec, StepEv},
        state_with,
    },
};

#[derive(Clone, Copy, Debug, Serialize, Deserialize, PartialEq)]
pub enum Reaction {
    OnWall,
    Decomposition,
    Intermolecular,
    Synthesis,
}

#[derive(Clone, Debug, Serialize, Deserialize)]
pub struct PrepCase {
    pub reaction: Reaction,
    /// (objective, kinetic energy) per individual; tags are the indices
    pub pop: Vec<(f64, f64)>,
    pub buffer: f64,
    pub r1: u8,
    pub r2: u8,
    pub p1: f64,
    pub p2: f64,
    pub lr: f64,
    pub seed: u64,
    /// make the second reactant an equal-by-value copy of the first one (two equal molecules in the population)
    pub duplicate: bool,
    /// on-wall collision: the product's objective value is the reactant's total energy moved by that many
    /// representable values (the acceptance condition `total >= product` at and around equality)
    #[serde(default)]
    pub p1_ulps: Option<i8>,
    /// all energies in a unit of 1e-17
    #[serde(default)]
    pub tiny: bool,
    /// two-reactant reactions: this member (if it is neither reactant) encodes the same solution as the second reactant
    /// but carries its own, different objective value (e.g. re-evaluated under a changed objective)
    #[serde(default)]
    pub alias: Option<u8>,
    /// on-wall collision / decomposition: objective values of the population and of the first product lie 9e15 higher
    /// (kinetic energies, buffer and the second product stay small: differences of a few representable steps)
    #[serde(default)]
    pub huge: bool,
}

fn ind(tag: usize, obj: f64) -> Individual<RealP> {
    Individual::new(vec![tag as f64], obj.try_into().unwrap())
}

pub struct PrepCheck;

impl Check for PrepCheck {
    type Case = PrepCase;
    fn name(&self) -> String {
        "C20/prepared-reactions".into()
    }
    fn classes(&self) -> &'static [&'static str] {
        &["rejected reaction", "accepted only with buffer help", "accepted", "zero kinetic energy", "equal-by-value reactants", "population of one", "on-wall product energy within two representable values of the reactant's total energy", "energies in a unit of 1e-17", "a bystander encodes the same solution as the second reactant", "objective values 9e15 apart from the kinetic energies (differences of a few representable steps)"]
    }
    fn oracle(&self, c: &PrepCase) -> Outcome {
        let mut cl = 0;
        let r = prep_oracle(c, &mut cl);
        Outcome::new(cl & 3 != 0, cl, r)
    }
}

fn energy(pop: &[(f64, f64)], buffer: f64) -> (f64, f64) {
    let e: f64 = pop.iter().map(|p| p.0 + p.1).sum::<f64>() + buffer;
    let mag: f64 = pop.iter().map(|p| p.0.abs() + p.1.abs()).sum::<f64>() + buffer.abs();
    (e, mag)
}

fn prep_oracle(c: &PrepCase, cl: &mut u64) -> Result<(), Failure> {
    let n = c.pop.len();
    if n == 0 {
        return Ok(());
    }
    let two = matches!(c.reaction, Reaction::Intermolecular | Reaction::Synthesis);
    if two && n < 2 {
        return Ok(());
    }
    if n == 1 {
        *cl |= 32;
    }
    let r1 = c.r1 as usize % n;
    let mut r2 = c.r2 as usize % n;
    if two && r2 == r1 {
        r2 = (r1 + 1) % n;
    }
    let mut c = c.clone();
    if c.tiny {
        for p in c.pop.iter_mut() {
            p.0 *= 1e-17;
            p.1 *= 1e-17;
        }
        c.buffer *= 1e-17;
        c.p1 *= 1e-17;
        c.p2 *= 1e-17;
        *cl |= 128;
    }
    if c.huge && !c.tiny && matches!(c.reaction, Reaction::OnWall | Reaction::Decomposition) {
        for p in c.pop.iter_mut() {
            p.0 += 9e15;
        }
        c.p1 += 9e15;
        *cl |= 512;
    }
    if let (Reaction::OnWall, Some(k)) = (c.reaction, c.p1_ulps) {
        let mut v = c.pop[r1].0 + c.pop[r1].1;
        for _ in 0..k.unsigned_abs() {
            v = if k > 0 { crate::props::c10::next_up(v) } else { crate::props::c10::next_down(v) };
        }
        c.p1 = v;
        *cl |= 64;
    }
    let c = &c;
    let mut pop = c.pop.clone();
    let mut tags: Vec<usize> = (0..n).collect();
    if let (true, Some(b)) = (two && !c.duplicate, c.alias) {
        let b = b as usize % n;
        if b != r1 && b != r2 && pop[b].0 != pop[r2].0 {
            tags[b] = tags[r2];
            *cl |= 256;
        }
    }
    if two && c.duplicate {
        // two equal-by-value molecules in the population
        pop[r2].0 = pop[r1].0;
        tags[r2] = tags[r1];
        *cl |= 16;
    }
    if pop.iter().any(|p| p.1 == 0.0) {
        *cl |= 8;
    }
    let problem = RealP::new(1, 0.0, 1.0, RealKind::Tag);
    let population: Vec<Individual<RealP>> = (0..n).map(|i| ind(tags[i], pop[i].0)).collect();
    let reactants: Vec<Individual<RealP>> = if two { vec![population[r1].clone(), population[r2].clone()] } else { vec![population[r1].clone()] };
    let products: Vec<Individual<RealP>> = match c.reaction {
        Reaction::OnWall | Reaction::Synthesis => vec![ind(100, c.p1)],
        _ => vec![ind(100, c.p1), ind(101, c.p2)],
    };
    let below = vec![ind(900, 0.0)];
    // one seed in four: the generator first replays a script of edge-value words (energy splits of exactly 0, of the
    // largest value below 1, ...): the bookkeeping is exact for every draw
    let mut st = crate::fixtures::state_with_scripted::<RealP>(vec![below.clone(), population.clone(), reactants, products.clone()], c.seed);
    st.insert(ChemicalReaction::<RealP>((0..n).map(|i| Molecule { kinetic_energy: pop[i].1, num_hit: 3, min_hit: 1, best: population[i].clone() }).collect()));
    st.insert(EnergyBuffer(c.buffer));
    let comp: Box<dyn Component<RealP>> = match c.reaction {
        Reaction::OnWall => OnWallIneffectiveCollisionUpdate::new(c.lr),
        Reaction::Decomposition => DecompositionUpdate::new(),
        Reaction::Intermolecular => IntermolecularIneffectiveCollisionUpdate::new(),
        Reaction::Synthesis => SynthesisUpdate::new(),
    };
    let at = format!("{c:?} (reactants at {r1}{})", if two { format!(", {r2}") } else { String::new() });
    let r = catch(|| {
        comp.require(&problem, &st.requirements())?;
        comp.execute(&problem, &mut st)
    });
    match r {
        Ok(Ok(())) => {}
        Ok(Err(e)) => return soft_fail(Failure::new(format!("C20 {:?} update errs on a well-formed state", c.reaction), format!("{at}: {e:#}"))),
        Err(p) => return soft_fail(Failure::new(format!("C20 {:?} update panics", c.reaction), format!("{at}: {p}"))),
    }
    let ps = st.populations();
    ensure_that!(ps.len() == 2, "C20 update does not consume exactly the reactant and product populations", "{at}: stack height {} after (4 before)", ps.len());
    ensure_that!(ps.peek(1).len() == 1 && ps.peek(1)[0] == below[0], "C20 update touches populations below", "{at}");
    let after: Vec<(usize, f64)> = ps.current().iter().map(|i| (i.solution()[0] as usize, i.objective().value())).collect();
    let mols = st.borrow::<ChemicalReaction<RealP>>();
    let buffer = st.get_value::<EnergyBuffer>();
    ensure_that!(mols.len() == after.len(), "C20 molecule list not aligned with the population", "{at}: {} molecules for {} individuals", mols.len(), after.len());
    ensure_that!(buffer >= 0.0, "C20 negative energy buffer", "{at}: buffer = {buffer}");
    for (k, m) in mols.iter().enumerate() {
        ensure_that!(m.kinetic_energy >= 0.0, "C20 negative kinetic energy", "{at}: molecule {k} has kinetic energy {}", m.kinetic_energy);
    }
    // energy conservation
    let (e0, mag) = energy(&pop, c.buffer);
    let e1: f64 = after.iter().map(|a| a.1).sum::<f64>() + mols.iter().map(|m| m.kinetic_energy).sum::<f64>() + buffer;
    ensure_that!((e1 - e0).abs() <= 1e-9 * (1.0 + mag + c.p1.abs() + c.p2.abs()), format!("C20 {:?} update does not conserve energy", c.reaction), "{at}: total energy {e0} before, {e1} after (population {after:?}, kinetic {:?}, buffer {buffer})", mols.iter().map(|m| m.kinetic_energy).collect::<Vec<_>>());
    // structure per reaction
    let before_tags: Vec<(usize, f64)> = (0..n).map(|i| (tags[i], pop[i].0)).collect();
    let tot1 = pop[r1].0 + pop[r1].1;
    let tot2 = if two { pop[r2].0 + pop[r2].1 } else { 0.0 };
    let untouched_ok = |skip: &[usize], after: &[(usize, f64)]| -> bool { (0..n).filter(|i| !skip.contains(i)).all(|i| after.get(i) == Some(&before_tags[i]) && mols[i].kinetic_energy == pop[i].1) };
    match c.reaction {
        Reaction::OnWall => {
            ensure_that!(after.len() == n, "C20 on-wall collision changes the population size", "{at}");
            let accepted = after[r1].0 == 100;
            let must = tot1 >= c.p1;
            ensure_that!(accepted == must, "C20 on-wall collision acceptance", "{at}: accepted = {accepted}, reactant energy {tot1} vs product {}", c.p1);
            ensure_that!(untouched_ok(&[r1], &after), "C20 untouched molecules changed", "{at}: {after:?}");
            if accepted {
                *cl |= 4;
                let ke = mols[r1].kinetic_energy;
                let surplus = tot1 - c.p1;
                ensure_that!(ke <= surplus * (1.0 + 1e-12) + 1e-300 && ke >= surplus * c.lr * (1.0 - 1e-12) - 1e-300, "C20 on-wall kinetic energy share", "{at}: kinetic energy {ke}, surplus {surplus}, loss rate {}", c.lr);
                ensure_that!(mols[r1].num_hit == 4, "C20 hit counter", "{at}: num_hit {}", mols[r1].num_hit);
            } else {
                *cl |= 1;
                ensure_that!(after == before_tags && buffer == c.buffer && mols[r1].kinetic_energy == pop[r1].1, "C20 rejected reaction changes something besides hit counters", "{at}: {after:?} buffer {buffer}");
                ensure_that!(mols[r1].num_hit == 4, "C20 hit counter", "{at}: num_hit {}", mols[r1].num_hit);
            }
        }
        Reaction::Decomposition => {
            let accepted = after.len() == n + 1;
            let products = c.p1 + c.p2;
            if tot1 >= products {
                ensure_that!(accepted, "C20 decomposition rejected although the reactant has enough energy", "{at}");
            }
            if tot1 + c.buffer < products {
                ensure_that!(!accepted, "C20 decomposition accepted although even the whole buffer is not enough", "{at}");
            }
            if accepted {
                *cl |= if tot1 >= products { 4 } else { 2 };
                ensure_that!(after[r1].0 == 100 && after[n].0 == 101, "C20 decomposition products not placed at the reactant's index and the end", "{at}: {after:?}");
                ensure_that!(untouched_ok(&[r1], &after), "C20 untouched molecules changed", "{at}: {after:?}");
                if tot1 >= products {
                    ensure_that!(buffer == c.buffer, "C20 decomposition takes from the buffer without need", "{at}: buffer {} -> {buffer}", c.buffer);
                } else {
                    ensure_that!(buffer <= c.buffer, "C20 decomposition increases the buffer", "{at}");
                }
            } else {
                *cl |= 1;
                ensure_that!(after == before_tags && buffer == c.buffer && (0..n).all(|i| mols[i].kinetic_energy == pop[i].1), "C20 rejected reaction changes something besides hit counters", "{at}: {after:?} buffer {buffer}");
            }
        }
        Reaction::Intermolecular => {
            ensure_that!(after.len() == n, "C20 intermolecular collision changes the population size", "{at}");
            let must = tot1 + tot2 >= c.p1 + c.p2;
            let tags_after: Vec<usize> = after.iter().map(|a| a.0).collect();
            let accepted = tags_after.contains(&100) && tags_after.contains(&101);
            ensure_that!(accepted == must, "C20 intermolecular collision acceptance", "{at}: accepted = {accepted}, reactants {} vs products {}", tot1 + tot2, c.p1 + c.p2);
            if accepted {
                *cl |= 4;
                let i1 = tags_after.iter().position(|t| *t == 100).unwrap();
                let i2 = tags_after.iter().position(|t| *t == 101).unwrap();
                if !c.duplicate {
                    ensure_that!(i1 == r1 && i2 == r2, "C20 products not placed at the reactants' indices", "{at}: products at {i1}, {i2}");
                }
                ensure_that!(untouched_ok(&[i1, i2], &after), "C20 untouched molecules changed", "{at}: {after:?}");
            } else {
                *cl |= 1;
                ensure_that!(after == before_tags && buffer == c.buffer && (0..n).all(|i| mols[i].kinetic_energy == pop[i].1), "C20 rejected reaction changes something besides hit counters", "{at}");
            }
            ensure_that!(buffer == c.buffer, "C20 intermolecular collision changes the buffer", "{at}");
        }
        Reaction::Synthesis => {
            let must = tot1 + tot2 >= c.p1;
            let accepted = after.len() == n - 1;
            ensure_that!(accepted == must, "C20 synthesis acceptance", "{at}: accepted = {accepted}, reactants {} vs product {}", tot1 + tot2, c.p1);
            if accepted {
                *cl |= 4;
                ensure_that!(after.iter().filter(|a| a.0 == 100).count() == 1, "C20 synthesis product missing", "{at}: {after:?}");
                // everything except the two reactants keeps its relative order
                let rest_before: Vec<(usize, f64)> = (0..n).filter(|i| *i != r1 && *i != r2).map(|i| before_tags[i]).collect();
                let rest_after: Vec<(usize, f64)> = after.iter().filter(|a| a.0 != 100).cloned().collect();
                if !c.duplicate {
                    ensure_that!(rest_before == rest_after, "C20 untouched molecules changed", "{at}: {after:?}");
                }
            } else {
                *cl |= 1;
                ensure_that!(after == before_tags && (0..n).all(|i| mols[i].kinetic_energy == pop[i].1), "C20 rejected reaction changes something besides hit counters", "{at}");
            }
            ensure_that!(buffer == c.buffer, "C20 synthesis changes the buffer", "{at}");
        }
    }
    // molecule <-> individual alignment: a molecule's record belongs to the individual at the same index
    for (k, m) in mols.iter().enumerate() {
        if m.best.solution()[0] as usize >= 100 {
            ensure_that!(after[k].0 == m.best.solution()[0] as usize, "C20 molecule list not aligned with the population", "{at}: molecule {k} was created for product {} but individual {k} is {:?}", m.best.solution()[0], after[k]);
        }
    }
    Ok(())
}

// ------------------------------------------------------------------------------------------------
// runs
// ------------------------------------------------------------------------------------------------

#[derive(Default)]
struct A20 {
    failure: Option<Failure>,
    before: Option<(f64, f64, usize)>,
    seen: [u32; 4],
    steps: u32,
}

fn total_energy(state: &State<RealP>, depth: usize) -> Option<(f64, f64, usize, usize)> {
    let ps = state.populations();
    let pop = ps.try_peek(depth)?;
    let mols = state.try_borrow::<ChemicalReaction<RealP>>().ok()?;
    let buffer = state.try_get_value::<EnergyBuffer>().ok()?;
    let mut e = buffer;
    let mut mag = buffer.abs();
    for i in pop {
        let o = i.get_objective()?.value();
        e += o;
        mag += o.abs();
    }
    for m in mols.iter() {
        e += m.kinetic_energy;
        mag += m.kinetic_energy.abs();
    }
    Some((e, mag, pop.len(), mols.len()))
}

impl Audit<RealP> for A20 {
    fn step(&mut self, _p: &RealP, state: &State<RealP>, ev: &StepEv) {
        if self.failure.is_some() {
            return;
        }
        let which = match ev.name {
            "OnWallIneffectiveCollisionUpdate" => 0,
            "DecompositionUpdate" => 1,
            "IntermolecularIneffectiveCollisionUpdate" => 2,
            "SynthesisUpdate" => 3,
            _ => return,
        };
        match ev.phase {
            Phase::Before => {
                self.before = total_energy(state, 2).map(|(e, m, _, _)| (e, m, state.populations().len()));
            }
            Phase::After => {
                if !ev.ok {
                    return;
                }
                self.steps += 1;
                self.seen[which] += 1;
                let Some((e0, mag0, h0)) = self.before.take() else { return };
                let h1 = state.populations().len();
                if h1 + 2 != h0 {
                    self.failure = Some(Failure::new("C20 update does not consume exactly the reactant and product populations", format!("{}: stack height {h0} -> {h1}", ev.name)));
                    return;
                }
                let Some((e1, mag1, np, nm)) = total_energy(state, 0) else { return };
                if np != nm {
                    self.failure = Some(Failure::new("C20 molecule list not aligned with the population", format!("after {}: {nm} molecules for {np} individuals", ev.name)));
                    return;
                }
                if (e1 - e0).abs() > 1e-9 * (1.0 + mag0.max(mag1)) {
                    self.failure = Some(Failure::new(format!("C20 {} does not conserve energy", ev.name), format!("step {}: total energy {e0} before, {e1} after", self.steps)));
                    return;
                }
                let buffer = state.try_get_value::<EnergyBuffer>().unwrap_or(0.0);
                let neg = state.try_borrow::<ChemicalReaction<RealP>>().map(|m| m.iter().any(|x| x.kinetic_energy < 0.0)).unwrap_or(false);
                if buffer < 0.0 || neg {
                    self.failure = Some(Failure::new("C20 negative energy", format!("after {}: buffer {buffer}, negative kinetic energy: {neg}", ev.name)));
                }
            }
        }
    }
}

pub struct RunCheck;

impl Check for RunCheck {
    type Case = RunSpec;
    fn name(&self) -> String {
        "C20/cro-run".into()
    }
    fn classes(&self) -> &'static [&'static str] {
        &["all four reactions occurred", "on-wall", "decomposition", "intermolecular", "synthesis", "dimension <= 2"]
    }
    fn oracle(&self, spec: &RunSpec) -> Outcome {
        let mut cl = 0;
        let problem = real_of(&spec.inst);
        let cfg = match build_real(&spec.tpl, spec.iters) {
            Some(Ok(c)) => c,
            _ => return Outcome::new(false, 0, Ok(())),
        };
        let audit = Arc::new(Mutex::new(A20::default()));
        let _ = run_observed_auto(&cfg, &problem, spec.seed, EvalKind::Sequential, audit.clone());
        let a = audit.lock().unwrap();
        for k in 0..4 {
            if a.seen[k] > 0 {
                cl |= 2 << k;
            }
        }
        if a.seen.iter().all(|s| *s > 0) {
            cl |= 1;
        }
        if spec.inst.dim() <= 2 {
            cl |= 64;
        }
        let r = match &a.failure {
            Some(f) => soft_fail(Failure::new(f.sig.clone(), format!("{spec:?}: {}", f.msg))),
            None => Ok(()),
        };
        Outcome::new(cl & 1 != 0, cl, r)
    }
}

fn prep_strategy() -> impl Strategy<Value = PrepCase> {
    let val = prop_oneof![3 => -5.0f64..20.0, 1 => Just(0.0), 1 => (-3i32..10).prop_map(|v| v as f64)];
    let ke = prop_oneof![2 => Just(0.0), 3 => 0.0f64..5.0, 2 => 0.0f64..200.0];
    (
        prop_oneof![Just(Reaction::OnWall), Just(Reaction::Decomposition), Just(Reaction::Intermolecular), Just(Reaction::Synthesis)],
        proptest::collection::vec((val.clone(), ke), 1..7),
        prop_oneof![2 => Just(0.0), 3 => 0.0f64..5.0, 2 => 0.0f64..500.0],
        any::<u8>(),
        any::<u8>(),
        prop_oneof![4 => -10.0f64..40.0, 1 => 100.0f64..1000.0],
        prop_oneof![4 => -10.0f64..40.0, 1 => 100.0f64..1000.0],
        prop_oneof![Just(0.0), Just(0.5), 0.0f64..0.99],
        any::<u64>(),
        (prop_oneof![4 => Just(false), 1 => Just(true)], prop_oneof![3 => Just(None), 1 => (-2i8..3).prop_map(Some)], prop_oneof![5 => Just(false), 1 => Just(true)], prop_oneof![2 => Just(None), 1 => any::<u8>().prop_map(Some)], prop_oneof![5 => Just(false), 1 => Just(true)]),
    )
        .prop_map(|(reaction, pop, buffer, r1, r2, p1, p2, lr, seed, (duplicate, p1_ulps, tiny, alias, huge))| PrepCase { reaction, pop, buffer, r1, r2, p1, p2, lr, seed, duplicate, p1_ulps, tiny, alias, huge })
}

/// `ChemicalReactionInit` executed on a population of `first` individuals and later, in the same state, on one of
/// `second` individuals (a second stage of the same run after a truncation or restart).
#[derive(Clone, Debug, Serialize, Deserialize)]
pub struct InitCase {
    pub first: u8,
    pub second: u8,
    pub nest: u8,
}

pub struct InitCheck;

impl Check for InitCheck {
    type Case = InitCase;
    fn name(&self) -> String {
        "C20/reaction-init".into()
    }
    fn classes(&self) -> &'static [&'static str] {
        &["second population smaller", "second population larger", "empty population"]
    }
    fn oracle(&self, c: &InitCase) -> Outcome {
        use mahf::components::misc::cro::ChemicalReactionInit;
        let (n1, n2) = ((c.first % 9) as usize, (c.second % 9) as usize);
        let mut cl = 0;
        if n2 < n1 {
            cl |= 1;
        }
        if n2 > n1 {
            cl |= 2;
        }
        if n1 == 0 || n2 == 0 {
            cl |= 4;
        }
        let r = (|| -> Result<(), Failure> {
            let problem = RealP::new(1, 0.0, 1.0, RealKind::Tag);
            // nest bit 1: another population (of another size) lies below the one the reaction works on
            let mut pops: Vec<Vec<Individual<RealP>>> = Vec::new();
            if c.nest & 2 != 0 {
                pops.push((0..n1 + 2).map(|k| ind(900 + k, 5.0)).collect());
            }
            pops.push((0..n1).map(|k| ind(k, k as f64)).collect());
            let mut st = state_with::<RealP>(pops, 1);
            let comp: Box<dyn Component<RealP>> = ChemicalReactionInit::new::<RealP>(2.5, 7.0);
            comp.init(&problem, &mut st).map_err(|e| Failure::new("C20 ChemicalReactionInit init fails", format!("{e:#}")))?;
            let check = |st: &State<RealP>, stage: &str, n: usize| -> Result<(), Failure> {
                let mols = st.borrow::<ChemicalReaction<RealP>>();
                let ps = st.populations();
                ensure_that!(mols.len() == n && ps.current().len() == n, "C20 molecule list not aligned with the population", "{c:?}: {stage}: {} molecule records for {} individuals of the current population (expected {n})", mols.len(), ps.current().len());
                for (k, (m, i)) in mols.iter().zip(ps.current().iter()).enumerate() {
                    ensure_that!(m.best == *i && m.kinetic_energy == 2.5 && m.num_hit == 0, "C20 molecule list not aligned with the population", "{c:?}: {stage}: molecule {k} does not describe individual {k} of the current population (best {:?}, kinetic energy {}, hits {})", m.best.solution(), m.kinetic_energy, m.num_hit);
                }
                Ok(())
            };
            let r = catch(|| comp.execute(&problem, &mut st));
            ensure_that!(matches!(r, Ok(Ok(()))), "C20 ChemicalReactionInit fails", "{c:?}: first stage: {r:?}");
            check(&st, "after the first initialisation", n1)?;
            if c.nest & 1 == 0 {
                // second stage in the same scope on a replaced population
                *st.populations_mut().current_mut() = (0..n2).map(|k| ind(50 + k, 100.0 + k as f64)).collect();
                let r = catch(|| comp.execute(&problem, &mut st));
                ensure_that!(matches!(r, Ok(Ok(()))), "C20 ChemicalReactionInit fails", "{c:?}: second stage: {r:?}");
                check(&st, "after the second initialisation", n2)?;
            } else {
                // a nested reaction (e.g. a small inner CRO used as an operator) is set up inside a scope on a population
                // of its own: it has its own molecule list, the outer one is untouched when the scope has ended
                st.populations_mut().push((0..n2).map(|k| ind(50 + k, 100.0 + k as f64)).collect());
                let inner = mahf::components::Scope::new(vec![ChemicalReactionInit::new::<RealP>(1.0, 3.0)]);
                let r = catch(|| inner.execute(&problem, &mut st));
                ensure_that!(matches!(r, Ok(Ok(()))), "C20 ChemicalReactionInit fails", "{c:?}: nested stage: {r:?}");
                st.populations_mut().pop();
                check(&st, "after a nested reaction was initialised and its scope ended", n1)?;
            }
            Ok(())
        })();
        Outcome::new(cl & 1 != 0, cl, r)
    }
}

pub fn run_all(ctx: &mut Ctx, replay: Option<&Path>) {
    ctx.rule("prepared: case = (reaction, population of 1-6 tagged individuals with objective and kinetic energy, buffer, reactant indices, product objectives, loss rate, seed, optionally two equal-by-value reactants, a bystander that encodes the second reactant's solution with another objective value, energies in a unit of 1e-17, an on-wall product energy within two representable values of the reactant's total energy) on a stack [below, population, reactants, products] with an aligned molecule list; oracle: stack height -2, population below untouched, |E_after - E_before| <= 1e-9 (1 + sum |terms|) for E = sum objective + sum kinetic + buffer, kinetic energies and buffer >= 0, one molecule per individual in the same order, products at the modelled indices (replace at r, push on decomposition, remove on synthesis), untouched molecules unchanged, acceptance exactly when the energy condition holds (for decomposition: must accept without buffer need, must reject when even the whole buffer is not enough), rejected reactions change nothing but hit counters; non-trivial = rejected or buffer-assisted cases. initialisation: the reaction initialisation executed twice in one state on populations of different sizes gives one fresh molecule record per current individual both times. runs: real_cro with the observer: the same energy / alignment / stack audit around every update step; non-trivial = runs in which all four reactions occurred; distinct by case");
    let p = PrepCheck;
    let r = RunCheck;
    if let Some(path) = replay {
        let _ = ctx.replay_file(&p, path) || ctx.replay_file(&r, path);
        return;
    }
    ctx.regressions(&p);
    ctx.regressions(&r);
    let i = InitCheck;
    ctx.regressions(&i);
    ctx.exhaustive(&i, "reaction initialisation executed twice in one state: first population 0-8 x second population 0-8 individuals x {second stage in the same scope, nested reaction inside a scope} x {nothing, another population} below", (0u8..9).flat_map(|a| (0u8..9).flat_map(move |b| (0u8..4).map(move |nest| InitCase { first: a, second: b, nest }))));
    ctx.random(&p, prep_strategy(), ctx.tier.pick(100_000, 500_000));
    let runs = inst_strategy(Kind::Real).prop_flat_map(|inst| (tpl_strategy(18, inst.dim()), Just(inst), 5u32..60, any::<u64>())).prop_map(|(tpl, inst, iters, seed)| RunSpec { tpl, inst, iters, seed });
    ctx.random(&r, runs, ctx.tier.pick(5000, 25_000));
}
