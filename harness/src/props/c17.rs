//! C17 — simulated-annealing acceptance follows the Metropolis rule; geometric cooling multiplies once.

use std::path::Path;

use mahf::{
    components::{
        mapping::sa::GeometricCooling,
        replacement::sa::{ExponentialAnnealingAcceptance, Temperature},
    },
    lens::ValueOf,
    Component, Individual,
};
use proptest::prelude::*;
use serde::{Deserialize, Serialize};

use crate::{
    engine::{catch, Check, Ctx, Failure, Outcome},
    ensure_that, fail,
    fixtures::{
        problems::{RealKind, RealP},
        state_with,
    },
    props::c09::Fb,
};

#[derive(Clone, Debug, Serialize, Deserialize)]
pub struct AcceptCase {
    pub f_current: Fb,
    pub f_candidate: Fb,
    pub t: Fb,
    pub n: u32,
    pub seed: u64,
    pub below: u8,
    /// current and candidate encode the same solution (their objective values differ, e.g. re-evaluation under a
    /// changed or noisy objective): the rule is about objective values, the survivor is recognised by its value
    #[serde(default)]
    pub same_solution: bool,
    /// the generator's backend returns only zeros (every uniform draw is exactly 0.0, a legal value of [0, 1)):
    /// a candidate whose acceptance probability underflowed to 0 is still never accepted
    #[serde(default)]
    pub zero_rng: bool,
    /// no generator is reachable while the component runs (hand-built state, or the generator is held by an enclosing
    /// `holding`); only applied when the candidate is at least as good - that decision needs no draw
    #[serde(default)]
    pub no_rng: bool,
}

/// A generator backend whose every output word is zero.
pub struct ZeroRng;
impl rand::RngCore for ZeroRng {
    fn next_u32(&mut self) -> u32 {
        0
    }
    fn next_u64(&mut self) -> u64 {
        0
    }
    fn fill_bytes(&mut self, dest: &mut [u8]) {
        dest.fill(0);
    }
    fn try_fill_bytes(&mut self, dest: &mut [u8]) -> Result<(), rand::Error> {
        dest.fill(0);
        Ok(())
    }
}
impl rand::SeedableRng for ZeroRng {
    type Seed = [u8; 8];
    fn from_seed(_seed: Self::Seed) -> Self {
        ZeroRng
    }
}

pub struct AcceptCheck;

impl Check for AcceptCheck {
    type Case = AcceptCase;
    fn name(&self) -> String {
        "C17/acceptance".into()
    }
    fn classes(&self) -> &'static [&'static str] {
        &["0.01 < p < 0.99", "candidate better", "candidate equal", "p ~ 0 (never)", "p ~ 1 (always)", "same solution, different objective values", "every uniform draw is 0.0", "temperature cooled far below the component's start temperature", "temperature exactly 0", "no generator reachable (candidate at least as good)"]
    }
    fn oracle(&self, c: &AcceptCase) -> Outcome {
        let mut cl = 0;
        let r = accept_oracle(c, &mut cl).map(|_| ());
        Outcome::new(cl & 1 != 0, cl, r)
    }
}

/// Runs the N trials and returns the number of acceptances.
fn accept_oracle(c: &AcceptCase, cl: &mut u64) -> Result<u32, Failure> {
    let (fc, fn_, t) = (c.f_current.f(), c.f_candidate.f(), c.t.f());
    let problem = RealP::new(1, -1.0, 1.0, RealKind::Tag);
    // equal values (also inf and inf, whose difference is NaN) are a tie
    let delta = if fn_ == fc { 0.0 } else { fn_ - fc };
    let p = if delta <= 0.0 { 1.0 } else { (-delta / t).exp() };
    if delta < 0.0 {
        *cl |= 2;
    } else if delta == 0.0 {
        *cl |= 4;
    } else if p > 0.01 && p < 0.99 {
        *cl |= 1;
    } else if p <= 0.01 {
        *cl |= 8;
    } else {
        *cl |= 16;
    }
    // one case in three: the component was constructed with a start temperature 2^60 times the temperature the decision is
    // made at (the temperature was cooled by another component in between): the rule uses the CURRENT temperature
    // a temperature of exactly zero is reached by cooling (a cooling factor of 0 is accepted, and a long enough schedule
    // underflows): the component started at temperature 1
    let zero_t = t == 0.0;
    if zero_t {
        *cl |= 256;
    }
    let cooled = zero_t || (c.seed % 3 == 0 && t.is_finite() && t > 0.0 && (t * 1.152921504606847e18).is_finite());
    let comp = ExponentialAnnealingAcceptance::new::<RealP>(if zero_t { 1.0 } else if cooled { t * 1.152921504606847e18 } else { t });
    if cooled && !zero_t {
        *cl |= 128;
    }
    let no_rng = c.no_rng && delta <= 0.0;
    if no_rng {
        *cl |= 512;
    }
    let at = format!("f(current) = {fc:?}, f(candidate) = {fn_:?}, T = {t:?}{}{}", if zero_t { " (start temperature 1)" } else if cooled { " (start temperature 2^60 T)" } else { "" }, if no_rng { ", no generator in the state" } else { "" });
    let mut accepted = 0u32;
    for k in 0..c.n {
        let seed = c.seed.wrapping_add(k as u64 * 0x9E37_79B9);
        let mut pops: Vec<Vec<Individual<RealP>>> = (0..c.below % 3).map(|b| vec![Individual::new_unevaluated(vec![100.0 + b as f64])]).collect();
        pops.push(vec![Individual::new(vec![1.0], fc.try_into().unwrap())]); // current, tag 1
        let same = c.same_solution && fn_ != fc;
        pops.push(vec![Individual::new(vec![if same { 1.0 } else { 2.0 }], fn_.try_into().unwrap())]); // candidate on top, tag 2
        let h = pops.len();
        let mut st = state_with::<RealP>(pops, seed);
        if same {
            *cl |= 32;
        }
        if c.zero_rng {
            st.insert(mahf::Random::with_rng::<ZeroRng>(seed));
            *cl |= 64;
        }
        let r = catch(|| {
            comp.init(&problem, &mut st)?;
            if cooled {
                st.set_value::<Temperature>(t);
            }
            if no_rng {
                let _ = st.take::<mahf::Random>();
            }
            comp.execute(&problem, &mut st)
        });
        match r {
            Ok(Ok(())) => {}
            Ok(Err(e)) => fail!("C17 acceptance errs on a well-formed stack", "{at}: {e:#}"),
            Err(p) => fail!("C17 acceptance panics", "{at}: {p}"),
        }
        let ps = st.populations();
        ensure_that!(ps.len() == h - 1, "C17 acceptance does not reduce the two populations to one", "{at}: stack height {} after, {h} before", ps.len());
        ensure_that!(ps.current().len() == 1, "C17 survivor population size", "{at}: top population has {} individuals", ps.current().len());
        for b in 0..(c.below % 3) as usize {
            let pop = ps.peek(h - 2 - b);
            ensure_that!(pop.len() == 1 && pop[0].solution()[0] == 100.0 + b as f64, "C17 acceptance touches populations below", "{at}");
        }
        let s = &ps.current()[0];
        let tag = if same { if s.get_objective().map(|o| o.value()) == Some(fn_) { 2.0 } else { 1.0 } } else { s.solution()[0] };
        let want_obj = if tag == 2.0 { fn_ } else { fc };
        ensure_that!((tag == 1.0 || tag == 2.0) && s.get_objective().map(|o| o.value()) == Some(want_obj), "C17 survivor is neither the current nor the candidate individual", "{at}: survivor {:?}", s.solution());
        if tag == 2.0 {
            accepted += 1;
        } else if delta <= 0.0 {
            fail!(
                if delta == 0.0 { "C17 equally good candidate rejected" } else { "C17 better candidate rejected" },
                "{at}: the candidate is at least as good as the current solution but was rejected (trial {k}, seed {seed}); {accepted} of {k} accepted before"
            );
        }
    }
    let n = c.n as f64;
    if delta > 0.0 && c.zero_rng {
        // every draw is 0.0: accepted exactly when the acceptance probability is positive
        if p == 0.0 {
            ensure_that!(accepted == 0, "C17 worse candidate accepted although exp(-delta/T) underflows to 0", "{at}: with a generator whose every draw is 0.0 the candidate was accepted {accepted} of {} times", c.n);
        } else {
            ensure_that!(accepted == c.n, "C17 acceptance frequency differs from exp(-delta/T)", "{at}: with a generator whose every draw is 0.0 and p = {p:e} > 0 the candidate was accepted only {accepted} of {} times", c.n);
        }
    } else if delta > 0.0 {
        let ratio = delta / t;
        if ratio > 745.0 {
            ensure_that!(accepted == 0, "C17 worse candidate accepted although exp(-delta/T) underflows to 0", "{at}: accepted {accepted} of {} times", c.n);
        } else if ratio < 1e-17 {
            ensure_that!(accepted == c.n, "C17 worse candidate rejected although exp(-delta/T) rounds to 1", "{at}: accepted {accepted} of {} times", c.n);
        } else {
            let sigma = (n * p * (1.0 - p)).sqrt();
            let dev = (accepted as f64 - n * p).abs();
            ensure_that!(
                dev <= 6.0 * sigma + 1.0,
                "C17 acceptance frequency differs from exp(-delta/T)",
                "{at}: a worse candidate was accepted {accepted} of {} times; the Metropolis probability exp(-(f(candidate) - f(current)) / T) = {p:.6} predicts {:.1} +- {:.1} (6 sigma)",
                c.n,
                n * p,
                6.0 * sigma
            );
        }
    }
    Ok(accepted)
}

#[derive(Clone, Debug, Serialize, Deserialize)]
pub enum MiscCase {
    /// monotone in T: acceptance count at T2 >= count at T1 - band for T1 < T2
    Monotone { delta: Fb, t1: Fb, t2: Fb, n: u32, seed: u64 },
    Cooling { alpha: Fb, t0: Fb, steps: u8 },
    /// malformed stack: which population is empty (0 = candidate/top, 1 = current)
    Malformed { empty: u8 },
}

pub struct MiscCheck;

impl Check for MiscCheck {
    type Case = MiscCase;
    fn name(&self) -> String {
        "C17/cooling-and-monotonicity".into()
    }
    fn classes(&self) -> &'static [&'static str] {
        &["monotone in T", "cooling", "malformed stack"]
    }
    fn oracle(&self, c: &MiscCase) -> Outcome {
        let (cl, r) = match c {
            MiscCase::Monotone { delta, t1, t2, n, seed } => (1, {
                let mut dummy = 0;
                let lo = accept_oracle(&AcceptCase { f_current: Fb::of(0.0), f_candidate: *delta, t: *t1, n: *n, seed: *seed, below: 0, same_solution: false, zero_rng: false, no_rng: false }, &mut dummy);
                let hi = accept_oracle(&AcceptCase { f_current: Fb::of(0.0), f_candidate: *delta, t: *t2, n: *n, seed: seed.wrapping_add(17), below: 0, same_solution: false, zero_rng: false, no_rng: false }, &mut dummy);
                match (lo, hi) {
                    (Ok(a), Ok(b)) => {
                        let band = 12.0 * (*n as f64 / 4.0).sqrt() + 2.0;
                        if (b as f64) < a as f64 - band {
                            Err(Failure::new("C17 acceptance not monotone in T", format!("delta {:?}: accepted {a} of {n} at T = {:?} but only {b} at the higher T = {:?}", delta.f(), t1.f(), t2.f())))
                        } else {
                            Ok(())
                        }
                    }
                    (Err(f), _) | (_, Err(f)) => Err(f),
                }
            }),
            MiscCase::Cooling { alpha, t0, steps } => (2, cooling(alpha.f(), t0.f(), *steps)),
            MiscCase::Malformed { empty } => (4, malformed(*empty)),
        };
        Outcome::new(true, cl, r)
    }
}

fn cooling(alpha: f64, t0: f64, steps: u8) -> Result<(), Failure> {
    let problem = RealP::new(1, -1.0, 1.0, RealKind::Tag);
    let made = GeometricCooling::new::<RealP>(alpha, ValueOf::<Temperature>::new());
    if !(0.0..1.0).contains(&alpha) {
        ensure_that!(made.is_err(), "C17 GeometricCooling accepts alpha outside [0,1)", "alpha = {alpha}");
        return Ok(());
    }
    let comp = match made {
        Ok(c) => c,
        Err(e) => fail!("C17 GeometricCooling rejects alpha in [0,1)", "alpha = {alpha}: {e}"),
    };
    let mut st = state_with::<RealP>(vec![], 1);
    st.insert(Temperature(t0));
    let mut want = t0;
    for k in 0..steps {
        let r = catch(|| comp.execute(&problem, &mut st));
        ensure_that!(matches!(r, Ok(Ok(()))), "C17 GeometricCooling fails", "alpha {alpha}, T {t0}: {r:?}");
        want *= alpha;
        let got = st.get_value::<Temperature>();
        ensure_that!(got.to_bits() == want.to_bits(), "C17 GeometricCooling does not multiply the temperature by alpha exactly once", "alpha {alpha}, T0 {t0}: after {} executions T = {got:?}, expected {want:?}", k + 1);
    }
    Ok(())
}

fn malformed(empty: u8) -> Result<(), Failure> {
    let problem = RealP::new(1, -1.0, 1.0, RealKind::Tag);
    let comp = ExponentialAnnealingAcceptance::new::<RealP>(1.0);
    let cur = if empty % 2 == 1 { vec![] } else { vec![Individual::new(vec![1.0], 1.0.try_into().unwrap())] };
    let cand = if empty % 2 == 0 { vec![] } else { vec![Individual::new(vec![2.0], 2.0.try_into().unwrap())] };
    let mut st = state_with::<RealP>(vec![cur, cand], 3);
    let r = catch(|| {
        comp.init(&problem, &mut st)?;
        comp.execute(&problem, &mut st)
    });
    match r {
        Ok(Err(_)) => Ok(()),
        // the post-condition of the component may turn the documented error into a panic; the property only asks for a report
        Err(p) if p.contains("Post-condition") || p.contains("missing") => Ok(()),
        other => Err(Failure::new("C17 malformed stack accepted", format!("an empty {} population gave {:?}", if empty % 2 == 0 { "candidate" } else { "current" }, other.map(|x| x.is_ok())))),
    }
}

fn grid(n: u32, base: u64) -> Vec<AcceptCase> {
    let mut out = Vec::new();
    let deltas = [-1e6, -1.0, -1e-9, 0.0, 1e-9, 0.1, 1.0, 5.0, 1e6];
    let ts = [1e-300, 1e-9, 0.1, 1.0, 10.0, 1e9, 1e300];
    for (i, d) in deltas.iter().enumerate() {
        for (j, t) in ts.iter().enumerate() {
            for (fc, below) in [(0.0, 0u8), (-3.5, 1), (1e3, 2)] {
                if (fc != 0.0) && (i + j) % 3 != 0 {
                    continue;
                }
                out.push(AcceptCase { f_current: Fb::of(fc), f_candidate: Fb::of(fc + d), t: Fb::of(*t), n, seed: base.wrapping_add((i * 31 + j) as u64), below, same_solution: (i + j) % 2 == 1, zero_rng: false, no_rng: false });
                if fc == 0.0 {
                    // the same cell with a generator whose every draw is 0.0
                    out.push(AcceptCase { f_current: Fb::of(fc), f_candidate: Fb::of(fc + d), t: Fb::of(*t), n: 3, seed: base.wrapping_add((i * 31 + j) as u64), below, same_solution: false, zero_rng: true, no_rng: false });
                }
            }
        }
    }
    // infeasible solutions carry the objective value +inf: both infinite is a tie (accepted), an infeasible candidate
    // is never accepted over a feasible current solution, a feasible candidate always replaces an infeasible one
    for (j, t) in ts.iter().enumerate() {
        for (fc, fnew) in [(f64::INFINITY, f64::INFINITY), (f64::INFINITY, 5.0), (5.0, f64::INFINITY)] {
            out.push(AcceptCase { f_current: Fb::of(fc), f_candidate: Fb::of(fnew), t: Fb::of(*t), n: n.min(500), seed: base.wrapping_add(977 + j as u64), below: (j % 3) as u8, same_solution: j % 2 == 0, zero_rng: false, no_rng: false });
            out.push(AcceptCase { f_current: Fb::of(fc), f_candidate: Fb::of(fnew), t: Fb::of(*t), n: 3, seed: base.wrapping_add(977 + j as u64), below: 0, same_solution: false, zero_rng: true, no_rng: false });
        }
    }
    // huge objective values whose difference is a few representable steps, temperature of the order of the difference:
    // the rule depends on the difference, which is exact, not on the two levels
    for fc in [1.8013179654324308e16, 9007199254740992.0, -3.3e15, 1e12, 6.02e23] {
        for steps in [1i64, 2, 5] {
            let mut fnew: f64 = fc;
            for _ in 0..steps {
                fnew = crate::props::c10::next_up(fnew);
            }
            let delta = fnew - fc;
            for factor in [0.35, 0.7, 1.5, 3.0] {
                out.push(AcceptCase { f_current: Fb::of(fc), f_candidate: Fb::of(fnew), t: Fb::of(delta * factor), n, seed: base ^ (steps as u64 * 131) ^ ((factor * 100.0) as u64), below: 0, same_solution: steps == 2, zero_rng: false, no_rng: false });
            }
        }
    }
    // temperature exactly 0 (ties and better candidates still replace, worse ones never do), and decisions that need no
    // draw made while no generator is reachable
    for (j, d) in [-1.0, 0.0, 1e-300, 1.0, f64::INFINITY].into_iter().enumerate() {
        for (fc, below) in [(0.0, 0u8), (7.5, 1), (f64::INFINITY, 0)] {
            let fnew = if d == f64::INFINITY { f64::INFINITY } else if fc == f64::INFINITY && d <= 0.0 { if d < 0.0 { 3.0 } else { fc } } else { fc + d };
            out.push(AcceptCase { f_current: Fb::of(fc), f_candidate: Fb::of(fnew), t: Fb::of(0.0), n: 5, seed: base.wrapping_add(4242 + j as u64), below, same_solution: j % 2 == 0, zero_rng: false, no_rng: false });
            out.push(AcceptCase { f_current: Fb::of(fc), f_candidate: Fb::of(fnew), t: Fb::of(0.0), n: 3, seed: base.wrapping_add(4243 + j as u64), below, same_solution: false, zero_rng: true, no_rng: false });
        }
    }
    for (j, t) in ts.iter().chain([0.0].iter()).enumerate() {
        for d in [-2.0, 0.0] {
            out.push(AcceptCase { f_current: Fb::of(1.0), f_candidate: Fb::of(1.0 + d), t: Fb::of(*t), n: 3, seed: base.wrapping_add(5000 + j as u64), below: (j % 3) as u8, same_solution: false, zero_rng: false, no_rng: true });
        }
    }
    // cells in the informative region 0.01 < p < 0.99
    for ratio in [0.02, 0.1, 0.3, 0.7, 1.0, 1.5, 2.5, 4.0] {
        for t in [0.01, 1.0, 250.0] {
            out.push(AcceptCase { f_current: Fb::of(2.0), f_candidate: Fb::of(2.0 + ratio * t), t: Fb::of(t), n, seed: base ^ ((ratio * 1000.0) as u64), below: 0, same_solution: false, zero_rng: false, no_rng: false });
        }
    }
    out
}

pub fn run_all(ctx: &mut Ctx, replay: Option<&Path>) {
    ctx.rule("acceptance: case = (f(current), f(candidate), T, N seeds) on a prepared stack [.., {current}, {candidate}] (candidate on top, as the SA template produces it, with 0-2 populations below); every trial: exactly one population replaces the two, holding exactly the current or the candidate individual; candidate <= current => accepted for every seed, at every temperature incl. exactly 0 (reached by cooling from a start temperature of 1) and also while no generator is reachable in the state (that decision needs no draw); worse by delta => acceptance frequency within 6 sigma of exp(-delta/T), never when delta/T > 745, always when delta/T < 1e-17; non-trivial = cells with 0.01 < p < 0.99 (they separate the rule from its inverse and from always/never); plus monotonicity in T, GeometricCooling (T_after == T_before * alpha bit-exact per execution, alpha outside [0,1) rejected) and malformed stacks; distinct by case");
    ctx.assume("frequencies: fixed sample size N per cell, 6-sigma band; smaller deviations are invisible");
    let a = AcceptCheck;
    let m = MiscCheck;
    if let Some(p) = replay {
        let _ = ctx.replay_file(&a, p) || ctx.replay_file(&m, p);
        return;
    }
    ctx.regressions(&a);
    ctx.regressions(&m);
    let n = ctx.tier.pick(2000, 20_000);
    let base = ctx.derive_seed("sa");
    ctx.exhaustive(&a, &format!("9 margins x 7 temperatures (+ shifted objective levels) + 21 cells with +inf objective values (tie / infeasible candidate / infeasible current) + 60 cells with huge objective levels 1-5 representable steps apart and T of the order of the difference + 24 cells with exp(-delta/T) in (0.01, 0.99), N = {n} seeds per cell"), grid(n, base).into_iter());
    ctx.random(
        &a,
        (-50.0f64..50.0, prop_oneof![Just(0.0), -5.0f64..0.0, 0.0f64..8.0], prop_oneof![Just(0.0), Just(1e-6), Just(0.5), Just(1.0), Just(3.0), 0.01f64..20.0], any::<u64>(), 0u8..3, any::<bool>()).prop_map(move |(fc, d, t, seed, below, same_solution)| AcceptCase { f_current: Fb::of(fc), f_candidate: Fb::of(fc + d), t: Fb::of(t), n: 600, seed, below, same_solution, zero_rng: false, no_rng: seed % 4 == 1 }),
        ctx.tier.pick(800, 4000),
    );
    let mut misc = Vec::new();
    for d in [0.1, 1.0, 5.0] {
        let ts = [1e-3, 0.1, 1.0, 10.0, 1e3];
        for w in ts.windows(2) {
            misc.push(MiscCase::Monotone { delta: Fb::of(d), t1: Fb::of(w[0]), t2: Fb::of(w[1]), n, seed: base.wrapping_add((d * 100.0) as u64) });
        }
    }
    for alpha in [0.0, 0.5, 0.9, 0.999, 1.0, -0.1, 1.5, f64::NAN] {
        for t0 in [1.0, 1e-300, 1e300, 123.456] {
            misc.push(MiscCase::Cooling { alpha: Fb::of(alpha), t0: Fb::of(t0), steps: 6 });
        }
    }
    misc.push(MiscCase::Malformed { empty: 0 });
    misc.push(MiscCase::Malformed { empty: 1 });
    ctx.exhaustive(&m, "monotonicity over 3 margins x 4 temperature steps; cooling over 8 alphas x 4 temperatures x 6 executions; 2 malformed stacks", misc.into_iter());
    ctx.random(&m, (0.0f64..1.0, 1e-3f64..1e6, 1u8..40).prop_map(|(a, t, s)| MiscCase::Cooling { alpha: Fb::of(a), t0: Fb::of(t), steps: s }), ctx.tier.pick(2000, 20_000));
}
