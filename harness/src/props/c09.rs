//! C09 — objective values are never NaN / -inf and are ordered soundly.

use std::{cmp::Ordering, path::Path};

use mahf::{MultiObjective, SingleObjective};
use proptest::prelude::*;
use serde::{Deserialize, Serialize};

use crate::{
    engine::{catch, soft_fail, Check, Ctx, Failure, Outcome},
    ensure_that, fail,
};

/// f64 carried as bits (JSON cannot hold NaN/inf); Debug shows the float.
#[derive(Clone, Copy, PartialEq, Eq, Hash, Serialize, Deserialize, Default)]
pub struct Fb(pub u64);
impl Fb {
    pub fn f(self) -> f64 {
        f64::from_bits(self.0)
    }
    pub fn of(f: f64) -> Self {
        Fb(f.to_bits())
    }
}
impl std::fmt::Debug for Fb {
    fn fmt(&self, f: &mut std::fmt::Formatter<'_>) -> std::fmt::Result {
        write!(f, "{:?}[{:#x}]", self.f(), self.0)
    }
}

pub fn grid() -> Vec<f64> {
    let sub = f64::from_bits(1);
    let mut v = vec![
        0.0,
        -0.0,
        f64::MIN_POSITIVE,
        -f64::MIN_POSITIVE,
        sub,
        -sub,
        1.0,
        -1.0,
        1.5,
        -1.5,
        f64::MAX,
        -f64::MAX,
        f64::EPSILON,
        -f64::EPSILON,
        1e300,
        -1e300,
        1e-300,
        -1e-300,
        2.0,
        0.5,
        f64::INFINITY,
        f64::NEG_INFINITY,
        // neighbouring representable values away from a power of two: distinct values, however close, are distinct
        0.3,
        0.30000000000000004,
        f64::from_bits(1.5f64.to_bits() + 1),
        f64::NAN,
        -f64::NAN,
        f64::from_bits(0x7ff0_0000_0000_0001), // signalling NaN
        f64::from_bits(0xfff8_0000_dead_beef),
    ];
    v.dedup_by(|a, b| a.to_bits() == b.to_bits());
    v
}

fn legal(v: f64) -> bool {
    !v.is_nan() && v != f64::NEG_INFINITY
}

fn num_cmp(a: f64, b: f64) -> Ordering {
    a.partial_cmp(&b).expect("legal values are comparable")
}

#[derive(Clone, Debug, Serialize, Deserialize)]
pub struct SingleCase {
    pub a: Fb,
    pub b: Fb,
    pub c: Fb,
    /// finite scalar for * and /
    pub k: Fb,
}

pub struct SingleCheck;

/// `ieee` is the plain f64 result of the same operation: the listed known findings are exactly the cases
/// where the operator hands back that raw IEEE result unvalidated; an illegal value that is *not* the IEEE
/// result is a different violation and gets a different signature.
fn check_result(op: &str, args: &str, ieee: f64, r: Result<SingleObjective, String>) -> Result<(), Failure> {
    match r {
        Ok(o) => {
            let v = o.value();
            let op = if v.to_bits() == ieee.to_bits() || (v.is_nan() && ieee.is_nan()) { op.to_string() } else { format!("{op} (result differs from f64 arithmetic)") };
            let op = op.as_str();
            if v.is_nan() {
                return soft_fail(Failure::new(format!("C09 {op} yields NaN"), format!("{op}({args}) = NaN — an objective value obtainable through the public API is NaN")));
            }
            if v == f64::NEG_INFINITY {
                return soft_fail(Failure::new(format!("C09 {op} yields -inf"), format!("{op}({args}) = -inf — an objective value obtainable through the public API is negative infinity")));
            }
            Ok(())
        }
        Err(p) => fail!(format!("C09 {op} panics"), "{op}({args}) panicked: {p}"),
    }
}

impl Check for SingleCheck {
    type Case = SingleCase;
    fn name(&self) -> String {
        "C09/single".into()
    }
    fn classes(&self) -> &'static [&'static str] {
        &["involves +-0", "involves inf", "involves MAX", "rejected input", "all three legal", "subnormal"]
    }
    fn oracle(&self, c: &SingleCase) -> Outcome {
        let vals = [c.a.f(), c.b.f(), c.c.f()];
        let mut classes = 0u64;
        if vals.iter().any(|v| *v == 0.0) {
            classes |= 1;
        }
        if vals.iter().any(|v| v.is_infinite()) {
            classes |= 2;
        }
        if vals.iter().any(|v| v.abs() == f64::MAX) {
            classes |= 4;
        }
        if vals.iter().any(|v| !legal(*v)) {
            classes |= 8;
        }
        if vals.iter().all(|v| legal(*v)) {
            classes |= 16;
        }
        if vals.iter().any(|v| v.is_subnormal()) {
            classes |= 32;
        }
        let r = single_oracle(c);
        Outcome::new(classes & 0b111 != 0, classes, r)
    }
}

fn single_oracle(c: &SingleCase) -> Result<(), Failure> {
    // construction
    let mut objs = Vec::new();
    for v in [c.a.f(), c.b.f(), c.c.f()] {
        deserialised_values_are_legal::<SingleObjective>(|r, c| DeProbe::<SingleObjective>(std::marker::PhantomData).read(r, c), "SingleObjective", &[v], true)?;
        let r = SingleObjective::try_from(v);
        match (r, legal(v)) {
            (Ok(o), true) => {
                ensure_that!(o.value().to_bits() == v.to_bits(), "C09 construction round-trip", "try_from({v:?}).value() = {:?}", o.value());
                ensure_that!(f64::from(o).to_bits() == v.to_bits(), "C09 construction round-trip", "f64::from(try_from({v:?})) differs");
                ensure_that!(o.is_finite() == v.is_finite(), "C09 is_finite", "is_finite({v:?}) = {}", o.is_finite());
                objs.push(o);
            }
            (Err(_), false) => {}
            (Ok(_), false) => fail!("C09 illegal value accepted", "SingleObjective::try_from({v:?}) was accepted"),
            (Err(e), true) => fail!("C09 legal value rejected", "SingleObjective::try_from({v:?}) was rejected: {e}"),
        }
    }
    objs.push(SingleObjective::default());
    objs.push(SingleObjective::INFINITY);
    ensure_that!(SingleObjective::default().value() == f64::INFINITY, "C09 default", "Default is {:?}", SingleObjective::default().value());
    // order agrees with the numeric order of value()
    for x in &objs {
        for y in &objs {
            let want = num_cmp(x.value(), y.value());
            let got = catch(|| (x.cmp(y), x.partial_cmp(y), x == y, x < y, x <= y, x > y, x >= y, x != y, x.max(y) == if want == Ordering::Greater { x } else { y }, x.min(y) == if want == Ordering::Greater { y } else { x }));
            match got {
                Ok((c1, c2, eq, lt, le, gt, ge, ne, max_ok, min_ok)) => {
                    ensure_that!(c1 == want && c2 == Some(want), "C09 ordering disagrees with numeric order", "cmp({x:?}, {y:?}) = {c1:?}/{c2:?}, numeric {want:?}");
                    ensure_that!(eq == (want == Ordering::Equal) && lt == (want == Ordering::Less) && le == (want != Ordering::Greater) && gt == (want == Ordering::Greater) && ge == (want != Ordering::Less) && ne != eq && max_ok && min_ok, "C09 comparison operators disagree", "{x:?} vs {y:?}: == {eq} != {ne} < {lt} <= {le} > {gt} >= {ge}, max/min as the order says: {max_ok}/{min_ok}; numeric {want:?}");
                }
                Err(p) => fail!("C09 comparison panics", "comparing {x:?} and {y:?} panicked: {p}"),
            }
        }
    }
    // totality / antisymmetry / transitivity on the triple
    for x in &objs {
        for y in &objs {
            ensure_that!(x.cmp(y) == y.cmp(x).reverse(), "C09 antisymmetry", "cmp({x:?},{y:?}) vs reverse");
            for z in &objs {
                if x.cmp(y) != Ordering::Greater && y.cmp(z) != Ordering::Greater {
                    ensure_that!(x.cmp(z) != Ordering::Greater, "C09 transitivity", "{x:?} <= {y:?} <= {z:?} but not {x:?} <= {z:?}");
                }
            }
        }
    }
    // sort / min / max
    let r = catch(|| {
        let mut v = objs.clone();
        v.sort();
        let mn = objs.iter().min().cloned();
        let mx = objs.iter().max().cloned();
        (v, mn, mx)
    });
    match r {
        Ok((sorted, mn, mx)) => {
            let mut raw: Vec<f64> = objs.iter().map(|o| o.value()).collect();
            raw.sort_by(|a, b| a.partial_cmp(b).unwrap());
            let got: Vec<f64> = sorted.iter().map(|o| o.value()).collect();
            ensure_that!(got.iter().zip(&raw).all(|(a, b)| a == b), "C09 sort disagrees", "sorted {got:?} vs raw {raw:?}");
            ensure_that!(mn.map(|o| o.value()) == raw.first().copied() && mx.map(|o| o.value()) == raw.last().copied(), "C09 min/max disagree", "min/max differ from the raw values {raw:?}");
        }
        Err(p) => fail!("C09 sort/min/max panics", "sorting {objs:?} panicked: {p}"),
    }
    // arithmetic closure
    let k = c.k.f();
    for x in &objs {
        let (x, xs) = (*x, format!("{:?}", x.value()));
        check_result("Neg", &xs, -x.value(), catch(|| -x))?;
        if k.is_finite() {
            check_result("Mul", &format!("{xs}, {k:?}"), x.value() * k, catch(|| x * k))?;
            check_result("Div", &format!("{xs}, {k:?}"), x.value() / k, catch(|| x / k))?;
        }
        for y in &objs {
            let y = *y;
            let args = format!("{xs}, {:?}", y.value());
            check_result("Add", &args, x.value() + y.value(), catch(|| x + y))?;
            check_result("Sub", &args, x.value() - y.value(), catch(|| x - y))?;
        }
    }
    Ok(())
}

// ------------------------------------------------------------------------------------------------

#[derive(Clone, Debug, Serialize, Deserialize)]
pub struct MultiCase {
    pub a: Vec<Fb>,
    pub b: Vec<Fb>,
    pub c: Vec<Fb>,
}

pub struct MultiCheck;

// ------------------------------------------------------------------------------------------------
// construction through deserialisation, if the tree offers it
// ------------------------------------------------------------------------------------------------
// The pinned tree gives the objective types no `Deserialize` impl, so `try_from` is the only way in. Should a tree
// offer one, it is one more construction path the legality rule applies to. The probe resolves at compile time:
// the inherent method exists only where `T: DeserializeOwned`, otherwise the call falls back to the trait method.

pub struct DeProbe<T>(pub std::marker::PhantomData<T>);
pub trait NoDeserialize {
    fn read(&self, _ron: &str, _cbor: &[u8]) -> Option<Vec<Result<Vec<f64>, String>>> {
        None
    }
}
impl<T> NoDeserialize for DeProbe<T> {}
pub trait RawValues {
    fn raw_values(&self) -> Vec<f64>;
}
impl RawValues for SingleObjective {
    fn raw_values(&self) -> Vec<f64> {
        vec![self.value()]
    }
}
impl RawValues for MultiObjective {
    fn raw_values(&self) -> Vec<f64> {
        self.value().to_vec()
    }
}
impl<T: serde::de::DeserializeOwned + RawValues> DeProbe<T> {
    pub fn read(&self, ron: &str, cbor: &[u8]) -> Option<Vec<Result<Vec<f64>, String>>> {
        Some(vec![
            catch(|| ron::from_str::<T>(ron).map(|t| t.raw_values()).map_err(|e| e.to_string())).unwrap_or_else(|p| Err(format!("panic: {p}"))),
            catch(|| ciborium::de::from_reader::<T, _>(cbor).map(|t| t.raw_values()).map_err(|e| e.to_string())).unwrap_or_else(|p| Err(format!("panic: {p}"))),
        ])
    }
}

/// Every value that comes out of a deserialisation (if the type offers one) is a legal objective value. Returns whether
/// the type offers one.
fn deserialised_values_are_legal<T>(probe: impl Fn(&str, &[u8]) -> Option<Vec<Result<Vec<f64>, String>>>, what: &str, raw: &[f64], single: bool) -> Result<bool, Failure> {
    let _ = std::marker::PhantomData::<T>;
    let (ron_text, mut cbor) = (if single { format!("({})", ron::to_string(&raw[0]).unwrap_or_default()) } else { format!("({})", ron::to_string(&raw.to_vec()).unwrap_or_default()) }, Vec::new());
    if single {
        let _ = ciborium::ser::into_writer(&raw[0], &mut cbor);
    } else {
        let _ = ciborium::ser::into_writer(&raw.to_vec(), &mut cbor);
    }
    let Some(results) = probe(&ron_text, &cbor) else { return Ok(false) };
    for (fmt, r) in ["RON", "CBOR"].iter().zip(results) {
        if let Ok(values) = r {
            ensure_that!(values.iter().all(|v| legal(*v)), "C09 deserialisation yields an illegal objective value", "{what} read from {fmt} {ron_text:?} holds {values:?}");
        }
    }
    Ok(true)
}

fn pareto(a: &[f64], b: &[f64]) -> Option<Ordering> {
    if a.len() != b.len() {
        return None;
    }
    if a.iter().zip(b).all(|(x, y)| x == y) {
        return Some(Ordering::Equal);
    }
    let le = a.iter().zip(b).all(|(x, y)| x <= y);
    let ge = a.iter().zip(b).all(|(x, y)| x >= y);
    match (le, ge) {
        (true, false) => Some(Ordering::Less),
        (false, true) => Some(Ordering::Greater),
        _ => None,
    }
}

impl Check for MultiCheck {
    type Case = MultiCase;
    fn name(&self) -> String {
        "C09/multi".into()
    }
    fn classes(&self) -> &'static [&'static str] {
        &["trade-off pair (len>=2)", "different lengths", "dominance", "rejected vector", "equal vectors", "dominance chain a<b<c", "the type offers Deserialize (one more construction path; not on the pinned tree)"]
    }
    fn oracle(&self, c: &MultiCase) -> Outcome {
        let mut classes = 0;
        let r = multi_oracle(c, &mut classes);
        Outcome::new(classes & 0b111 != 0, classes, r)
    }
}

fn multi_oracle(c: &MultiCase, classes: &mut u64) -> Result<(), Failure> {
    let raws: Vec<Vec<f64>> = [&c.a, &c.b, &c.c].iter().map(|v| v.iter().map(|x| x.f()).collect()).collect();
    let mut objs: Vec<MultiObjective> = Vec::new();
    for raw in &raws {
        if deserialised_values_are_legal::<MultiObjective>(|r, c| DeProbe::<MultiObjective>(std::marker::PhantomData).read(r, c), "MultiObjective", raw, false)? {
            *classes |= 64;
        }
        let ok = raw.iter().all(|v| legal(*v));
        let r1 = MultiObjective::try_from(raw.clone());
        let r2 = MultiObjective::try_from(raw.as_slice());
        match (r1, r2, ok) {
            (Ok(o1), Ok(o2), true) => {
                ensure_that!(o1.value().iter().zip(raw).all(|(a, b)| a.to_bits() == b.to_bits()) && o1.value().len() == raw.len(), "C09 multi construction round-trip", "try_from({raw:?}).value() = {:?}", o1.value());
                ensure_that!(o1 == o2, "C09 multi constructors disagree", "Vec and slice constructors differ for {raw:?}");
                ensure_that!(o1.is_finite() == raw.iter().all(|v| v.is_finite()), "C09 multi is_finite", "is_finite wrong for {raw:?}");
                objs.push(o1);
            }
            (Err(_), Err(_), false) => *classes |= 8,
            (r1, r2, _) => fail!(
                if ok { "C09 multi legal vector rejected" } else { "C09 multi illegal vector accepted" },
                "vector {raw:?} (legal: {ok}): try_from(Vec) is_ok = {}, try_from(&[f64]) is_ok = {}",
                r1.is_ok(),
                r2.is_ok()
            ),
        }
    }
    for a in &objs {
        ensure_that!(a.partial_cmp(a) == Some(Ordering::Equal), "C09 multi reflexivity", "partial_cmp({a:?},{a:?}) = {:?}", a.partial_cmp(a));
        for b in &objs {
            let got = a.partial_cmp(b);
            let want = pareto(a.value(), b.value());
            ensure_that!(got == want, "C09 multi comparison is not Pareto dominance", "partial_cmp({a:?}, {b:?}) = {got:?}, Pareto dominance says {want:?}");
            ensure_that!((got == Some(Ordering::Equal)) == (a == b), "C09 multi Equal vs ==", "{a:?} vs {b:?}: partial_cmp {got:?} but == is {}", a == b);
            ensure_that!(b.partial_cmp(a) == got.map(Ordering::reverse), "C09 multi antisymmetry", "{a:?} vs {b:?}");
            // the operators say what partial_cmp says (incomparable vectors: all four false, != true)
            let ops = (a < b, a <= b, a > b, a >= b, a != b);
            let want_ops = (got == Some(Ordering::Less), matches!(got, Some(Ordering::Less | Ordering::Equal)), got == Some(Ordering::Greater), matches!(got, Some(Ordering::Greater | Ordering::Equal)), got != Some(Ordering::Equal));
            ensure_that!(ops == want_ops, "C09 multi comparison operators disagree with partial_cmp", "{a:?} vs {b:?}: (<, <=, >, >=, !=) = {ops:?}, partial_cmp = {got:?}");
            match want {
                None if a.value().len() != b.value().len() => *classes |= 2,
                None if a.value().len() >= 2 => *classes |= 1,
                Some(Ordering::Less) => *classes |= 4,
                Some(Ordering::Equal) => *classes |= 16,
                _ => {}
            }
            for c3 in &objs {
                if a.partial_cmp(b) == Some(Ordering::Less) && b.partial_cmp(c3) == Some(Ordering::Less) {
                    *classes |= 32;
                    ensure_that!(a.partial_cmp(c3) == Some(Ordering::Less), "C09 multi transitivity", "{a:?} < {b:?} < {c3:?} but not {a:?} < {c3:?}");
                }
                let le = |x: &MultiObjective, y: &MultiObjective| matches!(x.partial_cmp(y), Some(Ordering::Less | Ordering::Equal));
                if le(a, b) && le(b, c3) {
                    ensure_that!(le(a, c3), "C09 multi transitivity", "{a:?} <= {b:?} <= {c3:?} but not {a:?} <= {c3:?}");
                }
            }
        }
    }
    Ok(())
}

fn fb_strategy() -> impl Strategy<Value = Fb> {
    let g = grid();
    prop_oneof![
        3 => proptest::sample::select(g).prop_map(Fb::of),
        2 => any::<u64>().prop_map(Fb),
        2 => (-1e6f64..1e6).prop_map(Fb::of),
        1 => any::<f64>().prop_map(Fb::of),
    ]
}

fn small_grid() -> Vec<f64> {
    vec![-1.0, -0.0, 0.0, 1.0, 2.0, f64::MAX, f64::INFINITY]
}

fn vec_strategy() -> impl Strategy<Value = Vec<Fb>> {
    let el = prop_oneof![
        6 => proptest::sample::select(small_grid()).prop_map(Fb::of),
        1 => fb_strategy(),
    ];
    proptest::collection::vec(el, 0..5)
}

fn all_vectors(max_len: usize, extra: &[f64]) -> Vec<Vec<Fb>> {
    let mut g = small_grid();
    g.extend_from_slice(extra);
    let mut out = vec![vec![]];
    let mut cur: Vec<Vec<Fb>> = vec![vec![]];
    for _ in 0..max_len {
        let mut next = Vec::new();
        for v in &cur {
            for x in &g {
                let mut w = v.clone();
                w.push(Fb::of(*x));
                next.push(w);
            }
        }
        out.extend(next.iter().cloned());
        cur = next;
    }
    out
}

/// Very long objective vectors in compact form: both vectors are filled with one value each, then a few positions are
/// overwritten (position as a fraction of the length so that shrinking the length keeps the case meaningful).
#[derive(Clone, Debug, Serialize, Deserialize)]
pub struct HugeCase {
    pub len: u32,
    pub fill_a: Fb,
    pub fill_b: Fb,
    /// (position: 0 = first, 65535 = last, linear in between; into b if the flag is set, else a; value)
    pub edits: Vec<(u16, bool, Fb)>,
}

pub struct HugeCheck;

impl Check for HugeCheck {
    type Case = HugeCase;
    fn name(&self) -> String {
        "C09/multi-long-vectors".into()
    }
    fn classes(&self) -> &'static [&'static str] {
        &["illegal component", "dominance", "trade-off", "length > 65535", "length not a multiple of 4096"]
    }
    fn oracle(&self, c: &HugeCase) -> Outcome {
        let len = (c.len as usize).clamp(1, 200_000);
        let mut a = vec![c.fill_a.f(); len];
        let mut b = vec![c.fill_b.f(); len];
        for (pos, into_b, v) in &c.edits {
            let k = (*pos as usize * (len - 1)) / 65535;
            if *into_b {
                b[k] = v.f();
            } else {
                a[k] = v.f();
            }
        }
        let mut cl = 0u64;
        if len > 65535 {
            cl |= 8;
        }
        if len % 4096 != 0 {
            cl |= 16;
        }
        let r = (|| -> Result<(), Failure> {
            let mut objs = Vec::new();
            for (name, raw) in [("a", &a), ("b", &b)] {
                let ok = raw.iter().all(|v| legal(*v));
                let r1 = MultiObjective::try_from(raw.clone());
                let r2 = MultiObjective::try_from(raw.as_slice());
                match (r1, r2, ok) {
                    (Ok(o1), Ok(_), true) => objs.push(o1),
                    (Err(_), Err(_), false) => cl |= 1,
                    (r1, r2, _) => fail!(
                        if ok { "C09 multi legal vector rejected" } else { "C09 multi illegal vector accepted" },
                        "{c:?}: vector {name} of length {len} (legal: {ok}; illegal positions {:?}): try_from(Vec) is_ok = {}, try_from(&[f64]) is_ok = {}",
                        raw.iter().enumerate().filter(|(_, v)| !legal(**v)).map(|(i, _)| i).take(4).collect::<Vec<_>>(),
                        r1.is_ok(),
                        r2.is_ok()
                    ),
                }
            }
            if objs.len() == 2 {
                let (x, y) = (&objs[0], &objs[1]);
                let want = pareto(x.value(), y.value());
                let got = x.partial_cmp(y);
                match want {
                    Some(Ordering::Less) | Some(Ordering::Greater) => cl |= 2,
                    None => cl |= 4,
                    _ => {}
                }
                let better = a.iter().zip(&b).filter(|(p, q)| p < q).count();
                let worse = a.iter().zip(&b).filter(|(p, q)| p > q).count();
                ensure_that!(got == want, "C09 multi comparison is not Pareto dominance", "{c:?}: length {len}, a is better in {better} and worse in {worse} positions: partial_cmp = {got:?}, Pareto dominance says {want:?}");
                ensure_that!(y.partial_cmp(x) == got.map(Ordering::reverse), "C09 multi antisymmetry", "{c:?}");
                ensure_that!((got == Some(Ordering::Equal)) == (x == y), "C09 multi Equal vs ==", "{c:?}");
            }
            Ok(())
        })();
        Outcome::new(cl & 0b111 != 0, cl, r)
    }
}

pub fn run_all(ctx: &mut Ctx, replay: Option<&Path>) {
    ctx.rule("single: case = triple of f64 inputs (+ a finite scalar): construction legality and bit-exact round trip, agreement of cmp/partial_cmp/==/!=/</<=/>/>=/max/min with the numeric order on all pairs (plus Default and INFINITY), antisymmetry/transitivity on all triples, sort/min/max vs sorting the raw values, closure of + - (objective, objective), * / (objective, finite scalar) and unary -; non-trivial = a triple involving +-0, inf or MAX. multi-long-vectors: pairs of vectors of 4 095 - 131 072 components (compact cases: fill values plus up to three edited positions incl. the first and the last) against the same legality and dominance oracles. multi: case = triple of vectors (length 0-3 exhaustively and randomly; random long vectors of 4-8 and 30-70 components with near copies that differ in up to three positions): both constructors, Pareto dominance vs an independent reference on all pairs, the operators < <= > >= != saying exactly what partial_cmp says (all false / != true for incomparable vectors, incl. vectors of different length), reflexivity, Equal <=> ==, antisymmetry, transitivity of < and <=; non-trivial = has a trade-off pair of length >= 2, a length mismatch or a dominance. Should the tree give an objective type a Deserialize impl (the pinned tree does not; resolved at compile time), every generated value / vector is also read back from RON and CBOR and whatever comes out must be legal; distinct by case");
    ctx.assume("scalars for * and / are finite f64 (NaN/inf scalars are outside the property)");
    let s = SingleCheck;
    let m = MultiCheck;
    if let Some(p) = replay {
        let _ = ctx.replay_file(&s, p) || ctx.replay_file(&m, p) || ctx.replay_file(&HugeCheck, p);
        return;
    }
    ctx.regressions(&s);
    ctx.regressions(&m);
    let g = grid();
    let scalars = [0.0, -1.0, 2.0, 1e300, f64::MIN_POSITIVE];
    let g2 = g.clone();
    ctx.exhaustive(
        &s,
        &format!("all {}^3 triples over the special-value grid (zeros, subnormals, MIN_POSITIVE, EPSILON, +-1, +-1.5, +-MAX, 1e+-300, +-inf, 4 NaN payloads), scalar cycling over 5 values", g.len()),
        (0..g.len() * g.len() * g.len()).map(move |i| {
            let n = g2.len();
            SingleCase { a: Fb::of(g2[i % n]), b: Fb::of(g2[(i / n) % n]), c: Fb::of(g2[i / n / n]), k: Fb::of(scalars[i % scalars.len()]) }
        }),
    );
    let n = ctx.tier.pick(120_000, 600_000);
    let near = |a: Fb, k: i8| -> Fb {
        let mut v = a.f();
        if v.is_finite() {
            for _ in 0..k.unsigned_abs() {
                v = if k > 0 { crate::props::c10::next_up(v) } else { crate::props::c10::next_down(v) };
            }
        }
        Fb::of(v)
    };
    // a value and two values 0-3 representable steps away from it (equality must agree with the order however close)
    ctx.random(&s, (fb_strategy(), -3i8..4, -3i8..4, (-1e3f64..1e3).prop_map(Fb::of)).prop_map(move |(a, k1, k2, k)| SingleCase { a, b: near(a, k1), c: near(a, k2), k }), n / 4);
    ctx.random(&s, (fb_strategy(), fb_strategy(), fb_strategy(), prop_oneof![proptest::sample::select(vec![0.0, -0.0, 1.0, -1.0, 2.0, 0.5, 1e300, -1e300, 1e-300, f64::MAX]).prop_map(Fb::of), (-1e3f64..1e3).prop_map(Fb::of)]).prop_map(|(a, b, c, k)| SingleCase { a, b, c, k }), n);
    // multi: all pairs of vectors up to length 2 (3 thorough) over the 7-value grid (+ NaN, -inf for construction), third vector cycling
    let maxlen = ctx.tier.pick(2, 3);
    let vs = all_vectors(maxlen, &[f64::NAN, f64::NEG_INFINITY]);
    let nv = vs.len();
    let vs2 = vs.clone();
    let pairs = if nv * nv > 600_000 { 600_000 } else { nv * nv };
    let stride = (nv * nv) / pairs;
    ctx.exhaustive(
        &m,
        &format!("pairs of all {nv} vectors of length 0..={maxlen} over {{-1,-0,0,1,2,MAX,inf,NaN,-inf}} (every {stride}-th pair when above 600k), third vector cycling"),
        (0..pairs).map(move |j| {
            let i = j * stride;
            MultiCase { a: vs2[i % nv].clone(), b: vs2[(i / nv) % nv].clone(), c: vs2[(i * 7 + 3) % nv].clone() }
        }),
    );
    let h = HugeCheck;
    ctx.regressions(&h);
    let lens = [4095u32, 4096, 4097, 5000, 8191, 8193, 65535, 65536, 65537, 70_000, 131_072];
    let fills = [(0.0, 1.0), (1.0, 0.0), (0.0, 0.0)];
    let edit_sets: Vec<Vec<(u16, bool, f64)>> = vec![
        vec![],
        vec![(65535, false, f64::NAN)],
        vec![(65535, true, f64::NEG_INFINITY)],
        vec![(65000, false, f64::NAN)],
        vec![(0, true, f64::NAN)],
        vec![(65535, false, 2.0)],
        vec![(0, false, 2.0)],
        vec![(30000, true, -1.0)],
        vec![(65535, true, -1.0), (0, false, -1.0)],
    ];
    let mut huge = Vec::new();
    for len in lens {
        for (fa, fb) in fills {
            for e in &edit_sets {
                huge.push(HugeCase { len, fill_a: Fb::of(fa), fill_b: Fb::of(fb), edits: e.iter().map(|(p, w, v)| (*p, *w, Fb::of(*v))).collect() });
            }
        }
    }
    ctx.exhaustive(&h, "11 lengths around 4096, 8192, 65536 and 131072 x 3 fill patterns x 9 edit sets (NaN / -inf / better / worse values at the first, a middle and the last position)", huge.into_iter());
    ctx.random(
        &h,
        (prop_oneof![3 => 4000u32..9000, 2 => 65_000u32..66_000, 1 => 1u32..140_000], prop_oneof![Just(0.0), Just(1.0)], prop_oneof![Just(0.0), Just(1.0)], proptest::collection::vec((prop_oneof![1 => Just(0u16), 2 => Just(65535u16), 3 => any::<u16>()], any::<bool>(), prop_oneof![2 => Just(f64::NAN), 1 => Just(f64::NEG_INFINITY), 3 => Just(2.0), 3 => Just(-1.0), 1 => Just(f64::INFINITY)].prop_map(Fb::of)), 0..4)).prop_map(|(len, fa, fb, edits)| HugeCase { len, fill_a: Fb::of(fa), fill_b: Fb::of(fb), edits }),
        ctx.tier.pick(300, 3000),
    );
    let n = ctx.tier.pick(60_000, 300_000);
    ctx.random(&m, (vec_strategy(), vec_strategy(), vec_strategy()).prop_map(|(a, b, c)| MultiCase { a, b, c }), n);
    // long vectors (4-8 and 30-70 objectives, incl. huge negative components next to +inf) and near copies of them
    // that differ in a few positions - independently drawn long vectors are almost always incomparable
    let long_el = prop_oneof![6 => proptest::sample::select(vec![-1.0, 0.0, 1.0, 2.0, 5.0]), 1 => Just(-1e308), 1 => Just(1e308), 1 => Just(f64::INFINITY), 1 => Just(f64::MAX)].prop_map(Fb::of);
    let long = prop_oneof![2 => 4usize..9, 1 => 30usize..71].prop_flat_map(move |len| proptest::collection::vec(long_el.clone(), len));
    let edit = proptest::collection::vec((any::<u16>(), prop_oneof![Just(-1.0), Just(0.0), Just(1.0), Just(2.0), Just(5.0), Just(f64::INFINITY)]), 0..4);
    ctx.random(
        &m,
        (long, edit.clone(), edit).prop_map(|(a, e1, e2)| {
            let apply = |base: &Vec<Fb>, e: &Vec<(u16, f64)>| {
                let mut v = base.clone();
                for (i, x) in e {
                    let k = *i as usize % v.len();
                    v[k] = Fb::of(*x);
                }
                v
            };
            let b = apply(&a, &e1);
            let c = apply(&b, &e2);
            MultiCase { a, b, c }
        }),
        n / 2,
    );
}
