//! C10 — conditions decide what their names say; iteration-bounded loops make exactly n passes.

use std::{
    ops::{Deref, DerefMut},
    path::Path,
    sync::atomic::{AtomicU32, Ordering as AO},
};

use better_any::{Tid, TidAble};
use mahf::{
    conditions::{
        common::{DeltaEqChecker, PartialEqChecker},
        And, ChangeOf, Condition, EveryN, LessThanN, Not, OptimumReached, Or, RandomChance,
    },
    lens::ValueOf,
    state::{
        common::{BestIndividual, Evaluations, Iterations, Progress},
        StateReq,
    },
    Component, Configuration, CustomState, ExecResult, Individual, Random, SingleObjective, State,
};
use proptest::prelude::*;
use serde::{Deserialize, Serialize};

use crate::{
    engine::{catch, Check, Ctx, Failure, Outcome},
    ensure_that, fail,
    fixtures::problems::{RealKind, RealP},
    props::{
        c01::T0,
        c03::{tl_reset, tl_take_trace, Ev, ScriptC},
        c09::Fb,
    },
};

#[derive(Tid)]
pub struct FState(pub f64);
impl CustomState<'_> for FState {}
impl Deref for FState {
    type Target = f64;
    fn deref(&self) -> &f64 {
        &self.0
    }
}
impl DerefMut for FState {
    fn deref_mut(&mut self) -> &mut f64 {
        &mut self.0
    }
}

#[derive(Tid)]
pub struct ObjState(pub SingleObjective);
impl CustomState<'_> for ObjState {}
impl Deref for ObjState {
    type Target = SingleObjective;
    fn deref(&self) -> &SingleObjective {
        &self.0
    }
}
impl DerefMut for ObjState {
    fn deref_mut(&mut self) -> &mut SingleObjective {
        &mut self.0
    }
}

/// A 64-bit counter (ticks, nanoseconds ...): a float-like number whose conversion to f64 is lossy above 2^53.
#[derive(Clone, Copy, Debug, PartialEq, PartialOrd, Serialize)]
pub struct Ticks(pub u64);
impl From<Ticks> for f64 {
    fn from(t: Ticks) -> f64 {
        t.0 as f64
    }
}
#[derive(Tid)]
pub struct TickState(pub Ticks);
impl CustomState<'_> for TickState {}
impl Deref for TickState {
    type Target = Ticks;
    fn deref(&self) -> &Ticks {
        &self.0
    }
}
impl DerefMut for TickState {
    fn deref_mut(&mut self) -> &mut Ticks {
        &mut self.0
    }
}

fn problem() -> RealP {
    RealP::new(1, -1.0, 1.0, RealKind::Sphere)
}

fn eval_cond(c: &dyn Condition<RealP>, p: &RealP, st: &mut State<RealP>) -> Result<bool, String> {
    match catch(|| c.evaluate(p, st)) {
        Ok(Ok(b)) => Ok(b),
        Ok(Err(e)) => Err(format!("Err({e:#})")),
        Err(pn) => Err(format!("PANIC({pn})")),
    }
}

// ------------------------------------------------------------------------------------------------
// (1) stateless conditions on a grid
// ------------------------------------------------------------------------------------------------

#[derive(Clone, Debug, Serialize, Deserialize)]
pub enum GridCase {
    LessThanIter { n: u32, v: u32 },
    LessThanEval { n: u32, v: u32 },
    LessThanF { n: Fb, v: Fb },
    /// the bound on a user-defined 64-bit counter: decided in the counter's own order, not after conversion to f64
    LessThanTicks { n: u64, v: u64 },
    EveryN { n: u32, v: u32 },
    Optimum { best: Option<Fb>, opt: Fb, eps: Fb },
    /// two OptimumReached conditions with different tolerances, both initialised on the same state (a loop condition
    /// plus a branch, two branches ...): each decides with its own tolerance
    OptimumPair { best: Fb, opt: Fb, eps1: Fb, eps2: Fb },
}

pub struct GridCheck;

impl Check for GridCheck {
    type Case = GridCase;
    fn name(&self) -> String {
        "C10/grid".into()
    }
    fn classes(&self) -> &'static [&'static str] {
        &["value == n (boundary)", "value > n", "multiple of n", "best within epsilon boundary", "no best yet", "true result", "bound and value differ but convert to the same f64"]
    }
    fn oracle(&self, c: &GridCase) -> Outcome {
        let mut cl = 0u64;
        let r = grid_oracle(c, &mut cl);
        Outcome::new(cl & 0b1111 != 0, cl, r)
    }
}

fn progress_bits<L: 'static>(st: &State<RealP>) -> Option<u64>
where
    Progress<L>: for<'a> CustomState<'a>,
{
    st.try_get_value::<Progress<L>>().ok().map(|p| p.to_bits())
}

fn grid_oracle(c: &GridCase, cl: &mut u64) -> Result<(), Failure> {
    let p = problem();
    let mut st: State<RealP> = State::new();
    match c {
        GridCase::LessThanIter { n, v } | GridCase::LessThanEval { n, v } => {
            let iter = matches!(c, GridCase::LessThanIter { .. });
            let cond: Box<dyn Condition<RealP>> = if iter { LessThanN::iterations(*n) } else { LessThanN::evaluations(*n) };
            st.insert(Iterations(if iter { *v } else { 12345 }));
            st.insert(Evaluations(if iter { 54321 } else { *v }));
            cond.init(&p, &mut st).map_err(|e| Failure::new("C10 LessThanN init", format!("{e}")))?;
            let got = eval_cond(cond.as_ref(), &p, &mut st);
            if v == n {
                *cl |= 1;
            }
            if v > n {
                *cl |= 2;
            }
            let want = v < n;
            if want {
                *cl |= 32;
            }
            ensure_that!(got == Ok(want), "C10 LessThanN truth value", "LessThanN({n}) on value {v} = {got:?}, expected {want}");
            let prog = if iter { progress_bits::<ValueOf<Iterations>>(&st) } else { progress_bits::<ValueOf<Evaluations>>(&st) };
            let want_p = (f64::from(*v) / f64::from(*n)).to_bits();
            ensure_that!(prog == Some(want_p), "C10 LessThanN progress", "progress after LessThanN({n}) on {v} = {:?}, expected value/n = {:?}", prog.map(f64::from_bits), f64::from_bits(want_p));
        }
        GridCase::LessThanF { n, v } => {
            let (n, v) = (n.f(), v.f());
            let cond = LessThanN::new::<RealP>(n, ValueOf::<FState>::new());
            st.insert(FState(v));
            cond.init(&p, &mut st).map_err(|e| Failure::new("C10 LessThanN init", format!("{e}")))?;
            let got = eval_cond(cond.as_ref(), &p, &mut st);
            if v == n {
                *cl |= 1;
            }
            if v > n {
                *cl |= 2;
            }
            ensure_that!(got == Ok(v < n), "C10 LessThanN truth value", "LessThanN({n:?}) on f64 value {v:?} = {got:?}, expected {}", v < n);
            let prog = progress_bits::<ValueOf<FState>>(&st);
            let want_p = (v / n).to_bits();
            ensure_that!(prog == Some(want_p) || (f64::from_bits(want_p).is_nan() && prog.map(f64::from_bits).map_or(false, f64::is_nan)), "C10 LessThanN progress", "progress = {:?}, expected {:?}", prog.map(f64::from_bits), v / n);
        }
        GridCase::LessThanTicks { n, v } => {
            let cond = LessThanN::new::<RealP>(Ticks(*n), ValueOf::<TickState>::new());
            st.insert(TickState(Ticks(*v)));
            cond.init(&p, &mut st).map_err(|e| Failure::new("C10 LessThanN init", format!("{e}")))?;
            let got = eval_cond(cond.as_ref(), &p, &mut st);
            if v == n {
                *cl |= 1;
            }
            if v > n {
                *cl |= 2;
            }
            if v != n && (*v as f64) == (*n as f64) {
                *cl |= 64;
            }
            if v < n {
                *cl |= 32;
            }
            ensure_that!(got == Ok(v < n), "C10 LessThanN truth value", "LessThanN({n}) on a 64-bit counter with value {v} = {got:?}, expected {}", v < n);
            let prog = progress_bits::<ValueOf<TickState>>(&st);
            let want_p = (*v as f64 / *n as f64).to_bits();
            ensure_that!(prog == Some(want_p) || (f64::from_bits(want_p).is_nan() && prog.map(f64::from_bits).map_or(false, f64::is_nan)), "C10 LessThanN progress", "progress = {:?}, expected {:?}", prog.map(f64::from_bits), f64::from_bits(want_p));
        }
        GridCase::EveryN { n, v } => {
            let cond = EveryN::iterations::<RealP>(*n);
            st.insert(Iterations(*v));
            let got = eval_cond(cond.as_ref(), &p, &mut st);
            let want = v % n == 0;
            if want {
                *cl |= 4 | 32;
            }
            ensure_that!(got == Ok(want), "C10 EveryN truth value", "EveryN({n}) on value {v} = {got:?}, expected {want}");
            // same through the generic constructor on another counter
            let cond = EveryN::new::<RealP>(*n, ValueOf::<Evaluations>::new());
            st.insert(Evaluations(*v));
            st.insert(Iterations(v.wrapping_add(1)));
            let got = eval_cond(cond.as_ref(), &p, &mut st);
            ensure_that!(got == Ok(want), "C10 EveryN truth value", "EveryN({n}) over Evaluations on value {v} = {got:?}, expected {want}");
        }
        GridCase::OptimumPair { best, opt, eps1, eps2 } => {
            let (b, opt, e1, e2) = (best.f(), opt.f(), eps1.f(), eps2.f());
            let mut p = problem();
            p.optimum = opt;
            let (Ok(c1), Ok(c2)) = (OptimumReached::new::<RealP>(e1), OptimumReached::new::<RealP>(e2)) else { return Ok(()) };
            let mut bi = BestIndividual::<RealP>::new();
            bi.update(&Individual::new(vec![0.0], SingleObjective::try_from(b).unwrap()));
            st.insert(bi);
            for c in [&c1, &c2] {
                c.init(&p, &mut st).map_err(|e| Failure::new("C10 OptimumReached init", format!("{e}")))?;
            }
            let (w1, w2) = (b <= opt + e1, b <= opt + e2);
            if w1 != w2 {
                *cl |= 8;
            }
            for (k, (c, e, w)) in [(&c1, e1, w1), (&c2, e2, w2), (&c1, e1, w1)].into_iter().enumerate() {
                let got = eval_cond(c.as_ref(), &p, &mut st);
                ensure_that!(got == Ok(w), "C10 OptimumReached truth value", "two OptimumReached conditions (epsilon {e1:?} and {e2:?}) initialised on one state, best {b:?}, optimum {opt:?}: evaluation {k} of the one with epsilon {e:?} = {got:?}, expected {w}");
            }
        }
        GridCase::Optimum { best, opt, eps } => {
            let (opt, eps) = (opt.f(), eps.f());
            let mut p = problem();
            p.optimum = opt;
            let made = OptimumReached::new::<RealP>(eps);
            if !(eps >= 0.0) {
                ensure_that!(made.is_err(), "C10 OptimumReached accepts negative epsilon", "OptimumReached::new({eps:?}) was accepted");
                return Ok(());
            }
            let cond = match made {
                Ok(c) => c,
                Err(e) => fail!("C10 OptimumReached rejects valid epsilon", "OptimumReached::new({eps:?}) failed: {e}"),
            };
            match best {
                None => {
                    *cl |= 16;
                    let got = eval_cond(cond.as_ref(), &p, &mut st);
                    ensure_that!(got == Ok(false), "C10 OptimumReached without best", "no BestIndividual state: {got:?}");
                    st.insert(BestIndividual::<RealP>::new());
                    let got = eval_cond(cond.as_ref(), &p, &mut st);
                    ensure_that!(got == Ok(false), "C10 OptimumReached without best", "empty BestIndividual: {got:?}");
                }
                Some(b) => {
                    let b = b.f();
                    let mut bi = BestIndividual::<RealP>::new();
                    bi.update(&Individual::new(vec![0.0], SingleObjective::try_from(b).unwrap()));
                    st.insert(bi);
                    let got = eval_cond(cond.as_ref(), &p, &mut st);
                    let want = b <= opt + eps;
                    let edge = opt + eps;
                    if b == edge || b == next_up(edge) || b == next_down(edge) {
                        *cl |= 8;
                    }
                    if want {
                        *cl |= 32;
                    }
                    ensure_that!(got == Ok(want), "C10 OptimumReached truth value", "OptimumReached({eps:?}) with best {b:?} and optimum {opt:?} = {got:?}, expected {want}");
                }
            }
        }
    }
    Ok(())
}

pub fn next_up(x: f64) -> f64 {
    if x.is_nan() || x == f64::INFINITY {
        return x;
    }
    if x == 0.0 {
        return f64::from_bits(1);
    }
    let b = x.to_bits();
    f64::from_bits(if x > 0.0 { b + 1 } else { b - 1 })
}
pub fn next_down(x: f64) -> f64 {
    -next_up(-x)
}

fn grid_cases() -> Vec<GridCase> {
    let ns = [0u32, 1, 2, 3, 7, 100, u32::MAX - 1, u32::MAX];
    let mut out = Vec::new();
    for n in ns {
        for v in ns {
            out.push(GridCase::LessThanIter { n, v });
            out.push(GridCase::LessThanEval { n, v });
        }
    }
    let fs = [0.0, -0.0, 1.0, 1.5, -2.0, 1e300, f64::INFINITY, f64::MIN_POSITIVE];
    for n in fs {
        for v in fs {
            out.push(GridCase::LessThanF { n: Fb::of(n), v: Fb::of(v) });
            out.push(GridCase::LessThanF { n: Fb::of(n), v: Fb::of(next_up(n)) });
            out.push(GridCase::LessThanF { n: Fb::of(n), v: Fb::of(next_down(n)) });
            out.push(GridCase::LessThanF { n: Fb::of(n), v: Fb::of(v) });
        }
        // a float-valued source state can hold NaN (e.g. a ratio 0/0) or -inf: neither is "below n" / both are ordered
        for v in [f64::NAN, -f64::NAN, f64::NEG_INFINITY] {
            out.push(GridCase::LessThanF { n: Fb::of(n), v: Fb::of(v) });
        }
    }
    for base in [0u64, 5, 1 << 53, 1 << 60, u64::MAX - 4] {
        for dn in 0..4u64 {
            for dv in 0..4u64 {
                out.push(GridCase::LessThanTicks { n: base + dn, v: base + dv });
            }
        }
    }
    for n in 1..=12u32 {
        for v in 0..=100u32 {
            out.push(GridCase::EveryN { n, v });
        }
        out.push(GridCase::EveryN { n, v: u32::MAX });
    }
    for opt in [0.0, -5.0, 3.25, 1e6] {
        for eps in [0.0, 1e-9, 0.1, 1.0, -0.1, -1e-12] {
            out.push(GridCase::Optimum { best: None, opt: Fb::of(opt), eps: Fb::of(eps) });
            if eps >= 0.0 {
                for eps2 in [0.0, 0.5, 2.0] {
                    for b in [opt + (eps + eps2) / 2.0, opt + eps, opt + eps2, opt] {
                        out.push(GridCase::OptimumPair { best: Fb::of(b), opt: Fb::of(opt), eps1: Fb::of(eps), eps2: Fb::of(eps2) });
                    }
                }
            }
            let edge = opt + eps;
            for b in [edge, next_up(edge), next_down(edge), opt, opt - 1.0, opt + 2.0 * eps.abs() + 1.0, opt - eps, f64::INFINITY, next_up(opt), next_down(opt)] {
                out.push(GridCase::Optimum { best: Some(Fb::of(b)), opt: Fb::of(opt), eps: Fb::of(eps) });
            }
        }
    }
    out
}

fn grid_strategy() -> impl Strategy<Value = GridCase> {
    prop_oneof![
        (any::<u32>(), any::<u32>()).prop_map(|(n, v)| GridCase::LessThanIter { n, v }),
        (0u32..50, 0u32..60).prop_map(|(n, v)| GridCase::LessThanEval { n, v }),
        (-1e3f64..1e3, prop_oneof![8 => (-1e3f64..1e3).boxed(), 1 => Just(f64::NAN).boxed(), 1 => prop_oneof![Just(f64::INFINITY), Just(f64::NEG_INFINITY), Just(-0.0), Just(0.0)].boxed()]).prop_map(|(n, v)| GridCase::LessThanF { n: Fb::of(n), v: Fb::of(v) }),
        (prop_oneof![Just(0u64), Just(1 << 53), Just(1 << 62), Just(u64::MAX - 600), any::<u64>().prop_map(|b| b.min(u64::MAX - 600))], 0u64..300, 0u64..300).prop_map(|(b, dn, dv)| GridCase::LessThanTicks { n: b + dn, v: b + dv }),
        (1u32..5000, any::<u32>()).prop_map(|(n, v)| GridCase::EveryN { n, v }),
        (1u32..50, 0u32..40).prop_map(|(n, k)| GridCase::EveryN { n, v: n.saturating_mul(k) }),
        (proptest::option::of(-1e3f64..1e3), -1e3f64..1e3, 0f64..10.0).prop_map(|(b, o, e)| GridCase::Optimum { best: b.map(Fb::of), opt: Fb::of(o), eps: Fb::of(e) }),
        (-1e3f64..1e3, 0f64..10.0, 0f64..10.0, 0.0f64..=1.0).prop_map(|(o, e1, e2, t)| GridCase::OptimumPair { best: Fb::of(o + e1.min(e2) + t * (e1 - e2).abs()), opt: Fb::of(o), eps1: Fb::of(e1), eps2: Fb::of(e2) }),
        (-1e3f64..1e3, 0f64..10.0, -2i32..3).prop_map(|(o, e, d)| {
            let edge = o + e;
            let b = match d { -2 => next_down(next_down(edge)), -1 => next_down(edge), 0 => edge, 1 => next_up(edge), _ => next_up(next_up(edge)) };
            GridCase::Optimum { best: Some(Fb::of(b)), opt: Fb::of(o), eps: Fb::of(e) }
        }),
    ]
}

// ------------------------------------------------------------------------------------------------
// (2) iteration-bounded loops
// ------------------------------------------------------------------------------------------------

static BODY_RUNS: AtomicU32 = AtomicU32::new(0);
static COND_EVALS: AtomicU32 = AtomicU32::new(0);
static PROGRESS_LOG: std::sync::Mutex<Vec<u64>> = std::sync::Mutex::new(Vec::new());

#[derive(Clone, Serialize)]
struct CountingBody;
impl Component<RealP> for CountingBody {
    fn execute(&self, _p: &RealP, st: &mut State<RealP>) -> ExecResult<()> {
        BODY_RUNS.fetch_add(1, AO::SeqCst);
        let pr = st.try_get_value::<Progress<ValueOf<Iterations>>>()?;
        PROGRESS_LOG.lock().unwrap().push(pr.to_bits());
        Ok(())
    }
}

#[derive(Clone, Serialize)]
struct CountingCond {
    #[serde(skip)]
    inner: Box<dyn Condition<RealP>>,
}
impl Condition<RealP> for CountingCond {
    fn init(&self, p: &RealP, st: &mut State<RealP>) -> ExecResult<()> {
        self.inner.init(p, st)
    }
    fn require(&self, p: &RealP, r: &StateReq<RealP>) -> ExecResult<()> {
        self.inner.require(p, r)
    }
    fn evaluate(&self, p: &RealP, st: &mut State<RealP>) -> ExecResult<bool> {
        COND_EVALS.fetch_add(1, AO::SeqCst);
        self.inner.evaluate(p, st)
    }
}

#[derive(Clone, Debug, Serialize, Deserialize)]
pub struct LoopCase {
    pub n: u32,
    /// 0: plain loop; 1: loop nested in a scope
    pub shape: u8,
}

pub struct LoopCheck;

impl Check for LoopCheck {
    type Case = LoopCase;
    fn name(&self) -> String {
        "C10/iteration-loop".into()
    }
    fn classes(&self) -> &'static [&'static str] {
        &["n>=2", "n==0", "in scope"]
    }
    fn oracle(&self, c: &LoopCase) -> Outcome {
        let mut cl = 0;
        if c.n >= 2 {
            cl |= 1;
        }
        if c.n == 0 {
            cl |= 2;
        }
        if c.shape % 2 == 1 {
            cl |= 4;
        }
        Outcome::new(c.n >= 2, cl, loop_oracle(c))
    }
}

fn loop_oracle(c: &LoopCase) -> Result<(), Failure> {
    let n = c.n;
    BODY_RUNS.store(0, AO::SeqCst);
    COND_EVALS.store(0, AO::SeqCst);
    PROGRESS_LOG.lock().unwrap().clear();
    let mk = || Box::new(CountingCond { inner: LessThanN::iterations(n) }) as Box<dyn Condition<RealP>>;
    let body = |b: mahf::configuration::ConfigurationBuilder<RealP>| b.do_(Box::new(CountingBody));
    let cfg = match c.shape % 2 {
        0 => Configuration::builder().while_(mk(), body).build(),
        _ => Configuration::builder().scope_(|b| b.while_(mk(), body)).build(),
    };
    let p = problem();
    let mut st: State<RealP> = State::new();
    let r = catch(|| cfg.run(&p, &mut st));
    ensure_that!(matches!(r, Ok(Ok(()))), "C10 loop run failed", "run failed: {r:?}");
    let runs = BODY_RUNS.load(AO::SeqCst);
    let evals = COND_EVALS.load(AO::SeqCst);
    ensure_that!(runs == n, "C10 loop pass count", "while_(LessThanN::iterations({n})) ran its body {runs} times");
    ensure_that!(evals == n + 1, "C10 loop condition evaluations", "condition evaluated {evals} times for n = {n}, expected n + 1");
    let log = PROGRESS_LOG.lock().unwrap().clone();
    let want: Vec<u64> = (0..n).map(|k| (f64::from(k) / f64::from(n)).to_bits()).collect();
    ensure_that!(log == want, "C10 loop progress sequence", "progress seen by the body: {:?}, expected k/n for k = 0..{n}", log.iter().map(|b| f64::from_bits(*b)).collect::<Vec<_>>());
    if c.shape % 2 != 1 {
        let it = st.try_get_value::<Iterations>().ok();
        ensure_that!(it == Some(n), "C10 final iteration count", "final Iterations = {it:?}, expected {n}");
    }
    Ok(())
}

// ------------------------------------------------------------------------------------------------
// (2') nested iteration-bounded loops: every loop has its own counter and its own progress value
// ------------------------------------------------------------------------------------------------

static NESTED_LOG: std::sync::Mutex<Vec<(u8, u64)>> = std::sync::Mutex::new(Vec::new());

/// Records the progress value (of the innermost enclosing iteration-bounded loop) it sees, under its tag.
#[derive(Clone, Serialize)]
struct ProgressProbe(u8);
impl Component<RealP> for ProgressProbe {
    fn execute(&self, _p: &RealP, st: &mut State<RealP>) -> ExecResult<()> {
        let pr = st.try_get_value::<Progress<ValueOf<Iterations>>>()?;
        NESTED_LOG.lock().unwrap().push((self.0, pr.to_bits()));
        Ok(())
    }
}

/// Loop bounds from the outside in (1-3 levels); every inner loop sits in a scope of its own, between a probe before
/// and a probe after it.
#[derive(Clone, Debug, Serialize, Deserialize)]
pub struct NestedCase {
    pub bounds: Vec<u32>,
}

pub struct NestedCheck;

impl Check for NestedCheck {
    type Case = NestedCase;
    fn name(&self) -> String {
        "C10/nested-loops".into()
    }
    fn classes(&self) -> &'static [&'static str] {
        &["depth >= 2", "depth 3", "an inner loop with more passes than its enclosing loop"]
    }
    fn oracle(&self, c: &NestedCase) -> Outcome {
        let mut cl = 0;
        let b: Vec<u32> = c.bounds.iter().take(3).map(|n| n % 6).collect();
        if b.len() >= 2 {
            cl |= 1;
        }
        if b.len() >= 3 {
            cl |= 2;
        }
        if b.windows(2).any(|w| w[1] > w[0]) {
            cl |= 4;
        }
        Outcome::new(b.len() >= 2 && b.iter().all(|n| *n >= 1), cl, nested_oracle(&b))
    }
}

fn nested_build(bounds: &[u32], level: u8, b: mahf::configuration::ConfigurationBuilder<RealP>) -> mahf::configuration::ConfigurationBuilder<RealP> {
    let Some((n, rest)) = bounds.split_first() else { return b };
    let rest = rest.to_vec();
    b.while_(LessThanN::iterations(*n), move |b| {
        let b = b.do_(Box::new(ProgressProbe(2 * level)));
        let b = if rest.is_empty() { b } else { b.scope_(|b| nested_build(&rest, level + 1, b)) };
        b.do_(Box::new(ProgressProbe(2 * level + 1)))
    })
}

fn nested_expect(bounds: &[u32], level: u8, out: &mut Vec<(u8, u64)>) {
    let Some((n, rest)) = bounds.split_first() else { return };
    for k in 0..*n {
        let pr = (f64::from(k) / f64::from(*n)).to_bits();
        out.push((2 * level, pr));
        nested_expect(rest, level + 1, out);
        out.push((2 * level + 1, pr));
    }
}

fn nested_oracle(bounds: &[u32]) -> Result<(), Failure> {
    NESTED_LOG.lock().unwrap().clear();
    let cfg = nested_build(bounds, 0, Configuration::builder()).build();
    let p = problem();
    let mut st: State<RealP> = State::new();
    let r = catch(|| cfg.run(&p, &mut st));
    ensure_that!(matches!(r, Ok(Ok(()))), "C10 loop run failed", "nested loops {bounds:?}: run failed: {r:?}");
    let log = NESTED_LOG.lock().unwrap().clone();
    let mut want = Vec::new();
    nested_expect(bounds, 0, &mut want);
    if log != want {
        let k = log.iter().zip(&want).position(|(a, b)| a != b).unwrap_or(log.len().min(want.len()));
        let show = |v: &[(u8, u64)]| v.iter().map(|(t, b)| format!("L{}{}:{}", t / 2, if t % 2 == 0 { "a" } else { "b" }, f64::from_bits(*b))).collect::<Vec<_>>().join(" ");
        let sig = if log.len() != want.len() { "C10 loop pass count" } else { "C10 nested loop progress" };
        fail!(
            sig,
            "loops nested through scopes with bounds {bounds:?} (outermost first): a probe before (a) and after (b) the nested scope in every pass must see pass/n of ITS loop; first difference at record {k}: saw {} expected {}",
            show(&log[k.saturating_sub(2)..(k + 3).min(log.len())]),
            show(&want[k.saturating_sub(2)..(k + 3).min(want.len())])
        );
    }
    Ok(())
}

// ------------------------------------------------------------------------------------------------
// (3) ChangeOf histories
// ------------------------------------------------------------------------------------------------

#[derive(Clone, Debug, Serialize, Deserialize)]
pub struct ChangeCase {
    /// None = PartialEqChecker, Some(t) = DeltaEqChecker(t)
    pub threshold: Option<i64>,
    pub values: Vec<i64>,
    /// run over SingleObjective values instead of i64
    pub objective: bool,
    /// evaluations (indices into `values`, modulo its length) at which the observed state is missing: the evaluation
    /// fails and must leave the remembered baseline as it was
    #[serde(default)]
    pub missing: Vec<u8>,
    /// evaluations (indices modulo the length) made from inside a nested scope that was opened without re-initialising
    /// the condition: the condition has ONE memory, wherever it is evaluated from
    #[serde(default)]
    pub scoped: Vec<u8>,
}

pub struct ChangeCheck;

impl Check for ChangeCheck {
    type Case = ChangeCase;
    fn name(&self) -> String {
        "C10/change-of".into()
    }
    fn classes(&self) -> &'static [&'static str] {
        &["value returns to an earlier value", "repeat of the same value", "delta checker", "sub-threshold drift accumulates", "objective-valued", "an evaluation with the source state missing", "an evaluation from inside a nested scope", "history also driven through a loop whose condition holds the ChangeOf", "objective-valued history with +inf"]
    }
    fn oracle(&self, c: &ChangeCase) -> Outcome {
        let mut cl = 0;
        let v = &c.values;
        if (0..v.len()).any(|i| (0..i).any(|j| v[i] == v[j] && (j + 1..i).any(|k| v[k] != v[i]))) {
            cl |= 1;
        }
        if v.windows(2).any(|w| w[0] == w[1]) {
            cl |= 2;
        }
        if c.threshold.is_some() {
            cl |= 4;
        }
        if c.objective {
            cl |= 16;
        }
        let r = change_oracle(c, &mut cl);
        Outcome::new(cl & 1 != 0, cl, r)
    }
}

/// Objective-valued histories: 7 encodes +inf.
fn obj_value(v: i64) -> f64 {
    if v == 7 {
        f64::INFINITY
    } else {
        v as f64
    }
}

fn change_oracle(c: &ChangeCase, cl: &mut u64) -> Result<(), Failure> {
    let p = problem();
    let mut st: State<RealP> = State::new();
    let cond: Box<dyn Condition<RealP>> = match (c.objective, c.threshold) {
        (false, None) => ChangeOf::new::<RealP>(PartialEqChecker::new::<i64>(), ValueOf::<T0>::new()),
        (false, Some(t)) => ChangeOf::new::<RealP>(DeltaEqChecker::new(t), ValueOf::<T0>::new()),
        (true, None) => ChangeOf::new::<RealP>(PartialEqChecker::new::<SingleObjective>(), ValueOf::<ObjState>::new()),
        (true, Some(t)) => ChangeOf::new::<RealP>(DeltaEqChecker::new(SingleObjective::try_from(t as f64).unwrap()), ValueOf::<ObjState>::new()),
    };
    cond.init(&p, &mut st).map_err(|e| Failure::new("C10 ChangeOf init", format!("{e}")))?;
    let mut prev: Option<i64> = None;
    let mut got_all = Vec::new();
    let mut want_all = Vec::new();
    for (k, v) in c.values.iter().enumerate() {
        if c.missing.iter().any(|m| *m as usize % c.values.len() == k) {
            *cl |= 32;
            if c.objective {
                let _ = st.remove::<ObjState>();
            } else {
                let _ = st.remove::<T0>();
            }
            let got = eval_cond(cond.as_ref(), &p, &mut st);
            ensure_that!(got.is_err(), "C10 ChangeOf on a missing source state", "ChangeOf over the history {:?} (missing at {:?}): evaluation #{} with the observed state missing returned {got:?}, expected an error", c.values, c.missing, k + 1);
            continue;
        }
        if c.objective {
            st.insert(ObjState(SingleObjective::try_from(obj_value(*v)).unwrap()));
        } else {
            st.insert(T0(*v));
        }
        let in_scope = c.scoped.iter().any(|m| *m as usize % c.values.len() == k);
        let got = if in_scope {
            *cl |= 64;
            let mut inner_result = Err("scope not entered".to_string());
            let depth = 1 + k % 2;
            let r = st.with_inner_state(|s1| {
                if depth == 2 {
                    s1.with_inner_state(|s2| {
                        inner_result = eval_cond(cond.as_ref(), &p, s2);
                        Ok(())
                    })?;
                } else {
                    inner_result = eval_cond(cond.as_ref(), &p, s1);
                }
                Ok(())
            });
            if r.is_err() { Err("with_inner_state failed".to_string()) } else { inner_result }
        } else {
            eval_cond(cond.as_ref(), &p, &mut st)
        };
        // in objective mode the value 7 stands for +inf (an infeasible best-so-far): equal to itself, infinitely far from
        // everything else; whether two infinite values are within a tolerance of each other (inf - inf) is not specified -
        // the condition must answer without failing, and the model follows its answer
        let unspecified = c.objective && c.threshold.is_some() && prev == Some(7) && *v == 7;
        if c.objective && *v == 7 {
            *cl |= 256;
        }
        let want = match prev {
            None => true,
            Some(_) if unspecified => match &got {
                Ok(b) => *b,
                Err(_) => false,
            },
            Some(pv) => match c.threshold {
                None => pv != *v,
                Some(t) if c.objective => (obj_value(pv) - obj_value(*v)).abs() >= t as f64,
                Some(t) => (pv - *v).abs() >= t,
            },
        };
        if let (Some(pv), Some(t)) = (prev, c.threshold) {
            if !want && pv != *v && t > 1 {
                *cl |= 8;
            }
        }
        if want {
            prev = Some(*v);
        }
        got_all.push(got.clone());
        want_all.push(want);
        if got != Ok(want) {
            let kind = if c.threshold.is_some() { "DeltaEqChecker" } else { "PartialEqChecker" };
            fail!(
                format!("C10 ChangeOf/{kind} truth value"),
                "ChangeOf with {kind}({:?}) over the history {:?}: evaluation #{} returned {got:?}, expected {want} (true on the first evaluation, then true exactly when the value differs by the chosen measure from the value last reported). results so far {got_all:?}, expected {want_all:?}",
                c.threshold,
                c.values,
                got_all.len()
            );
        }
    }
    // the same history as the condition of a real loop: `while changed & iterations < len { value = next }` makes as many
    // passes as the history has leading reported changes (the loop initialises its condition once, on entry)
    if !c.objective && c.missing.is_empty() && c.scoped.is_empty() && !c.values.is_empty() {
        *cl |= 128;
        let len = c.values.len();
        let mut prev: Option<i64> = None;
        let mut passes = 0u32;
        for k in 0..=len {
            let v = c.values[k.min(len - 1)];
            let changed = match (prev, c.threshold) {
                (None, _) => true,
                (Some(pv), None) => pv != v,
                (Some(pv), Some(t)) => (pv - v).abs() >= t,
            };
            if changed {
                prev = Some(v);
            }
            if !(changed && k < len) {
                break;
            }
            passes += 1;
        }
        let change: Box<dyn Condition<RealP>> = match c.threshold {
            None => ChangeOf::new::<RealP>(PartialEqChecker::new::<i64>(), ValueOf::<T0>::new()),
            Some(t) => ChangeOf::new::<RealP>(DeltaEqChecker::new(t), ValueOf::<T0>::new()),
        };
        let cfg = Configuration::builder().while_(change & LessThanN::iterations(len as u32), |b| b.do_(Box::new(NextValue(c.values.clone())))).build();
        let first = c.values[0];
        let res = catch(|| cfg.optimize_with(&p, |st| {
            st.insert(T0(first));
            Ok(())
        }));
        match res {
            Ok(Ok(st)) => {
                let it = st.try_get_value::<Iterations>().ok();
                ensure_that!(it == Some(passes), "C10 loop over ChangeOf makes the wrong number of passes", "while ChangeOf({:?}) & iterations < {len} over the history {:?}: {it:?} passes, expected {passes}", c.threshold, c.values);
            }
            Ok(Err(e)) => fail!("C10 loop over ChangeOf fails", "history {:?}: {e:#}", c.values),
            Err(pn) => fail!("C10 loop over ChangeOf panics", "history {:?}: {pn}", c.values),
        }
    }
    Ok(())
}

/// Loop body of the ChangeOf loop: after pass i the observed value is history[i + 1] (the last one repeats).
#[derive(Clone, Serialize)]
struct NextValue(Vec<i64>);
impl Component<RealP> for NextValue {
    fn execute(&self, _p: &RealP, st: &mut State<RealP>) -> ExecResult<()> {
        let i = st.try_get_value::<Iterations>()? as usize;
        st.insert(T0(self.0[(i + 1).min(self.0.len() - 1)]));
        Ok(())
    }
}

// ------------------------------------------------------------------------------------------------
// (4) RandomChance
// ------------------------------------------------------------------------------------------------

#[derive(Clone, Debug, Serialize, Deserialize)]
pub struct ChanceCase {
    pub p: Fb,
    pub seed: u64,
    pub n: u32,
}

pub struct ChanceCheck;

impl Check for ChanceCheck {
    type Case = ChanceCase;
    fn name(&self) -> String {
        "C10/random-chance".into()
    }
    fn classes(&self) -> &'static [&'static str] {
        &["p in (0,1)", "p == 0 or 1"]
    }
    fn oracle(&self, c: &ChanceCase) -> Outcome {
        let p = c.p.f();
        let inner = p > 0.0 && p < 1.0;
        Outcome::new(inner, if inner { 1 } else { 2 }, chance_oracle(c))
    }
}

fn chance_oracle(c: &ChanceCase) -> Result<(), Failure> {
    let pr = c.p.f();
    let p = problem();
    let mut st: State<RealP> = State::new();
    st.insert(Random::new(c.seed));
    let cond = RandomChance::new::<RealP>(pr);
    let mut k = 0u32;
    for _ in 0..c.n {
        match eval_cond(cond.as_ref(), &p, &mut st) {
            Ok(true) => k += 1,
            Ok(false) => {}
            Err(e) => fail!("C10 RandomChance fails", "RandomChance({pr}) failed: {e}"),
        }
    }
    if pr == 0.0 {
        ensure_that!(k == 0, "C10 RandomChance(0) fired", "RandomChance(0) fired {k} times");
    } else if pr == 1.0 {
        ensure_that!(k == c.n, "C10 RandomChance(1) missed", "RandomChance(1) fired {k} of {} times", c.n);
    } else {
        let n = c.n as f64;
        let sigma = (n * pr * (1.0 - pr)).sqrt();
        let dev = (k as f64 - n * pr).abs();
        ensure_that!(dev <= 6.0 * sigma + 1.0, "C10 RandomChance frequency", "RandomChance({pr}) fired {k} of {} times (seed {}), expected {:.1} +- {:.1} (6 sigma)", c.n, c.seed, n * pr, 6.0 * sigma);
    }
    Ok(())
}

// ------------------------------------------------------------------------------------------------
// (5) Boolean formulas
// ------------------------------------------------------------------------------------------------

#[derive(Clone, Debug, Serialize, Deserialize, PartialEq)]
pub enum F {
    Leaf(u16, Vec<bool>),
    And(Vec<F>),
    Or(Vec<F>),
    Not(Box<F>),
}

#[derive(Clone, Debug, Serialize, Deserialize)]
pub struct FormulaCase {
    pub f: F,
    pub evaluations: u8,
    /// fail at the k-th event (init / require / evaluate of some operand)
    pub fault: Option<u16>,
}

fn renumber(f: &mut F, next: &mut u16) {
    match f {
        F::Leaf(id, _) => {
            *id = *next;
            *next += 1;
        }
        F::And(v) | F::Or(v) => v.iter_mut().for_each(|x| renumber(x, next)),
        F::Not(x) => renumber(x, next),
    }
}

fn leaves(f: &F, out: &mut Vec<(u16, Vec<bool>)>) {
    match f {
        F::Leaf(id, s) => out.push((*id, s.clone())),
        F::And(v) | F::Or(v) => v.iter().for_each(|x| leaves(x, out)),
        F::Not(x) => leaves(x, out),
    }
}

fn depth(f: &F) -> usize {
    match f {
        F::Leaf(..) => 0,
        F::And(v) | F::Or(v) => 1 + v.iter().map(depth).max().unwrap_or(0),
        F::Not(x) => 1 + depth(x),
    }
}

fn kinds(f: &F, acc: &mut u8) {
    match f {
        F::Leaf(..) => {}
        F::And(v) => {
            *acc |= 1;
            v.iter().for_each(|x| kinds(x, acc));
        }
        F::Or(v) => {
            *acc |= 2;
            v.iter().for_each(|x| kinds(x, acc));
        }
        F::Not(x) => {
            *acc |= 4;
            kinds(x, acc);
        }
    }
}

fn build_ctor(f: &F) -> Box<dyn Condition<RealP>> {
    match f {
        F::Leaf(id, s) => Box::new(ScriptC { id: *id, script: s.clone() }),
        F::And(v) => And::new(v.iter().map(build_ctor)),
        F::Or(v) => Or::new(v.iter().map(build_ctor)),
        F::Not(x) => Not::new(build_ctor(x)),
    }
}

/// Same formula through the `& | !` operators where possible (operands folded left to right).
fn build_ops(f: &F) -> Box<dyn Condition<RealP>> {
    match f {
        F::Leaf(id, s) => Box::new(ScriptC { id: *id, script: s.clone() }),
        F::And(v) if v.len() >= 2 => v.iter().map(build_ops).reduce(|a, b| a & b).unwrap(),
        F::Or(v) if v.len() >= 2 => v.iter().map(build_ops).reduce(|a, b| a | b).unwrap(),
        F::And(v) => And::new(v.iter().map(build_ops)),
        F::Or(v) => Or::new(v.iter().map(build_ops)),
        F::Not(x) => !build_ops(x),
    }
}

fn truth(f: &F, vals: &std::collections::BTreeMap<u16, bool>) -> bool {
    match f {
        F::Leaf(id, _) => vals[id],
        F::And(v) => v.iter().all(|x| truth(x, vals)),
        F::Or(v) => v.iter().any(|x| truth(x, vals)),
        F::Not(x) => !truth(x, vals),
    }
}

pub struct FormulaCheck;

impl Check for FormulaCheck {
    type Case = FormulaCase;
    fn name(&self) -> String {
        "C10/boolean-formula".into()
    }
    fn classes(&self) -> &'static [&'static str] {
        &["depth>=2", "mixes And/Or/Not", "operand error injected", "empty And/Or"]
    }
    fn oracle(&self, c: &FormulaCase) -> Outcome {
        let mut cl = 0;
        if depth(&c.f) >= 2 {
            cl |= 1;
        }
        let mut k = 0;
        kinds(&c.f, &mut k);
        if k.count_ones() >= 2 {
            cl |= 2;
        }
        let r = formula_oracle(c, &mut cl);
        Outcome::new(cl & 3 == 3, cl, r)
    }
}

fn formula_oracle(c: &FormulaCase, cl: &mut u64) -> Result<(), Failure> {
    let mut ls = Vec::new();
    leaves(&c.f, &mut ls);
    let n_evals = (c.evaluations % 4) as usize + 1;
    // expected fault-free trace: init of all leaves in order, require of all, then n_evals rounds of evaluation
    let mut want: Vec<Ev> = Vec::new();
    want.extend(ls.iter().map(|(id, _)| Ev::CInit(*id)));
    want.extend(ls.iter().map(|(id, _)| Ev::CRequire(*id)));
    let mut results = Vec::new();
    for round in 0..n_evals {
        let mut vals = std::collections::BTreeMap::new();
        for (id, s) in &ls {
            let b = s.get(round).copied().unwrap_or(false);
            vals.insert(*id, b);
            want.push(Ev::CEval(*id, b));
        }
        results.push(truth(&c.f, &vals));
    }
    let fault_at = c.fault.map(|f| f as usize % want.len().max(1)).filter(|_| !want.is_empty());
    if fault_at.is_some() {
        *cl |= 4;
    }
    for (how, cond) in [("constructors", build_ctor(&c.f)), ("operators", build_ops(&c.f)), ("clone", build_ctor(&c.f).clone())] {
        tl_reset(fault_at);
        let p = problem();
        let mut st: State<RealP> = State::new();
        let mut got_results = Vec::new();
        let mut err: Option<String> = None;
        let run = catch(|| -> ExecResult<()> {
            cond.init(&p, &mut st)?;
            cond.require(&p, &st.requirements())?;
            for _ in 0..n_evals {
                got_results.push(cond.evaluate(&p, &mut st)?);
            }
            Ok(())
        });
        match run {
            Ok(Ok(())) => {}
            Ok(Err(e)) => err = Some(format!("{e:#}")),
            Err(pn) => fail!("C10 formula panics", "[{how}] {:?} panicked: {pn}", c.f),
        }
        let trace = tl_take_trace();
        let want_trace: &[Ev] = match fault_at {
            Some(f) => &want[..=f],
            None => &want,
        };
        if trace != want_trace {
            let sig = if trace.len() < want_trace.len() && fault_at.is_none() { "C10 formula operand not evaluated (short-circuit)" } else { "C10 formula operand evaluation order/count" };
            fail!(sig, "[{how}] formula {:?}: operand lifecycle trace {trace:?}, expected every operand exactly once per phase and evaluation, in order: {want_trace:?}", c.f);
        }
        match fault_at {
            None => {
                ensure_that!(err.is_none(), "C10 formula spurious error", "[{how}] {err:?}");
                ensure_that!(got_results == results, "C10 formula truth value", "[{how}] formula {:?} over {n_evals} evaluations gave {got_results:?}, Boolean semantics say {results:?}", c.f);
            }
            Some(_) => {
                ensure_that!(err.as_deref().map_or(false, |e| e.contains("injected fault")), "C10 formula operand error not returned", "[{how}] operand failed but the formula returned {err:?} / {got_results:?}");
                let k = got_results.len();
                ensure_that!(got_results[..] == results[..k], "C10 formula truth value", "[{how}] results before the failing evaluation {got_results:?}, expected prefix of {results:?}");
            }
        }
    }
    Ok(())
}

fn all_formulas(depth: usize, nleaf_scripts: &[Vec<bool>]) -> Vec<F> {
    let mut level: Vec<F> = nleaf_scripts.iter().map(|s| F::Leaf(0, s.clone())).collect();
    let mut all = level.clone();
    for _ in 0..depth {
        let mut next = Vec::new();
        // unary
        for x in &all {
            next.push(F::Not(Box::new(x.clone())));
        }
        // binary over everything so far (bounded)
        let pool: Vec<F> = all.iter().take(14).cloned().collect();
        for a in &pool {
            for b in &pool {
                next.push(F::And(vec![a.clone(), b.clone()]));
                next.push(F::Or(vec![a.clone(), b.clone()]));
            }
        }
        // ternary on the leaves
        for a in &level {
            for b in &level {
                for c in &level {
                    next.push(F::And(vec![a.clone(), b.clone(), c.clone()]));
                    next.push(F::Or(vec![a.clone(), b.clone(), c.clone()]));
                }
            }
        }
        all.extend(next.iter().cloned());
        level = level.clone();
    }
    all.push(F::And(vec![]));
    all.push(F::Or(vec![]));
    all
}

fn formula_strategy() -> impl Strategy<Value = F> {
    let leaf = proptest::collection::vec(any::<bool>(), 0..4).prop_map(|s| F::Leaf(0, s));
    leaf.prop_recursive(3, 24, 4, |inner| {
        prop_oneof![
            2 => proptest::collection::vec(inner.clone(), 0..4).prop_map(F::And),
            2 => proptest::collection::vec(inner.clone(), 0..4).prop_map(F::Or),
            1 => inner.prop_map(|x| F::Not(Box::new(x))),
        ]
    })
}

pub fn run_all(ctx: &mut Ctx, replay: Option<&Path>) {
    ctx.rule("five generators: grid (LessThanN over iterations/evaluations/an f64 state/a user-defined 64-bit counter whose conversion to f64 is lossy - bound and value up to 300 apart around 0, 2^53, 2^62 and u64::MAX - incl. the progress value; EveryN; OptimumReached around the epsilon boundary incl. absent best) — non-trivial = boundary/above-n/multiple/epsilon-edge cases; iteration-bounded loops n in 0..40 (plain, in a scope, two in sequence) — non-trivial n >= 2; ChangeOf value histories with PartialEq and Delta checkers over i64 and SingleObjective values against a `last reported value` model, the i64 histories also as the condition `ChangeOf & iterations < len` of a real loop whose body installs the next value (passes = leading reported changes; the loop initialises its condition once) — non-trivial = history returns to an earlier value; RandomChance frequency over N seeded draws within 6 sigma — non-trivial = p in (0,1); Boolean formulas over scripted, tracing operands built by constructors, by & | ! and cloned, with one injected operand error — non-trivial = depth >= 2 mixing operators; distinct by case");
    ctx.assume("EveryN(0) is outside the domain (division by zero is not specified)");
    ctx.assume("RandomChance: 6-sigma band on a fixed sample size; smaller deviations are invisible");
    let g = GridCheck;
    let l = LoopCheck;
    let nl = NestedCheck;
    let ch = ChangeCheck;
    let rc = ChanceCheck;
    let f = FormulaCheck;
    if let Some(p) = replay {
        let _ = ctx.replay_file(&g, p) || ctx.replay_file(&l, p) || ctx.replay_file(&nl, p) || ctx.replay_file(&ch, p) || ctx.replay_file(&rc, p) || ctx.replay_file(&f, p);
        return;
    }
    ctx.regressions(&g);
    ctx.regressions(&l);
    ctx.regressions(&nl);
    ctx.regressions(&ch);
    ctx.regressions(&rc);
    ctx.regressions(&f);
    ctx.exhaustive(&g, "grid: n, value in {0,1,2,3,7,100,MAX-1,MAX}^2 for LessThanN (u32 counters), 8 f64 values with neighbours, EveryN n in 1..=12 x value in 0..=100, OptimumReached 4 optima x 6 epsilons x 10 best values around the edge", grid_cases().into_iter());
    ctx.random(&g, grid_strategy(), ctx.tier.pick(300_000, 1_500_000));
    ctx.exhaustive(&l, "n in 0..40 x {plain, in scope}", (0..40u32).flat_map(|n| (0..2u8).map(move |shape| LoopCase { n, shape })));
    ctx.random(&l, (0u32..400, 0u8..2).prop_map(|(n, shape)| LoopCase { n, shape }), ctx.tier.pick(300, 3000));
    ctx.exhaustive(
        &nl,
        "all loop nests of depth 1-3 (each inner loop in a scope of its own) with bounds 0-5 per level, a progress probe before and after the nested scope in every pass",
        (0u32..6).flat_map(|a| std::iter::once(vec![a]).chain((0u32..6).flat_map(move |b| std::iter::once(vec![a, b]).chain((0u32..6).map(move |c| vec![a, b, c]))))).map(|bounds| NestedCase { bounds }),
    );
    // ChangeOf: all histories of length <= 5 over {1,2,3} with PartialEq and Delta(2), i64
    let mut hs: Vec<ChangeCase> = Vec::new();
    for len in 0..=ctx.tier.pick(5, 7) {
        let total = 3usize.pow(len as u32);
        for code in 0..total {
            let mut c = code;
            let mut v = Vec::new();
            for _ in 0..len {
                v.push([1i64, 2, 4][c % 3]);
                c /= 3;
            }
            for th in [None, Some(2), Some(3)] {
                hs.push(ChangeCase { threshold: th, values: v.clone(), objective: code % 2 == 1, missing: Vec::new(), scoped: Vec::new() });
                if len >= 3 && len <= 5 {
                    // the same history with one evaluation (not the first) made from inside a nested scope
                    for m in 1..len - 1 {
                        hs.push(ChangeCase { threshold: th, values: v.clone(), objective: code % 2 == 1, missing: Vec::new(), scoped: vec![m as u8] });
                    }
                }
                if len >= 2 && len <= 5 {
                    // the same history with one evaluation (every position but the first) failing for lack of the source
                    for m in 1..len {
                        hs.push(ChangeCase { threshold: th, values: v.clone(), objective: code % 2 == 1, missing: vec![m as u8], scoped: Vec::new() });
                    }
                }
            }
        }
    }
    for v in [vec![7i64, 7], vec![1, 7, 7, 2], vec![7, 1, 7], vec![7, 7, 7, 1, 1]] {
        for th in [None, Some(2), Some(3)] {
            hs.push(ChangeCase { threshold: th, values: v.clone(), objective: true, missing: Vec::new(), scoped: Vec::new() });
        }
    }
    ctx.exhaustive(&ch, "all value histories up to the length bound over {1,2,4} x {PartialEq, Delta(2), Delta(3)}, alternating i64 / SingleObjective; histories of length 2-5 also with one evaluation failing because the source state is missing", hs.into_iter());
    ctx.random(&ch, (proptest::option::of(0i64..6), proptest::collection::vec(-4i64..8, 0..13), any::<bool>(), prop_oneof![2 => Just(Vec::new()), 1 => proptest::collection::vec(any::<u8>(), 1..3)], prop_oneof![2 => Just(Vec::new()), 1 => proptest::collection::vec(any::<u8>(), 1..4)]).prop_map(|(threshold, values, objective, missing, scoped)| ChangeCase { missing, threshold, values, objective, scoped }), ctx.tier.pick(40_000, 400_000));
    let n = ctx.tier.pick(4000, 20_000);
    let seeds = ctx.tier.pick(20, 100);
    let base = ctx.derive_seed("chance");
    ctx.exhaustive(&rc, "p in {0, 0.1, 0.5, 0.9, 1, 0.01, 0.99} x seeds derived from VERIF_SEED", [0.0, 0.1, 0.5, 0.9, 1.0, 0.01, 0.99].into_iter().flat_map(move |p| (0..seeds).map(move |s| ChanceCase { p: Fb::of(p), seed: base.wrapping_add(s), n })));
    let scripts = vec![vec![true], vec![false], vec![true, false]];
    let fs = all_formulas(ctx.tier.pick(1, 2), &scripts);
    let nf = fs.len();
    ctx.exhaustive(
        &f,
        &format!("{nf} formulas (all And/Or/Not combinations to the depth bound over 3 scripted operands, binary and ternary) x no fault + every 3rd fault point"),
        fs.into_iter().flat_map(|mut f| {
            let mut n = 0;
            renumber(&mut f, &mut n);
            let mut ls = Vec::new();
            leaves(&f, &mut ls);
            let events = ls.len() * 4;
            let mut v = vec![FormulaCase { f: f.clone(), evaluations: 1, fault: None }];
            for k in (0..events).step_by(3) {
                v.push(FormulaCase { f: f.clone(), evaluations: 1, fault: Some(k as u16) });
            }
            v
        }),
    );
    ctx.random(
        &f,
        (formula_strategy(), 0u8..4, proptest::option::of(0u16..64)).prop_map(|(mut f, evaluations, fault)| {
            let mut n = 0;
            renumber(&mut f, &mut n);
            FormulaCase { f, evaluations, fault }
        }),
        ctx.tier.pick(20_000, 200_000),
    );
}
