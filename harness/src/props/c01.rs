//! C01 — the state registry behaves as a stack of type-keyed maps with innermost-scope resolution.

use std::{collections::BTreeMap, ops::{Deref, DerefMut}, path::Path};

use better_any::{Tid, TidAble};
use mahf::{state::registry::Entry, CustomState, State, StateError, StateRegistry};
use proptest::prelude::*;
use serde::{Deserialize, Serialize};

use crate::{
    engine::{catch, Check, Ctx, Failure, Outcome},
    ensure_that, fail,
    fixtures::problems::RealP,
};

macro_rules! state_type {
    ($n:ident) => {
        #[derive(Tid, Debug, PartialEq)]
        pub struct $n(pub i64);
        impl CustomState<'_> for $n {}
        impl Deref for $n {
            type Target = i64;
            fn deref(&self) -> &i64 {
                &self.0
            }
        }
        impl DerefMut for $n {
            fn deref_mut(&mut self) -> &mut i64 {
                &mut self.0
            }
        }
        impl Default for $n {
            fn default() -> Self {
                $n(-7)
            }
        }
        impl From<i64> for $n {
            fn from(v: i64) -> Self {
                $n(v)
            }
        }
    };
}
state_type!(T0);
state_type!(T1);
state_type!(T2);
state_type!(T3);

pub const NTYPES: usize = 4;

/// Dispatches a type index to a type.
#[macro_export]
macro_rules! with_type {
    ($t:expr, $T:ident => $body:expr) => {
        match $t {
            0 => {
                type $T = $crate::props::c01::T0;
                $body
            }
            1 => {
                type $T = $crate::props::c01::T1;
                $body
            }
            2 => {
                type $T = $crate::props::c01::T2;
                $body
            }
            _ => {
                type $T = $crate::props::c01::T3;
                $body
            }
        }
    };
}

#[derive(Clone, Debug, Serialize, Deserialize, PartialEq)]
pub enum EntryAct {
    OrInsert,
    OrInsertWith,
    OrDefault,
    AndModifyOrInsert,
    AndModifyValueOrInsert,
    /// match on the entry: Occupied -> get; Vacant -> nothing
    OccGet,
    /// Occupied -> get_mut write v; Vacant -> insert v
    OccGetMutOrVacInsert,
    /// Occupied -> insert(v) (returns old); Vacant -> nothing
    OccInsert,
    /// Occupied -> remove; Vacant -> nothing
    OccRemove,
    /// Occupied -> into_mut write v; Vacant -> nothing
    OccIntoMut,
}

#[derive(Clone, Debug, Serialize, Deserialize, PartialEq)]
pub enum Op {
    Insert(u8, i64),
    Remove(u8),
    /// `take` — panics when absent (checked)
    Take(u8),
    SetValue(u8, i64),
    BorrowValueMutWrite(u8, i64),
    BorrowMutWrite(u8, i64),
    GetMutWrite(u8, i64),
    Entry(u8, EntryAct, i64),
    Find(u8),
    FindMutInsertOther(u8, u8, i64),
    Push,
    Pop,
    /// `State::with_inner_state` with a sub-history; `fail` makes the closure return Err after the sub-history
    WithInner(Vec<Op>, bool),
}

type Model = Vec<BTreeMap<u8, i64>>;

fn resolve(model: &[BTreeMap<u8, i64>], t: u8) -> Option<(usize, i64)> {
    for (i, m) in model.iter().enumerate().rev() {
        if let Some(v) = m.get(&t) {
            return Some((i, *v));
        }
    }
    None
}

fn depth_of(r: &StateRegistry) -> usize {
    let mut d = 0;
    let mut cur = r;
    while let Some(p) = cur.parent() {
        d += 1;
        cur = p;
    }
    d
}

fn not_found(e: &StateError) -> bool {
    matches!(e, StateError::NotFound(_))
}

/// Full probe of the registry (every type at every scope level) against the model.
pub fn probe(reg: &StateRegistry, model: &[BTreeMap<u8, i64>], ctxmsg: &str) -> Result<(), Failure> {
    let depth = depth_of(reg);
    ensure_that!(depth + 1 == model.len(), "C01 scope depth", "{ctxmsg}: registry has {} scopes, model {}", depth + 1, model.len());
    let mut level: Option<&StateRegistry> = Some(reg);
    let mut k = model.len();
    while let Some(r) = level {
        let sub = &model[..k];
        for t in 0..NTYPES as u8 {
            let want = resolve(sub, t);
            with_type!(t, T => {
                let c = r.contains::<T>();
                ensure_that!(c == want.is_some(), "C01 contains", "{ctxmsg}: scope {k}: contains::<T{t}>() = {c}, model {want:?}");
                let ct = r.contains_at_top::<T>();
                ensure_that!(ct == sub[k - 1].contains_key(&t), "C01 contains_at_top", "{ctxmsg}: scope {k}: contains_at_top::<T{t}>() = {ct}, model top {:?}", sub[k - 1].get(&t));
                match (r.try_get_value::<T>(), want) {
                    (Ok(v), Some((_, w))) => ensure_that!(v == w, "C01 lookup value", "{ctxmsg}: scope {k}: try_get_value::<T{t}>() = {v}, model {w}"),
                    (Err(e), None) => ensure_that!(not_found(&e), "C01 absent error kind", "{ctxmsg}: absent T{t} reported as {e}"),
                    (Ok(v), None) => fail!("C01 absent type invented", "{ctxmsg}: scope {k}: try_get_value::<T{t}>() = {v} but the model has no T{t}"),
                    (Err(e), Some(w)) => fail!("C01 present type not found", "{ctxmsg}: scope {k}: try_get_value::<T{t}>() = Err({e}) but the model has {w:?}"),
                }
                match (r.try_borrow::<T>(), want) {
                    (Ok(g), Some((_, w))) => ensure_that!(g.0 == w, "C01 lookup value", "{ctxmsg}: scope {k}: try_borrow::<T{t}>() = {}, model {w}", g.0),
                    (Err(_), None) => {}
                    (Ok(g), None) => fail!("C01 absent type invented", "{ctxmsg}: try_borrow::<T{t}>() = {} but absent in the model", g.0),
                    (Err(e), Some(_)) => fail!("C01 present type not found", "{ctxmsg}: try_borrow::<T{t}>() = Err({e})"),
                }
                match (r.try_borrow_value::<T>(), want) {
                    (Ok(g), Some((_, w))) => ensure_that!(*g == w, "C01 lookup value", "{ctxmsg}: try_borrow_value::<T{t}>() = {}, model {w}", *g),
                    (Err(_), None) => {}
                    _ => fail!("C01 try_borrow_value presence", "{ctxmsg}: try_borrow_value::<T{t}>() presence differs from the model {want:?}"),
                }
                match (r.find::<T>(), want) {
                    (Ok(f), Some((i, _))) => {
                        ensure_that!(f.contains_at_top::<T>(), "C01 find", "{ctxmsg}: find::<T{t}>() returned a scope that does not hold it");
                        ensure_that!(depth_of(f) == i, "C01 find scope", "{ctxmsg}: find::<T{t}>() resolved to scope {} but the innermost holder is scope {i}", depth_of(f));
                    }
                    (Err(e), None) => ensure_that!(not_found(&e), "C01 absent error kind", "{ctxmsg}: find of absent T{t} reported {e}"),
                    (Ok(_), None) => fail!("C01 absent type invented", "{ctxmsg}: find::<T{t}>() is Ok but absent in the model"),
                    (Err(e), Some(_)) => fail!("C01 present type not found", "{ctxmsg}: find::<T{t}>() = Err({e})"),
                }
            });
        }
        level = r.parent();
        k -= 1;
    }
    ensure_that!(k == 0, "C01 scope depth", "{ctxmsg}: parent chain shorter than the model");
    Ok(())
}

/// Checks that a detached registry (returned by a pop) holds exactly `map` and has no parent.
fn probe_detached(reg: &StateRegistry, map: &BTreeMap<u8, i64>, ctxmsg: &str) -> Result<(), Failure> {
    ensure_that!(reg.parent().is_none(), "C01 popped scope has parent", "{ctxmsg}: popped scope still has a parent");
    probe(reg, std::slice::from_ref(map), &format!("{ctxmsg} (popped scope)")).map_err(|mut f| {
        f.sig = format!("C01 popped scope content ({})", f.sig);
        f
    })
}

pub struct Exec {
    pub state: State<'static, RealP>,
    pub model: Model,
    pub classes: u64,
}

pub const CL_SHADOW: u64 = 1;
pub const CL_REMOVE_SHADOWED: u64 = 1 << 1;
pub const CL_POP_CONTENT: u64 = 1 << 2;
pub const CL_ENTRY_PARENT: u64 = 1 << 3;
pub const CL_DEPTH3: u64 = 1 << 4;
pub const CL_WITH_INNER: u64 = 1 << 5;
pub const CL_WITH_INNER_FAIL: u64 = 1 << 6;
pub const CL_ABSENT_ACCESS: u64 = 1 << 7;

impl Exec {
    pub fn new() -> Self {
        Self { state: State::new(), model: vec![BTreeMap::new()], classes: 0 }
    }

    fn reg(&mut self) -> &mut StateRegistry<'static> {
        &mut self.state
    }

    pub fn apply(&mut self, op: &Op, at: &str) -> Result<(), Failure> {
        let top = self.model.len() - 1;
        match op {
            Op::Insert(t, v) => {
                if resolve(&self.model[..top], *t).is_some() {
                    self.classes |= CL_SHADOW;
                }
                let want = self.model[top].insert(*t, *v);
                let got = with_type!(*t, T => self.reg().insert(T::from(*v)).map(|x| x.0));
                ensure_that!(got == want, "C01 insert previous value", "{at} {op:?}: insert returned {got:?}, the innermost scope previously held {want:?}");
            }
            Op::Remove(t) => {
                let want = resolve(&self.model, *t);
                if let Some((i, _)) = want {
                    if i < top {
                        self.classes |= CL_ENTRY_PARENT;
                    }
                    if resolve(&self.model[..i], *t).is_some() {
                        self.classes |= CL_REMOVE_SHADOWED;
                    }
                    self.model[i].remove(t);
                } else {
                    self.classes |= CL_ABSENT_ACCESS;
                }
                let got = with_type!(*t, T => self.reg().remove::<T>().map(|x| x.0));
                match (got, want) {
                    (Ok(g), Some((_, w))) => ensure_that!(g == w, "C01 remove value", "{at} {op:?}: remove returned {g}, innermost holder had {w}"),
                    (Err(e), None) => ensure_that!(not_found(&e), "C01 absent error kind", "{at} {op:?}: {e}"),
                    (Ok(g), None) => fail!("C01 absent type invented", "{at} {op:?}: remove returned {g} for an absent type"),
                    (Err(e), Some(w)) => fail!("C01 present type not found", "{at} {op:?}: remove = Err({e}), model has {w:?}"),
                }
            }
            Op::Take(t) => {
                let want = resolve(&self.model, *t);
                if let Some((i, _)) = want {
                    self.model[i].remove(t);
                } else {
                    self.classes |= CL_ABSENT_ACCESS;
                }
                let got = catch(|| with_type!(*t, T => self.state.take::<T>().0));
                match (got, want) {
                    (Ok(g), Some((_, w))) => ensure_that!(g == w, "C01 take value", "{at} {op:?}: take returned {g}, model {w}"),
                    (Err(_), None) => {}
                    (Ok(g), None) => fail!("C01 absent type invented", "{at} {op:?}: take returned {g} for an absent type"),
                    (Err(p), Some(_)) => fail!("C01 take panics on present", "{at} {op:?}: take panicked: {p}"),
                }
            }
            Op::SetValue(t, v) => {
                let want = resolve(&self.model, *t);
                if let Some((i, _)) = want {
                    self.model[i].insert(*t, *v);
                } else {
                    self.classes |= CL_ABSENT_ACCESS;
                }
                let got = with_type!(*t, T => self.state.set_value::<T>(*v));
                ensure_that!(got == want.map(|w| w.1), "C01 set_value", "{at} {op:?}: set_value returned {got:?}, model held {want:?}");
            }
            Op::BorrowValueMutWrite(t, v) | Op::BorrowMutWrite(t, v) | Op::GetMutWrite(t, v) => {
                let want = resolve(&self.model, *t);
                if let Some((i, _)) = want {
                    if i < top {
                        self.classes |= CL_ENTRY_PARENT;
                    }
                    self.model[i].insert(*t, *v);
                } else {
                    self.classes |= CL_ABSENT_ACCESS;
                }
                let found: Option<i64> = with_type!(*t, T => match op {
                    Op::BorrowValueMutWrite(..) => self.state.try_borrow_value_mut::<T>().ok().map(|mut g| std::mem::replace(&mut *g, *v)),
                    Op::BorrowMutWrite(..) => self.state.try_borrow_mut::<T>().ok().map(|mut g| std::mem::replace(&mut g.0, *v)),
                    _ => self.reg().get_mut::<T>().map(|g| std::mem::replace(&mut g.0, *v)),
                });
                ensure_that!(found == want.map(|w| w.1), "C01 mutable access", "{at} {op:?}: saw {found:?} before the write, model held {want:?}");
            }
            Op::Entry(t, act, v) => {
                let want = resolve(&self.model, *t);
                if let Some((i, _)) = want {
                    if i < top {
                        self.classes |= CL_ENTRY_PARENT;
                    }
                }
                let act = if *act == EntryAct::OrDefault && *t != 0 { EntryAct::OrInsert } else { act.clone() };
                // model
                let (scope, expect_seen): (usize, Option<i64>) = match want {
                    Some((i, w)) => (i, Some(w)),
                    None => (top, None),
                };
                let mut seen: Option<i64> = None;
                let mut was_occupied = false;
                with_type!(*t, T => {
                    let e = self.reg().entry::<T>();
                    if let Entry::Occupied(o) = &e {
                        was_occupied = true;
                        seen = Some(o.get().0);
                    }
                    match act {
                        EntryAct::OrInsert => { let g = e.or_insert(T::from(*v)); seen = seen.or(None); let _ = g.0; }
                        EntryAct::OrInsertWith => { let g = e.or_insert_with(|| T::from(*v)); let _ = g.0; }
                        EntryAct::OrDefault => { let g = e.or_default(); let _ = g.0; }
                        EntryAct::AndModifyOrInsert => { let g = e.and_modify(|mut x| x.0 += 1).or_insert(T::from(*v)); let _ = g.0; }
                        EntryAct::AndModifyValueOrInsert => { let g = e.and_modify_value(|x| *x += 1).or_insert(T::from(*v)); let _ = g.0; }
                        EntryAct::OccGet => {}
                        EntryAct::OccGetMutOrVacInsert => match e {
                            Entry::Occupied(mut o) => { o.get_mut().0 = *v; }
                            Entry::Vacant(vac) => { let g = vac.insert(T::from(*v)); let _ = g.0; }
                        },
                        EntryAct::OccInsert => if let Entry::Occupied(mut o) = e { seen = Some(o.insert(T::from(*v)).0); },
                        EntryAct::OccRemove => if let Entry::Occupied(o) = e { seen = Some(o.remove().0); },
                        EntryAct::OccIntoMut => if let Entry::Occupied(o) = e { let mut g = o.into_mut(); g.0 = *v; },
                    }
                });
                ensure_that!(was_occupied == want.is_some(), "C01 entry variant", "{at} {op:?}: entry is {} but the model says {want:?}", if was_occupied { "Occupied" } else { "Vacant" });
                ensure_that!(seen == expect_seen, "C01 entry value", "{at} {op:?}: entry saw {seen:?}, model {expect_seen:?}");
                let m = &mut self.model[scope];
                match (&act, want) {
                    (EntryAct::OrInsert | EntryAct::OrInsertWith, None) => { m.insert(*t, *v); }
                    (EntryAct::OrDefault, None) => { m.insert(*t, -7); }
                    (EntryAct::AndModifyOrInsert | EntryAct::AndModifyValueOrInsert, None) => { m.insert(*t, *v); }
                    (EntryAct::AndModifyOrInsert | EntryAct::AndModifyValueOrInsert, Some((_, w))) => { m.insert(*t, w + 1); }
                    (EntryAct::OccGetMutOrVacInsert, _) => { m.insert(*t, *v); }
                    (EntryAct::OccInsert | EntryAct::OccIntoMut, Some(_)) => { m.insert(*t, *v); }
                    (EntryAct::OccRemove, Some(_)) => { m.remove(t); if resolve(&self.model[..scope], *t).is_some() { self.classes |= CL_REMOVE_SHADOWED; } }
                    _ => {}
                }
            }
            Op::Find(_) => { /* covered by the probe */ }
            Op::FindMutInsertOther(t, u, v) => {
                // find_mut::<T>() and insert U into the scope it resolved to
                let want = resolve(&self.model, *t);
                let got: Option<Option<i64>> = with_type!(*t, T => match self.reg().find_mut::<T>() {
                    Ok(r) => Some(with_type!(*u, U => r.insert(U::from(*v)).map(|x| x.0))),
                    Err(_) => None,
                });
                match (got, want) {
                    (Some(prev), Some((i, _))) => {
                        let w = self.model[i].insert(*u, *v);
                        ensure_that!(prev == w, "C01 find_mut scope", "{at} {op:?}: insert through find_mut returned {prev:?}, scope {i} held {w:?}");
                    }
                    (None, None) => self.classes |= CL_ABSENT_ACCESS,
                    (g, w) => fail!("C01 find_mut presence", "{at} {op:?}: find_mut gave {g:?}, model {w:?}"),
                }
            }
            Op::Push => {
                if self.model.len() >= 6 {
                    return Ok(());
                }
                let reg: StateRegistry = std::mem::take(&mut self.state).into();
                self.state = reg.into_child().into();
                self.model.push(BTreeMap::new());
                if self.model.len() >= 3 {
                    self.classes |= CL_DEPTH3;
                }
            }
            Op::Pop => {
                if self.model.len() == 1 {
                    // popping the root: parent is None, child holds everything
                    let reg: StateRegistry = std::mem::take(&mut self.state).into();
                    let (parent, child) = reg.into_parent();
                    ensure_that!(parent.is_none(), "C01 root has parent", "{at}: into_parent() on the root returned a parent");
                    probe_detached(&child, &self.model[0], at)?;
                    self.state = child.into();
                    return Ok(());
                }
                let reg: StateRegistry = std::mem::take(&mut self.state).into();
                let (parent, child) = reg.into_parent();
                let m = self.model.pop().unwrap();
                if !m.is_empty() {
                    self.classes |= CL_POP_CONTENT;
                }
                let Some(parent) = parent else { fail!("C01 pop lost parent", "{at}: into_parent() returned no parent at depth {}", self.model.len() + 1) };
                probe_detached(&child, &m, at)?;
                self.state = parent.into();
            }
            Op::WithInner(ops, fail_after) => {
                if self.model.len() >= 5 {
                    return Ok(());
                }
                self.classes |= CL_WITH_INNER;
                if *fail_after {
                    self.classes |= CL_WITH_INNER_FAIL;
                }
                // run the sub-history inside the closure on a temporary Exec sharing the model
                let mut model = std::mem::take(&mut self.model);
                model.push(BTreeMap::new());
                let base_depth = model.len();
                let mut inner_failure: Option<Failure> = None;
                let mut inner_classes = 0;
                let mut model_after: Model = Vec::new();
                let res = self.state.with_inner_state(|st| {
                    let taken = std::mem::take(st);
                    let mut ex = Exec { state: taken, model, classes: 0 };
                    let mut r = probe(&ex.state, &ex.model, &format!("{at} (with_inner_state entry)"));
                    if r.is_ok() {
                        for (j, o) in ops.iter().enumerate() {
                            // keep the scope depth balanced inside the closure: never pop below the inner scope
                            if matches!(o, Op::Pop) && ex.model.len() <= base_depth {
                                continue;
                            }
                            r = ex.apply(o, &format!("{at}.{j}")).and_then(|_| probe(&ex.state, &ex.model, &format!("{at}.{j} after {o:?}")));
                            if r.is_err() {
                                break;
                            }
                        }
                    }
                    // close scopes opened inside
                    while ex.model.len() > base_depth {
                        let _ = ex.apply(&Op::Pop, at);
                    }
                    inner_failure = r.err();
                    inner_classes = ex.classes;
                    model_after = ex.model;
                    *st = ex.state;
                    if *fail_after {
                        Err(eyre::eyre!("injected failure"))
                    } else {
                        Ok(())
                    }
                });
                self.classes |= inner_classes;
                if let Some(f) = inner_failure {
                    return Err(f);
                }
                let child_map = model_after.pop().unwrap();
                self.model = model_after;
                match (res, fail_after) {
                    (Ok(child), false) => {
                        let child_reg: StateRegistry = child.into();
                        probe_detached(&child_reg, &child_map, at)?;
                    }
                    (Err(_), true) => {}
                    (Ok(_), true) => fail!("C01 with_inner_state swallowed error", "{at}: closure failed but with_inner_state returned Ok"),
                    (Err(e), false) => fail!("C01 with_inner_state spurious error", "{at}: with_inner_state failed: {e}"),
                }
                // the caller's state must be what the model says, whether or not the closure failed
                probe(&self.state, &self.model, &format!("{at} after with_inner_state(fail={fail_after})")).map_err(|mut f| {
                    if *fail_after {
                        f.sig = "C01 with_inner_state loses caller state on Err".into();
                    }
                    f
                })?;
            }
        }
        Ok(())
    }
}

pub struct RegistryCheck;

impl Check for RegistryCheck {
    type Case = Vec<Op>;
    fn name(&self) -> String {
        "C01/registry-history".into()
    }
    fn classes(&self) -> &'static [&'static str] {
        &["shadowing insert", "remove under shadow", "pop with content", "access resolves to parent scope", "depth>=3", "with_inner_state", "with_inner_state failing", "access to absent type"]
    }
    fn oracle(&self, ops: &Vec<Op>) -> Outcome {
        let mut ex = Exec::new();
        let mut r = probe(&ex.state, &ex.model, "initial");
        if r.is_ok() {
            for (i, op) in ops.iter().enumerate() {
                let at = format!("step {}", i + 1);
                r = ex.apply(op, &at).and_then(|_| probe(&ex.state, &ex.model, &format!("{at} after {op:?}")));
                if r.is_err() {
                    break;
                }
            }
        }
        let nt = ex.classes & (CL_SHADOW | CL_REMOVE_SHADOWED | CL_POP_CONTENT) == (CL_SHADOW | CL_REMOVE_SHADOWED | CL_POP_CONTENT)
            || ex.classes & (CL_SHADOW | CL_ENTRY_PARENT | CL_POP_CONTENT) == (CL_SHADOW | CL_ENTRY_PARENT | CL_POP_CONTENT);
        Outcome::new(nt, ex.classes, r)
    }
}

fn exhaustive_alphabet(small: bool) -> Vec<Op> {
    let mut a = Vec::new();
    for t in 0..2u8 {
        for v in [1i64, 2] {
            a.push(Op::Insert(t, v));
        }
        a.push(Op::Remove(t));
        a.push(Op::SetValue(t, 5));
        a.push(Op::Entry(t, EntryAct::AndModifyOrInsert, 3));
        a.push(Op::Entry(t, EntryAct::OccRemove, 0));
        if !small {
            a.push(Op::GetMutWrite(t, 6));
            a.push(Op::Entry(t, EntryAct::OccInsert, 4));
            a.push(Op::Entry(t, EntryAct::OrInsert, 8));
            a.push(Op::Take(t));
            a.push(Op::FindMutInsertOther(t, 1 - t, 9));
        }
    }
    a.push(Op::Push);
    a.push(Op::Pop);
    if !small {
        a.push(Op::WithInner(vec![Op::Insert(0, 11), Op::SetValue(1, 12)], false));
        a.push(Op::WithInner(vec![Op::Insert(0, 11), Op::SetValue(1, 12)], true));
    }
    a
}

pub struct Shortlex<T: Clone> {
    alphabet: Vec<T>,
    idx: Vec<usize>,
    l: usize,
    state: u8,
}
impl<T: Clone> Shortlex<T> {
    pub fn new(alphabet: Vec<T>, l: usize) -> Self {
        Self { alphabet, idx: Vec::new(), l, state: 0 }
    }
}
impl<T: Clone> Iterator for Shortlex<T> {
    type Item = Vec<T>;
    fn next(&mut self) -> Option<Vec<T>> {
        if self.state == 2 {
            return None;
        }
        if self.state == 0 {
            self.state = 1;
            return Some(Vec::new());
        }
        let a = self.alphabet.len();
        let mut i = self.idx.len();
        loop {
            if i == 0 {
                let n = self.idx.len() + 1;
                if n > self.l || a == 0 {
                    self.state = 2;
                    return None;
                }
                self.idx = vec![0; n];
                break;
            }
            i -= 1;
            if self.idx[i] + 1 < a {
                self.idx[i] += 1;
                for j in i + 1..self.idx.len() {
                    self.idx[j] = 0;
                }
                break;
            }
        }
        Some(self.idx.iter().map(|&k| self.alphabet[k].clone()).collect())
    }
}

fn act_strategy() -> impl Strategy<Value = EntryAct> {
    prop_oneof![
        Just(EntryAct::OrInsert),
        Just(EntryAct::OrInsertWith),
        Just(EntryAct::OrDefault),
        Just(EntryAct::AndModifyOrInsert),
        Just(EntryAct::AndModifyValueOrInsert),
        Just(EntryAct::OccGet),
        Just(EntryAct::OccGetMutOrVacInsert),
        Just(EntryAct::OccInsert),
        Just(EntryAct::OccRemove),
        Just(EntryAct::OccIntoMut),
    ]
}

pub fn flat_op_strategy() -> impl Strategy<Value = Op> {
    let t = 0u8..NTYPES as u8;
    let v = 0i64..50;
    prop_oneof![
        6 => (t.clone(), v.clone()).prop_map(|(t, v)| Op::Insert(t, v)),
        3 => t.clone().prop_map(Op::Remove),
        1 => t.clone().prop_map(Op::Take),
        2 => (t.clone(), v.clone()).prop_map(|(t, v)| Op::SetValue(t, v)),
        1 => (t.clone(), v.clone()).prop_map(|(t, v)| Op::BorrowValueMutWrite(t, v)),
        1 => (t.clone(), v.clone()).prop_map(|(t, v)| Op::BorrowMutWrite(t, v)),
        1 => (t.clone(), v.clone()).prop_map(|(t, v)| Op::GetMutWrite(t, v)),
        5 => (t.clone(), act_strategy(), v.clone()).prop_map(|(t, a, v)| Op::Entry(t, a, v)),
        1 => (t.clone(), t.clone(), v.clone()).prop_map(|(t, u, v)| Op::FindMutInsertOther(t, u, v)),
        4 => Just(Op::Push),
        3 => Just(Op::Pop),
    ]
}

pub fn op_strategy() -> impl Strategy<Value = Op> {
    flat_op_strategy().prop_recursive(2, 24, 8, |inner| {
        prop_oneof![
            8 => flat_op_strategy(),
            1 => (proptest::collection::vec(inner, 0..8), any::<bool>()).prop_map(|(ops, f)| Op::WithInner(ops, f)),
        ]
    })
}

pub fn run_all(ctx: &mut Ctx, replay: Option<&Path>) {
    ctx.rule("case = history of registry operations (insert/remove/take/set_value/mutable access/entry API/find/scope push/scope pop/with_inner_state with a nested sub-history, optionally failing) executed against StateRegistry (through State) and a Vec<BTreeMap<type,value>> model in lock-step; after every step every type is probed at every scope level (contains, contains_at_top, try_get_value, try_borrow, try_borrow_value, find); non-trivial = history has a shadowing insert in a child scope AND (a remove/entry-remove of a shadowed type OR an access resolving to a parent scope) AND a pop of a non-empty scope; distinct by history");
    ctx.assume("the type universe is four harness state types with i64 payload; values are small integers");
    let k = RegistryCheck;
    if let Some(p) = replay {
        ctx.replay_file(&k, p);
        return;
    }
    ctx.regressions(&k);
    match ctx.tier {
        crate::engine::Tier::Quick => {
            ctx.exhaustive(&k, "all histories of length <= 4 over a 26-operation alphabet: 2 types x 2 values, insert/remove/set_value/get_mut/take/entry(and_modify.or_insert, or_insert, occupied insert, occupied remove)/find_mut, push, pop, with_inner_state ok and failing", Shortlex::new(exhaustive_alphabet(false), 4));
        }
        crate::engine::Tier::Thorough => {
            ctx.exhaustive(&k, "all histories of length <= 4 over the 26-operation alphabet", Shortlex::new(exhaustive_alphabet(false), 4));
            ctx.exhaustive(&k, "all histories of length <= 6 over the reduced 14-operation alphabet (2 types, insert x2 values, remove, set_value, entry and_modify.or_insert, entry occupied-remove, push, pop)", Shortlex::new(exhaustive_alphabet(true), 6));
        }
    }
    let n = ctx.tier.pick(3000, 60_000);
    ctx.random(&k, proptest::collection::vec(op_strategy(), 0..120), n);
}
