//! C13 — variation operators keep solutions well-formed and conserve parental genes.

use std::path::Path;

use mahf::{
    components::{
        mutation::{
            common::InsertionMutation, de::DEMutation, functional as mf, BitFlipMutation, MutationRate, InversionMutation, NormalMutation, PartialRandomBitstring, PartialRandomSpread, ScrambleMutation, SwapMutation, TranslocationMutation,
            UniformMutation,
        },
        recombination::{
            de::{DEBinomialCrossover, DEExponentialCrossover},
            functional as rf, ArithmeticCrossover, CycleCrossover, NPointCrossover, UniformCrossover,
        },
    },
    Component, Individual, State,
};
use proptest::prelude::*;
use serde::{Deserialize, Serialize};

use crate::{
    engine::{catch, soft_fail, Check, Ctx, Failure, Outcome},
    ensure_that, fail,
    fixtures::{
        is_permutation,
        problems::{BitsP, RealKind, RealP, TspP},
        stack_solutions, state_with,
    },
    props::c09::Fb,
};

// ------------------------------------------------------------------------------------------------
// (1) functional helpers — exhaustive
// ------------------------------------------------------------------------------------------------

#[derive(Clone, Debug, Serialize, Deserialize)]
pub enum HelperCase {
    CircularSwap { n: usize, indices: Vec<usize> },
    Translocate { n: usize, start: usize, end: usize, index: usize },
    MultiPoint { p1: Vec<u8>, p2: Vec<u8>, indices: Vec<usize> },
    Uniform { p1: Vec<u8>, p2: Vec<u8>, mask: Vec<bool> },
    Arithmetic { p1: Vec<Fb>, p2: Vec<Fb>, alphas: Vec<Fb> },
    Cycle { p1: Vec<usize>, p2: Vec<usize> },
}

pub struct HelperCheck;

impl Check for HelperCheck {
    type Case = HelperCase;
    fn name(&self) -> String {
        "C13/helpers".into()
    }
    fn classes(&self) -> &'static [&'static str] {
        &["circular swap with >=3 indices", "non-empty slice moved to a different index", "slice ends at len", "multi-point with >=2 cuts", "cycle crossover with >=2 cycles", "unordered indices", "arithmetic crossover of parents of different length"]
    }
    fn oracle(&self, c: &HelperCase) -> Outcome {
        let mut cl = 0;
        let r = helper_oracle(c, &mut cl);
        Outcome::new(cl & 0b11011 != 0, cl, r)
    }
}

fn helper_oracle(c: &HelperCase, cl: &mut u64) -> Result<(), Failure> {
    match c {
        HelperCase::CircularSwap { n, indices } => {
            if indices.len() >= 3 {
                *cl |= 1;
            }
            if indices.windows(2).any(|w| w[0] > w[1]) {
                *cl |= 32;
            }
            let orig: Vec<usize> = (0..*n).map(|x| x + 10).collect();
            let mut want = orig.clone();
            let k = indices.len();
            for j in 0..k {
                want[indices[j]] = orig[indices[(j + k - 1) % k]];
            }
            let mut a = orig.clone();
            let mut b = orig.clone();
            let ra = catch(|| mf::circular_swap(&mut a, indices));
            let rb = catch(|| mf::circular_swap2(&mut b, indices));
            ensure_that!(ra.is_ok() && rb.is_ok(), "C13 circular_swap panics", "circular_swap on n={n}, indices {indices:?}: {ra:?} / {rb:?}");
            ensure_that!(a == b, "C13 circular_swap twins disagree", "indices {indices:?} on {orig:?}: circular_swap = {a:?}, circular_swap2 = {b:?}");
            ensure_that!(a == want, "C13 circular_swap is not a circular shift of the indexed elements", "indices {indices:?} on {orig:?}: got {a:?}, expected {want:?}");
        }
        HelperCase::Translocate { n, start, end, index } => {
            let orig: Vec<usize> = (0..*n).map(|x| x + 10).collect();
            if end > start && index != start {
                *cl |= 2;
            }
            if end == n {
                *cl |= 4;
            }
            let mut want: Vec<usize> = orig[..*start].iter().chain(orig[*end..].iter()).cloned().collect();
            let slice: Vec<usize> = orig[*start..*end].to_vec();
            for (k, x) in slice.iter().enumerate() {
                want.insert(index + k, *x);
            }
            let mut a = orig.clone();
            let mut b = orig.clone();
            let ra = catch(|| mf::translocate_slice(&mut a, *start..*end, *index));
            let rb = catch(|| mf::translocate_slice2(&mut b, *start..*end, *index));
            if ra.is_err() || rb.is_err() {
                let sig = if end == n { "C13 translocate_slice rejects a slice that ends at the end of the permutation" } else { "C13 translocate_slice panics" };
                return soft_fail(Failure::new(sig, format!("translocate_slice(n={n}, {start}..{end}, index {index}): {ra:?} / {rb:?}")));
            }
            ensure_that!(a == b, "C13 translocate_slice twins disagree", "{start}..{end} -> {index} on {orig:?}: {a:?} vs {b:?}");
            ensure_that!(a == want, "C13 translocate_slice result", "{start}..{end} -> {index} on {orig:?}: got {a:?}, expected {want:?}");
        }
        HelperCase::MultiPoint { p1, p2, indices } => {
            if indices.len() >= 2 {
                *cl |= 8;
            }
            if indices.windows(2).any(|w| w[0] > w[1]) {
                *cl |= 32;
            }
            let r = catch(|| rf::multi_point_crossover(p1, p2, indices));
            let [c1, c2] = match r {
                Ok(x) => x,
                Err(p) => fail!("C13 multi_point_crossover panics", "{p1:?} x {p2:?} at {indices:?}: {p}"),
            };
            let mut w1 = p1.clone();
            let mut w2 = p2.clone();
            for pos in 0..p1.len() {
                if indices.iter().filter(|i| **i <= pos).count() % 2 == 1 {
                    w1[pos] = p2[pos];
                    w2[pos] = p1[pos];
                }
            }
            ensure_that!(c1 == w1 && c2 == w2, "C13 multi_point_crossover result", "{p1:?} x {p2:?} at {indices:?}: got {c1:?} / {c2:?}, expected {w1:?} / {w2:?}");
        }
        HelperCase::Uniform { p1, p2, mask } => {
            let r = catch(|| rf::uniform_crossover(p1, p2, mask));
            let [c1, c2] = match r {
                Ok(x) => x,
                Err(p) => fail!("C13 uniform_crossover panics", "{p1:?} x {p2:?} mask {mask:?}: {p}"),
            };
            let w1: Vec<u8> = (0..p1.len()).map(|i| if mask[i] { p2[i] } else { p1[i] }).collect();
            let w2: Vec<u8> = (0..p1.len()).map(|i| if mask[i] { p1[i] } else { p2[i] }).collect();
            ensure_that!(c1 == w1 && c2 == w2, "C13 uniform_crossover result", "{p1:?} x {p2:?} mask {mask:?}: got {c1:?} / {c2:?}");
        }
        HelperCase::Arithmetic { p1, p2, alphas } => {
            let (a, b, al): (Vec<f64>, Vec<f64>, Vec<f64>) = (p1.iter().map(|x| x.f()).collect(), p2.iter().map(|x| x.f()).collect(), alphas.iter().map(|x| x.f()).collect());
            let r = catch(|| rf::arithmetic_crossover(&a, &b, &al));
            let [c1, c2] = match r {
                Ok(x) => x,
                Err(p) => fail!("C13 arithmetic_crossover panics", "{a:?} x {b:?}: {p}"),
            };
            // every child has the length of its own parent (the function only asks for enough alphas, not for parents of
            // one length): the common prefix is interpolated, a longer parent's tail is its child's tail
            ensure_that!(c1.len() == a.len() && c2.len() == b.len(), "C13 arithmetic_crossover length", "{a:?} x {b:?}: children lengths {} / {}, parents' lengths {} / {}", c1.len(), c2.len(), a.len(), b.len());
            if a.len() != b.len() {
                *cl |= 64;
            }
            let common = a.len().min(b.len());
            ensure_that!(c1[common..].iter().zip(&a[common..]).all(|(x, y)| x.to_bits() == y.to_bits()) && c2[common..].iter().zip(&b[common..]).all(|(x, y)| x.to_bits() == y.to_bits()), "C13 arithmetic_crossover changes genes beyond the shorter parent", "{a:?} x {b:?}: children {c1:?} / {c2:?}");
            for i in 0..common {
                let (lo, hi) = (a[i].min(b[i]), a[i].max(b[i]));
                let tol = 4.0 * f64::EPSILON * (lo.abs().max(hi.abs()).max(1e-300));
                for c in [c1[i], c2[i]] {
                    // `hi + tol` overflows for genes near f64::MAX: a convex combination of finite genes is finite
                    ensure_that!(c >= lo - tol && c <= hi + tol && (c.is_finite() || !(lo.is_finite() && hi.is_finite())), "C13 arithmetic_crossover not a convex combination", "position {i}: child gene {c:?} outside [{lo:?}, {hi:?}] (alpha {:?})", al[i]);
                }
                let s = c1[i] + c2[i];
                let want = a[i] + b[i];
                // the sum of two same-sign genes near f64::MAX is not representable: nothing to compare then
                ensure_that!(!want.is_finite() || (s - want).abs() <= 8.0 * f64::EPSILON * (a[i].abs() + b[i].abs()).max(1e-300), "C13 arithmetic_crossover does not conserve the gene sum", "position {i}: children sum {s:?}, parents sum {want:?} (alpha {:?})", al[i]);
                let w1 = al[i] * a[i] + (1.0 - al[i]) * b[i];
                ensure_that!(c1[i].to_bits() == w1.to_bits(), "C13 arithmetic_crossover weights", "position {i}: child1 {:?}, alpha*p1 + (1-alpha)*p2 = {w1:?}", c1[i]);
            }
        }
        HelperCase::Cycle { p1, p2 } => {
            let r = catch(|| rf::cycle_crossover(p1, p2));
            let [c1, c2] = match r {
                Ok(x) => x,
                Err(p) => fail!("C13 cycle_crossover panics", "{p1:?} x {p2:?}: {p}"),
            };
            let n = p1.len();
            ensure_that!(c1.len() == n && c2.len() == n, "C13 cycle_crossover length", "children lengths {} / {}", c1.len(), c2.len());
            let perm_of = |c: &Vec<usize>| {
                let mut a = c.clone();
                let mut b = p1.clone();
                a.sort();
                b.sort();
                a == b
            };
            ensure_that!(perm_of(&c1) && perm_of(&c2), "C13 cycle_crossover child is not a permutation", "{p1:?} x {p2:?}: children {c1:?} / {c2:?}");
            // which whole cycles go to which child is not part of the property (any assignment of whole cycles
            // yields valid children); assert conservation per position and count the cycles for the class histogram
            let mut cyc = vec![0usize; n];
            let mut num = 0;
            for s in 0..n {
                if cyc[s] == 0 {
                    num += 1;
                    let mut pos = s;
                    while cyc[pos] == 0 {
                        cyc[pos] = num;
                        pos = p1.iter().position(|x| *x == p2[pos]).unwrap();
                    }
                }
            }
            if num >= 2 {
                *cl |= 16;
            }
            for i in 0..n {
                let ok = (c1[i] == p1[i] && c2[i] == p2[i]) || (c1[i] == p2[i] && c2[i] == p1[i]);
                ensure_that!(ok, "C13 cycle_crossover does not conserve both genes of a position", "{p1:?} x {p2:?}: position {i} got {} / {}", c1[i], c2[i]);
            }
        }
    }
    Ok(())
}

fn permutations(n: usize) -> Vec<Vec<usize>> {
    fn rec(cur: &mut Vec<usize>, used: &mut Vec<bool>, n: usize, out: &mut Vec<Vec<usize>>) {
        if cur.len() == n {
            out.push(cur.clone());
            return;
        }
        for i in 0..n {
            if !used[i] {
                used[i] = true;
                cur.push(i);
                rec(cur, used, n, out);
                cur.pop();
                used[i] = false;
            }
        }
    }
    let mut out = Vec::new();
    rec(&mut Vec::new(), &mut vec![false; n], n, &mut out);
    out
}

/// all ordered tuples of k distinct indices out of n, for k in lo..=hi
fn index_tuples(n: usize, lo: usize, hi: usize) -> Vec<Vec<usize>> {
    fn rec(cur: &mut Vec<usize>, used: &mut Vec<bool>, n: usize, k: usize, out: &mut Vec<Vec<usize>>) {
        if cur.len() == k {
            out.push(cur.clone());
            return;
        }
        for i in 0..n {
            if !used[i] {
                used[i] = true;
                cur.push(i);
                rec(cur, used, n, k, out);
                cur.pop();
                used[i] = false;
            }
        }
    }
    let mut out = Vec::new();
    for k in lo..=hi.min(n) {
        rec(&mut Vec::new(), &mut vec![false; n], n, k, &mut out);
    }
    out
}

fn helper_cases(thorough: bool) -> Vec<HelperCase> {
    let mut out = Vec::new();
    let nmax = if thorough { 7 } else { 6 };
    for n in 2..=nmax {
        for t in index_tuples(n, 2, n) {
            out.push(HelperCase::CircularSwap { n, indices: t });
        }
    }
    for n in 1..=if thorough { 9 } else { 8 } {
        for start in 0..n {
            for end in start..=n {
                for index in 0..n {
                    if index + (end - start) <= n {
                        out.push(HelperCase::Translocate { n, start, end, index });
                    }
                }
            }
        }
    }
    // crossovers over alphabet {0,1,2}
    let lmax = if thorough { 5 } else { 4 };
    for len in 2..=lmax {
        let total = 3usize.pow(len as u32);
        let decode = |mut c: usize| -> Vec<u8> {
            (0..len)
                .map(|_| {
                    let d = (c % 3) as u8;
                    c /= 3;
                    d
                })
                .collect()
        };
        // parent pairs: all p1, p2 restricted to a stride to keep the product bounded
        let stride = if len >= 5 { 7 } else { 1 };
        let sets = index_tuples(len, 1, len - 1);
        for a in 0..total {
            for b in (0..total).step_by(stride) {
                let (p1, p2) = (decode(a), decode(b));
                // every cut set only against "tagged" parents would suffice; keep all for small lengths
                if len <= 3 || (a + b) % 5 == 0 {
                    for s in &sets {
                        out.push(HelperCase::MultiPoint { p1: p1.clone(), p2: p2.clone(), indices: s.clone() });
                    }
                }
                if len <= 4 {
                    for m in 0..(1usize << len) {
                        if len <= 3 || (a + b + m) % 3 == 0 {
                            out.push(HelperCase::Uniform { p1: p1.clone(), p2: p2.clone(), mask: (0..len).map(|i| m & (1 << i) != 0).collect() });
                        }
                    }
                }
            }
        }
    }
    // fully distinguishable parents: every cut set and every mask, length up to 6 (7)
    for len in 2..=nmax {
        let p1: Vec<u8> = (0..len as u8).collect();
        let p2: Vec<u8> = (0..len as u8).map(|x| x + 100).collect();
        for s in index_tuples(len, 1, (len - 1).min(4)) {
            out.push(HelperCase::MultiPoint { p1: p1.clone(), p2: p2.clone(), indices: s });
        }
        for m in 0..(1usize << len) {
            out.push(HelperCase::Uniform { p1: p1.clone(), p2: p2.clone(), mask: (0..len).map(|i| m & (1 << i) != 0).collect() });
        }
    }
    let alphas = [0.0, 1.0, 0.5, 0.25, 0.1, 1.0 / 3.0, 0.999_999, 1e-12];
    let vals = [0.0, 1.0, -1.0, 3.5, -7.25, 1e6, -1e-6, 123.456];
    // genes whose sum is beyond f64::MAX (each child still is a convex combination, hence finite); f64::MAX itself is left
    // out for equal genes, where alpha*x + (1-alpha)*x may round one ulp up
    let huge = [1.0e308, 1.5e308, 1.7e308, -1.0e308, -1.6e308, 8.9e307, 9.1e307];
    for a in huge {
        for b in huge {
            for al in alphas {
                out.push(HelperCase::Arithmetic { p1: vec![Fb::of(a), Fb::of(b), Fb::of(1.0)], p2: vec![Fb::of(b), Fb::of(a), Fb::of(a)], alphas: vec![Fb::of(al), Fb::of(1.0 - al), Fb::of(al)] });
            }
        }
    }
    for a in vals {
        for b in vals {
            for al in alphas {
                out.push(HelperCase::Arithmetic { p1: vec![Fb::of(a), Fb::of(b)], p2: vec![Fb::of(b), Fb::of(-a)], alphas: vec![Fb::of(al), Fb::of(1.0 - al)] });
                if al == 0.25 {
                    out.push(HelperCase::Arithmetic { p1: vec![Fb::of(a), Fb::of(b), Fb::of(2.0)], p2: vec![Fb::of(b)], alphas: vec![Fb::of(al), Fb::of(1.0 - al), Fb::of(al)] });
                    out.push(HelperCase::Arithmetic { p1: vec![Fb::of(a)], p2: vec![Fb::of(b), Fb::of(-a)], alphas: vec![Fb::of(al), Fb::of(1.0 - al)] });
                }
            }
        }
    }
    for n in 1..=lmax.max(5) {
        let ps = permutations(n);
        for a in &ps {
            for b in &ps {
                out.push(HelperCase::Cycle { p1: a.clone(), p2: b.clone() });
            }
        }
    }
    out
}

fn helper_strategy() -> impl Strategy<Value = HelperCase> {
    prop_oneof![
        (2usize..12).prop_flat_map(|n| (Just(n), proptest::sample::subsequence((0..n).collect::<Vec<_>>(), 2..=n).prop_shuffle())).prop_map(|(n, indices)| HelperCase::CircularSwap { n, indices }),
        (1usize..14, any::<u16>(), any::<u16>(), any::<u16>()).prop_map(|(n, a, b, c)| {
            let start = a as usize % n;
            let end = start + (b as usize % (n - start + 1));
            let index = c as usize % (n - (end - start)).max(1);
            HelperCase::Translocate { n, start, end, index: index.min(n - 1) }
        }),
        (2usize..10).prop_flat_map(|n| (proptest::collection::vec(0u8..3, n), proptest::collection::vec(0u8..3, n), proptest::sample::subsequence((0..n).collect::<Vec<_>>(), 1..n).prop_shuffle())).prop_map(|(p1, p2, indices)| HelperCase::MultiPoint { p1, p2, indices }),
        (1usize..10).prop_flat_map(|n| (proptest::collection::vec(0u8..3, n), proptest::collection::vec(0u8..3, n), proptest::collection::vec(any::<bool>(), n))).prop_map(|(p1, p2, mask)| HelperCase::Uniform { p1, p2, mask }),
        (1usize..8, 0usize..3).prop_flat_map(|(n, shorter)| (proptest::collection::vec(-1e6f64..1e6, n), proptest::collection::vec(-1e6f64..1e6, n.saturating_sub(shorter).max(1)), proptest::collection::vec(0f64..=1.0, n), any::<bool>())).prop_map(|(a, b, c, swap)| if swap { (b, a, c) } else { (a, b, c) }).prop_map(|(a, b, c)| HelperCase::Arithmetic { p1: a.into_iter().map(Fb::of).collect(), p2: b.into_iter().map(Fb::of).collect(), alphas: c.into_iter().map(Fb::of).collect() }),
        (1usize..10).prop_flat_map(|n| (Just((0..n).collect::<Vec<_>>()).prop_shuffle(), Just((0..n).collect::<Vec<_>>()).prop_shuffle())).prop_map(|(p1, p2)| HelperCase::Cycle { p1, p2 }),
    ]
}

// ------------------------------------------------------------------------------------------------
// (2) components — proptest
// ------------------------------------------------------------------------------------------------

#[derive(Clone, Debug, Serialize, Deserialize, PartialEq)]
pub enum RealOp {
    Normal { dev: Fb, rm: Fb },
    UniformM { bound: Fb, rm: Fb },
    Spread { rm: Fb },
    NPoint { n: usize, pc: Fb, both: bool },
    UniformX { pc: Fb, both: bool },
    ArithmeticX { pc: Fb, both: bool },
    DeMutation { y: u32, f: Fb },
    DeBinomial {
        pc: Fb,
        /// the mutated population has that many individuals more (> 0) or fewer (< 0) than the base population
        #[serde(default)]
        skew: i8,
    },
    DeExponential {
        pc: Fb,
        #[serde(default)]
        skew: i8,
    },
}

#[derive(Clone, Debug, Serialize, Deserialize, PartialEq)]
pub enum BitOp {
    BitFlip { rm: Fb },
    RandomBits { p: Fb, rm: Fb },
    NPoint { n: usize, pc: Fb, both: bool },
    UniformX { pc: Fb, both: bool },
}

#[derive(Clone, Debug, Serialize, Deserialize, PartialEq)]
pub enum PermOp {
    Scramble { rm: Fb },
    Swap { num: u32 },
    Inversion,
    Insertion,
    Translocation,
    CycleX { pc: Fb, both: bool },
}

#[derive(Clone, Debug, Serialize, Deserialize)]
pub enum CompCase {
    Real { op: RealOp, pop: Vec<Vec<Fb>>, seed: u64 },
    Bits { op: BitOp, pop: Vec<Vec<bool>>, seed: u64 },
    Perm { op: PermOp, n: usize, size: usize, seed: u64 },
    /// A mutation instantiated with the non-default identifier `A` (`new_with_id`), its own rate 0 or 1, optionally
    /// next to an initialised default-identified instance of the same operator whose rate is `sibling`.
    /// which: 0 Normal, 1 Uniform, 2 PartialRandomSpread, 3 BitFlip, 4 PartialRandomBitstring, 5 Scramble
    Identified {
        which: u8,
        own_full: bool,
        sibling: Option<Fb>,
        n: usize,
        dim: usize,
        seed: u64,
        /// the instance initialised first has the SAME identifier (two instances of one operator in one configuration,
        /// e.g. in the two bodies of a branch): the instance initialised last - the one executed here - works with its
        /// own parameters
        #[serde(default)]
        same_id: bool,
        /// the instance is constructed with the OPPOSITE rate and initialised; then its `MutationRate` state - the
        /// documented handle for adapting the rate during a run - is set to the own rate before the execution
        #[serde(default)]
        adapted: bool,
    },
}

pub struct CompCheck;

impl Check for CompCheck {
    type Case = CompCase;
    fn name(&self) -> String {
        "C13/components".into()
    }
    fn classes(&self) -> &'static [&'static str] {
        &["population>=2 and dim>=3", "rate 0", "rate 1", "crossover", "odd population", "permutation operator", "DE operator", "empty population", "non-default identifier", "non-default identifier next to a default-identified instance with another rate", "DE crossover on populations of different sizes", "a second instance with the same identifier and other parameters was initialised before", "rate state adapted after initialisation (constructed with the opposite rate)", "the generator first replays a script of edge-value words (derived from the seed)"]
    }
    fn oracle(&self, c: &CompCase) -> Outcome {
        let mut cl = 0;
        let r = comp_oracle(c, &mut cl);
        Outcome::new(cl & 1 != 0, cl, r)
    }
}

fn offspring_count(n: usize, pc: f64, both: bool, got: usize, name: &str, at: &str) -> Result<(), Failure> {
    let pairs = n / 2;
    if both || pc == 0.0 {
        ensure_that!(got == n, format!("C13 {name} offspring count"), "{at}: {got} offspring from {n} parents (insert_both={both}, pc={pc}), expected {n}");
    } else if pc == 1.0 {
        ensure_that!(got == pairs + n % 2, format!("C13 {name} offspring count"), "{at}: {got} offspring from {n} parents (insert single, pc=1), expected one per pair plus the remainder = {}", pairs + n % 2);
    } else {
        ensure_that!(got >= pairs + n % 2 && got <= n && (n - got) <= pairs, format!("C13 {name} offspring count"), "{at}: {got} offspring from {n} parents");
    }
    Ok(())
}

fn run_comp<P: mahf::Problem + 'static>(comp: &(dyn Component<P> + 'static), problem: &P, state: &mut State<P>, name: &str, at: &str) -> Result<(), Failure> {
    // one case in six runs the operator inside 1-3 nested scopes (the population stack and the generator live outside)
    let comp = crate::fixtures::maybe_nested(dyn_clone::clone_box(comp), crate::engine::hash_of(&at));
    let comp = comp.as_ref();
    match catch(|| {
        comp.init(problem, state)?;
        comp.execute(problem, state)
    }) {
        Ok(Ok(())) => Ok(()),
        Ok(Err(e)) => soft_fail(Failure::new(format!("C13 {name} errs on a valid population"), format!("{at}: {e:#}"))).and(Err(Failure::new("skip", ""))),
        Err(p) => soft_fail(Failure::new(format!("C13 {name} panics"), format!("{at}: {p}"))).and(Err(Failure::new("skip", ""))),
    }
}

/// Children of a pairwise crossover must hold, at every position, the two parental genes between them.
fn conserve<T: PartialEq + std::fmt::Debug + Clone>(parents: &[Vec<T>], children: &[Vec<T>], both: bool, name: &str, at: &str) -> Result<(), Failure> {
    // walk the parents pairwise; children are emitted in order (both: 2 per pair or the 2 parents; single: 1 per crossed pair or the 2 parents)
    if !both {
        // with equal parents the two readings of a pair's output (one child / both parents passed through) can look
        // alike, so the children are accepted if SOME assignment to the pairs explains all of them
        fn parse<T: PartialEq>(pairs: &[&[Vec<T>]], children: &[Vec<T>]) -> bool {
            let Some((pair, rest)) = pairs.split_first() else { return children.is_empty() };
            if pair.len() == 1 {
                return children.first() == Some(&pair[0]) && parse(rest, &children[1..]);
            }
            let (p1, p2) = (&pair[0], &pair[1]);
            let gene_ok = |c: &Vec<T>| c.len() == p1.len() && (0..c.len()).all(|i| c[i] == p1[i] || c[i] == p2[i]);
            if children.len() >= 2 && &children[0] == p1 && &children[1] == p2 && parse(rest, &children[2..]) {
                return true;
            }
            !children.is_empty() && gene_ok(&children[0]) && parse(rest, &children[1..])
        }
        let pairs: Vec<&[Vec<T>]> = parents.chunks(2).collect();
        ensure_that!(parse(&pairs, children), format!("C13 {name} child gene not from a parent"), "{at}: the offspring {children:?} cannot be explained pair by pair (one child built from the two parents' genes, or both parents passed through; an unpaired last parent passed through)");
        return Ok(());
    }
    let mut ci = 0;
    for pair in parents.chunks(2) {
        if pair.len() == 1 {
            ensure_that!(children.get(ci) == Some(&pair[0]), format!("C13 {name} remainder"), "{at}: unpaired parent not passed through");
            ci += 1;
            continue;
        }
        let (p1, p2) = (&pair[0], &pair[1]);
        let gene_ok = |c: &Vec<T>| c.len() == p1.len() && (0..c.len()).all(|i| c[i] == p1[i] || c[i] == p2[i]);
        let (c1, c2) = match (children.get(ci), children.get(ci + 1)) {
            (Some(a), Some(b)) => (a, b),
            _ => fail!(format!("C13 {name} offspring count"), "{at}: missing children"),
        };
        ensure_that!(gene_ok(c1) && gene_ok(c2), format!("C13 {name} child gene not from a parent"), "{at}: parents {p1:?} {p2:?} children {c1:?} {c2:?}");
        for i in 0..p1.len() {
            let ok = (c1[i] == p1[i] && c2[i] == p2[i]) || (c1[i] == p2[i] && c2[i] == p1[i]);
            ensure_that!(ok, format!("C13 {name} does not conserve both genes of a position"), "{at}: position {i}: parents {:?}/{:?}, children {:?}/{:?}", p1[i], p2[i], c1[i], c2[i]);
        }
        ci += 2;
    }
    ensure_that!(ci == children.len(), format!("C13 {name} offspring count"), "{at}: {} children, accounted for {ci}", children.len());
    Ok(())
}

fn gene_single_ambiguous<T: PartialEq>(_p1: &[T], _p2: &[T]) -> bool {
    false
}

fn comp_oracle(c: &CompCase, cl: &mut u64) -> Result<(), Failure> {
    // every operator case but the identifier-generic ones (whose rate-1 oracle relies on continuous draws): one seed in
    // four runs with a generator that first replays a script of edge-value words
    if let CompCase::Real { seed, .. } | CompCase::Bits { seed, .. } | CompCase::Perm { seed, .. } = c {
        if !crate::fixtures::script_of(*seed).is_empty() {
            *cl |= 8192;
        }
    }
    let r = comp_oracle_inner(c, cl);
    match r {
        Err(f) if f.sig == "skip" => Ok(()),
        other => other,
    }
}

fn comp_oracle_inner(c: &CompCase, cl: &mut u64) -> Result<(), Failure> {
    match c {
        CompCase::Real { op, pop, seed } => {
            let dim = pop.first().map(|p| p.len()).unwrap_or(3).max(1);
            let pop: Vec<Vec<f64>> = pop.iter().map(|s| (0..dim).map(|i| s.get(i).map(|x| x.f()).unwrap_or(0.5)).collect()).collect();
            let n = pop.len();
            if n >= 2 && dim >= 3 {
                *cl |= 1;
            }
            if n == 0 {
                *cl |= 128;
            }
            if n % 2 == 1 {
                *cl |= 16;
            }
            let problem = RealP::new(dim, -10.0, 10.0, RealKind::Sphere);
            let inds = |p: &Vec<Vec<f64>>| p.iter().map(|s| Individual::<RealP>::new_unevaluated(s.clone())).collect::<Vec<_>>();
            let at = format!("{op:?} on {pop:?} (seed {seed})");
            let rate_class = |rm: f64, cl: &mut u64| {
                if rm == 0.0 {
                    *cl |= 2;
                }
                if rm == 1.0 {
                    *cl |= 4;
                }
            };
            match op {
                RealOp::Normal { dev, rm } | RealOp::UniformM { bound: dev, rm } => {
                    let (dev, rm) = (dev.f(), rm.f());
                    rate_class(rm, cl);
                    let is_normal = matches!(op, RealOp::Normal { .. });
                    let name = if is_normal { "NormalMutation" } else { "UniformMutation" };
                    if !is_normal && dev <= 0.0 {
                        // a non-positive bound is outside the operator's domain: it must be reported as an error, not a panic
                        let comp = UniformMutation::new::<RealP>(dev, rm);
                        let mut st = crate::fixtures::state_with_scripted(vec![inds(&pop)], *seed);
                        let r = catch(|| {
                            comp.init(&problem, &mut st)?;
                            comp.execute(&problem, &mut st)
                        });
                        ensure_that!(matches!(r, Ok(Err(_))), "C13 UniformMutation non-positive bound", "{at}: expected an Err, got {:?}", r.map(|x| x.is_ok()));
                        return Ok(());
                    }
                    let comp: Box<dyn Component<RealP>> = if is_normal { NormalMutation::new(dev, rm) } else { UniformMutation::new(dev, rm) };
                    let mut st = crate::fixtures::state_with_scripted(vec![vec![], inds(&pop)], *seed);
                    run_comp(comp.as_ref(), &problem, &mut st, name, &at)?;
                    let after = stack_solutions(&st);
                    ensure_that!(after.len() == 2 && after[0].is_empty(), format!("C13 {name} stack"), "{at}: stack changed shape");
                    let got = &after[1];
                    ensure_that!(got.len() == n && got.iter().all(|s| s.len() == dim), format!("C13 {name} changes size or dimension"), "{at}: got {got:?}");
                    for (a, b) in pop.iter().zip(got) {
                        for i in 0..dim {
                            if rm == 0.0 {
                                ensure_that!(a[i].to_bits() == b[i].to_bits(), format!("C13 {name} mutates with rate 0"), "{at}: coordinate changed {} -> {}", a[i], b[i]);
                            }
                            if !is_normal {
                                ensure_that!((b[i] - a[i]).abs() <= dev * (1.0 + 1e-12) + 1e-12, "C13 UniformMutation exceeds its bound", "{at}: delta {} with bound {dev}", b[i] - a[i]);
                            }
                            ensure_that!(b[i].is_finite(), format!("C13 {name} non-finite"), "{at}: {b:?}");
                        }
                    }
                }
                RealOp::Spread { rm } => {
                    let rm = rm.f();
                    rate_class(rm, cl);
                    let comp = PartialRandomSpread::new::<RealP>(rm);
                    let mut st = crate::fixtures::state_with_scripted(vec![inds(&pop)], *seed);
                    run_comp(comp.as_ref(), &problem, &mut st, "PartialRandomSpread", &at)?;
                    let got = &stack_solutions(&st)[0];
                    ensure_that!(got.len() == n && got.iter().all(|s| s.len() == dim), "C13 PartialRandomSpread changes size or dimension", "{at}: got {got:?}");
                    for (a, b) in pop.iter().zip(got) {
                        for i in 0..dim {
                            if rm == 0.0 {
                                ensure_that!(a[i].to_bits() == b[i].to_bits(), "C13 PartialRandomSpread mutates with rate 0", "{at}");
                            }
                            ensure_that!(a[i].to_bits() == b[i].to_bits() || (b[i] >= -10.0 && b[i] < 10.0), "C13 PartialRandomSpread leaves the domain", "{at}: new value {}", b[i]);
                            if rm == 1.0 {
                                ensure_that!(b[i] >= -10.0 && b[i] < 10.0, "C13 PartialRandomSpread leaves the domain", "{at}: value {} after a full re-spread", b[i]);
                            }
                        }
                    }
                }
                RealOp::NPoint { .. } | RealOp::UniformX { .. } | RealOp::ArithmeticX { .. } => {
                    *cl |= 8;
                    let (cuts, pc, both) = match op {
                        RealOp::NPoint { n, pc, both } => (*n, pc.f(), both),
                        RealOp::UniformX { pc, both } | RealOp::ArithmeticX { pc, both } => (0, pc.f(), both),
                        _ => unreachable!(),
                    };
                    rate_class(pc, cl);
                    let (name, comp): (&str, Box<dyn Component<RealP>>) = match op {
                        RealOp::NPoint { .. } => {
                            if dim < 2 {
                                return Ok(());
                            }
                            ("NPointCrossover", NPointCrossover::new::<RealP, f64>(1 + cuts % (dim - 1), pc, *both))
                        }
                        RealOp::UniformX { .. } => ("UniformCrossover", UniformCrossover::new::<RealP, f64>(pc, *both)),
                        _ => ("ArithmeticCrossover", ArithmeticCrossover::new::<RealP>(pc, *both)),
                    };
                    let mut st = crate::fixtures::state_with_scripted(vec![inds(&pop)], *seed);
                    run_comp(comp.as_ref(), &problem, &mut st, name, &at)?;
                    let after = stack_solutions(&st);
                    ensure_that!(after.len() == 1, format!("C13 {name} stack"), "{at}: stack height {}", after.len());
                    let got = &after[0];
                    ensure_that!(got.iter().all(|s| s.len() == dim), format!("C13 {name} changes the dimension"), "{at}: {got:?}");
                    offspring_count(n, pc, *both, got.len(), name, &at)?;
                    if name != "ArithmeticCrossover" {
                        let bits = |p: &Vec<Vec<f64>>| p.iter().map(|s| s.iter().map(|x| x.to_bits()).collect::<Vec<_>>()).collect::<Vec<_>>();
                        conserve(&bits(&pop), &bits(got), *both, name, &at)?;
                    } else if *both {
                        for (k, pair) in pop.chunks(2).enumerate() {
                            if pair.len() == 2 {
                                for i in 0..dim {
                                    let (lo, hi) = (pair[0][i].min(pair[1][i]), pair[0][i].max(pair[1][i]));
                                    for c in [got[2 * k][i], got[2 * k + 1][i]] {
                                        ensure_that!(c >= lo - 1e-9 && c <= hi + 1e-9, "C13 ArithmeticCrossover not a convex combination", "{at}: child gene {c} outside [{lo}, {hi}]");
                                    }
                                    let s = got[2 * k][i] + got[2 * k + 1][i];
                                    ensure_that!((s - (pair[0][i] + pair[1][i])).abs() <= 1e-9 * (1.0 + s.abs()), "C13 ArithmeticCrossover does not conserve the gene sum", "{at}: position {i}");
                                }
                            }
                        }
                    }
                }
                RealOp::DeMutation { y, f } => {
                    *cl |= 64;
                    let f = f.f();
                    let block = (2 * y + 1) as usize;
                    // build a population in the documented layout: n blocks
                    let blocks = n.max(1).min(4);
                    let mut layout: Vec<Vec<f64>> = Vec::new();
                    for b in 0..blocks * block {
                        let base = pop.get(b % n.max(1)).cloned().unwrap_or_else(|| vec![0.25; dim]);
                        layout.push(base.iter().enumerate().map(|(i, x)| x + (b * 3 + i) as f64 * 0.125).collect());
                    }
                    let comp = match DEMutation::new::<RealP>(*y, f) {
                        Ok(c) => c,
                        Err(e) => fail!("C13 DEMutation rejects documented parameters", "{at}: {e}"),
                    };
                    let mut st = crate::fixtures::state_with_scripted(vec![inds(&layout)], *seed);
                    let at = format!("{op:?} on layout {layout:?}");
                    run_comp(comp.as_ref(), &problem, &mut st, "DEMutation", &at)?;
                    let got = &stack_solutions(&st)[0];
                    ensure_that!(got.len() == blocks, "C13 DEMutation offspring count", "{at}: {} individuals from {blocks} blocks of {block}", got.len());
                    for b in 0..blocks {
                        let chunk = &layout[b * block..(b + 1) * block];
                        let mut want = chunk[0].clone();
                        for pair in chunk[1..].chunks(2) {
                            for i in 0..dim {
                                want[i] += f * (pair[0][i] - pair[1][i]);
                            }
                        }
                        ensure_that!(got[b].iter().zip(&want).all(|(a, b)| a.to_bits() == b.to_bits()), "C13 DEMutation result", "{at}: block {b}: got {:?}, expected base + F * sum(s1 - s2) = {want:?}", got[b]);
                    }
                    // a population that is not in the layout must be rejected
                    if block > 1 {
                        let mut st = crate::fixtures::state_with_scripted(vec![inds(&layout[..layout.len() - 1].to_vec())], *seed);
                        let r = catch(|| comp.execute(&problem, &mut st));
                        ensure_that!(matches!(r, Ok(Err(_))), "C13 DEMutation accepts a malformed layout", "{at}: population of {} individuals (not a multiple of {block}) gave {:?}", layout.len() - 1, r.map(|x| x.is_ok()));
                    }
                }
                RealOp::DeBinomial { pc, skew } | RealOp::DeExponential { pc, skew } => {
                    *cl |= 64 | 8;
                    let pc = pc.f();
                    let skew = *skew;
                    let bin = matches!(op, RealOp::DeBinomial { .. });
                    let name = if bin { "DEBinomialCrossover" } else { "DEExponentialCrossover" };
                    let comp: Box<dyn Component<RealP>> = if bin { DEBinomialCrossover::new(pc) } else { DEExponentialCrossover::new(pc) };
                    let mut mutants: Vec<Vec<f64>> = pop.iter().map(|s| s.iter().map(|x| x + 1000.0).collect()).collect();
                    // the two populations need not have the same size: pairs are formed index-wise, what has no partner is left alone
                    if skew < 0 {
                        mutants.truncate(n.saturating_sub(skew.unsigned_abs() as usize));
                    } else {
                        for j in 0..skew as usize {
                            mutants.push((0..dim).map(|i| 5000.0 + (j * dim + i) as f64).collect());
                        }
                    }
                    if skew != 0 {
                        *cl |= 1024;
                    }
                    let m = mutants.len();
                    let mut st = crate::fixtures::state_with_scripted(vec![inds(&pop), inds(&mutants)], *seed);
                    run_comp(comp.as_ref(), &problem, &mut st, name, &at)?;
                    let after = stack_solutions(&st);
                    ensure_that!(after.len() == 2 && after[0] == pop, format!("C13 {name} stack"), "{at}: base population changed or stack height {}", after.len());
                    let got = &after[1];
                    ensure_that!(got.len() == m, format!("C13 {name} offspring count"), "{at}: {} trial vectors for {m} mutated individuals ({n} bases)", got.len());
                    for k in n.min(m)..m {
                        ensure_that!(got[k] == mutants[k], format!("C13 {name} changes an individual without partner"), "{at}: mutated individual {k} has no base but became {:?}", got[k]);
                    }
                    for k in 0..n.min(m) {
                        let mut from_base = 0;
                        for i in 0..dim {
                            let g = got[k][i];
                            let ok = g.to_bits() == pop[k][i].to_bits() || g.to_bits() == mutants[k][i].to_bits();
                            ensure_that!(ok, format!("C13 {name} gene from neither base nor mutant"), "{at}: trial {k} position {i} = {g}");
                            if g.to_bits() == pop[k][i].to_bits() {
                                from_base += 1;
                            }
                        }
                        ensure_that!(from_base >= 1, format!("C13 {name} takes no gene from the base"), "{at}: trial {k} = {:?}", got[k]);
                    }
                }
            }
        }
        CompCase::Bits { op, pop, seed } => {
            let dim = pop.first().map(|p| p.len()).unwrap_or(3).max(1);
            let pop: Vec<Vec<bool>> = pop.iter().map(|s| (0..dim).map(|i| s.get(i).copied().unwrap_or(false)).collect()).collect();
            let n = pop.len();
            if n >= 2 && dim >= 3 {
                *cl |= 1;
            }
            if n % 2 == 1 {
                *cl |= 16;
            }
            let problem = BitsP::new(dim);
            let inds = |p: &Vec<Vec<bool>>| p.iter().map(|s| Individual::<BitsP>::new_unevaluated(s.clone())).collect::<Vec<_>>();
            let at = format!("{op:?} on {pop:?} (seed {seed})");
            match op {
                BitOp::BitFlip { rm } => {
                    let rm = rm.f();
                    let comp = BitFlipMutation::new::<BitsP>(rm);
                    let mut st = crate::fixtures::state_with_scripted(vec![inds(&pop)], *seed);
                    run_comp(comp.as_ref(), &problem, &mut st, "BitFlipMutation", &at)?;
                    let got = &stack_solutions(&st)[0];
                    ensure_that!(got.len() == n && got.iter().all(|s| s.len() == dim), "C13 BitFlipMutation changes size or dimension", "{at}");
                    if rm == 0.0 {
                        *cl |= 2;
                        ensure_that!(*got == pop, "C13 BitFlipMutation mutates with rate 0", "{at}: {got:?}");
                    }
                    if rm == 1.0 {
                        *cl |= 4;
                        let want: Vec<Vec<bool>> = pop.iter().map(|s| s.iter().map(|b| !b).collect()).collect();
                        ensure_that!(*got == want, "C13 BitFlipMutation with rate 1 does not invert every bit", "{at}: {got:?}");
                    }
                }
                BitOp::RandomBits { p, rm } => {
                    let (p, rm) = (p.f(), rm.f());
                    let comp = PartialRandomBitstring::new::<BitsP>(p, rm);
                    let mut st = crate::fixtures::state_with_scripted(vec![inds(&pop)], *seed);
                    run_comp(comp.as_ref(), &problem, &mut st, "PartialRandomBitstring", &at)?;
                    let got = &stack_solutions(&st)[0];
                    ensure_that!(got.len() == n && got.iter().all(|s| s.len() == dim), "C13 PartialRandomBitstring changes size or dimension", "{at}");
                    if rm == 0.0 {
                        *cl |= 2;
                        ensure_that!(*got == pop, "C13 PartialRandomBitstring mutates with rate 0", "{at}");
                    }
                    if rm == 1.0 && (p == 0.0 || p == 1.0) {
                        *cl |= 4;
                        ensure_that!(got.iter().all(|s| s.iter().all(|b| *b == (p == 1.0))), "C13 PartialRandomBitstring p", "{at}: full resampling with p = {p} gave {got:?}");
                    }
                }
                BitOp::NPoint { n: cuts, pc, both } => {
                    *cl |= 8;
                    if dim < 2 {
                        return Ok(());
                    }
                    let pc = pc.f();
                    let comp = NPointCrossover::new::<BitsP, bool>(1 + cuts % (dim - 1), pc, *both);
                    let mut st = crate::fixtures::state_with_scripted(vec![inds(&pop)], *seed);
                    run_comp(comp.as_ref(), &problem, &mut st, "NPointCrossover", &at)?;
                    let got = &stack_solutions(&st)[0];
                    offspring_count(n, pc, *both, got.len(), "NPointCrossover", &at)?;
                    ensure_that!(got.iter().all(|s| s.len() == dim), "C13 NPointCrossover changes the dimension", "{at}");
                    if *both {
                        conserve(&pop, got, true, "NPointCrossover", &at)?;
                    }
                }
                BitOp::UniformX { pc, both } => {
                    *cl |= 8;
                    let pc = pc.f();
                    let comp = UniformCrossover::new::<BitsP, bool>(pc, *both);
                    let mut st = crate::fixtures::state_with_scripted(vec![inds(&pop)], *seed);
                    run_comp(comp.as_ref(), &problem, &mut st, "UniformCrossover", &at)?;
                    let got = &stack_solutions(&st)[0];
                    offspring_count(n, pc, *both, got.len(), "UniformCrossover", &at)?;
                    ensure_that!(got.iter().all(|s| s.len() == dim), "C13 UniformCrossover changes the dimension", "{at}");
                    if *both {
                        conserve(&pop, got, true, "UniformCrossover", &at)?;
                    }
                }
            }
        }
        CompCase::Perm { op, n, size, seed } => {
            *cl |= 32;
            let n = *n;
            if *size >= 2 && n >= 3 {
                *cl |= 1;
            }
            if size % 2 == 1 {
                *cl |= 16;
            }
            // deterministic distinct permutations from the seed
            let mut pop: Vec<Vec<usize>> = Vec::new();
            let mut s = seed.wrapping_mul(0x9E3779B97F4A7C15) | 1;
            for _ in 0..*size {
                let mut p: Vec<usize> = (0..n).collect();
                for i in (1..n).rev() {
                    s ^= s << 13;
                    s ^= s >> 7;
                    s ^= s << 17;
                    p.swap(i, (s % (i as u64 + 1)) as usize);
                }
                pop.push(p);
            }
            let problem = TspP::generated(n, 0, 1);
            let inds = |p: &Vec<Vec<usize>>| p.iter().map(|s| Individual::<TspP>::new_unevaluated(s.clone())).collect::<Vec<_>>();
            let at = format!("{op:?} on {pop:?} (seed {seed})");
            let (name, comp): (&str, Box<dyn Component<TspP>>) = match op {
                PermOp::Scramble { rm } => ("ScrambleMutation", ScrambleMutation::new::<TspP>(rm.f())),
                PermOp::Swap { num } => {
                    // documented range: 2 ..= solution length
                    let num = 2 + (num % (n as u32 - 1));
                    match SwapMutation::new::<TspP>(num) {
                        Ok(c) => ("SwapMutation", c),
                        Err(e) => {
                            return soft_fail(Failure::new("C13 SwapMutation rejects a documented num_swap", format!("SwapMutation::new({num}) on solutions of length {n}: {e}")));
                        }
                    }
                }
                PermOp::Inversion => ("InversionMutation", InversionMutation::new::<TspP, usize>()),
                PermOp::Insertion => ("InsertionMutation", InsertionMutation::new::<TspP>()),
                PermOp::Translocation => ("TranslocationMutation", TranslocationMutation::new::<TspP>()),
                PermOp::CycleX { pc, both } => ("CycleCrossover", CycleCrossover::new::<TspP, usize>(pc.f(), *both)),
            };
            // permutation operators: one seed in four with a generator that first replays a script of edge-value words
            let mut st = crate::fixtures::state_with_scripted(vec![inds(&pop)], *seed);
            run_comp(comp.as_ref(), &problem, &mut st, name, &at)?;
            let got = &stack_solutions(&st)[0];
            for g in got {
                ensure_that!(g.len() == n && is_permutation(g), format!("C13 {name} result is not a permutation"), "{at}: {g:?}");
            }
            match op {
                PermOp::CycleX { pc, both } => {
                    *cl |= 8;
                    offspring_count(*size, pc.f(), *both, got.len(), name, &at)?;
                    if *both {
                        conserve(&pop, got, true, name, &at)?;
                    }
                }
                PermOp::Scramble { rm } => {
                    ensure_that!(got.len() == *size, format!("C13 {name} changes the population size"), "{at}");
                    if rm.f() == 0.0 {
                        *cl |= 2;
                        ensure_that!(*got == pop, "C13 ScrambleMutation mutates with rate 0", "{at}");
                    }
                }
                PermOp::Swap { num } => {
                    let num = 2 + (num % (n as u32 - 1)) as usize;
                    ensure_that!(got.len() == *size, format!("C13 {name} changes the population size"), "{at}");
                    for (a, b) in pop.iter().zip(got) {
                        let moved = (0..n).filter(|i| a[*i] != b[*i]).count();
                        ensure_that!(moved == num, "C13 SwapMutation moves a different number of elements", "{at}: {moved} positions changed, num_swap = {num}");
                    }
                }
                _ => ensure_that!(got.len() == *size, format!("C13 {name} changes the population size"), "{at}"),
            }
        }
        CompCase::Identified { which, own_full, sibling, n, dim, seed, same_id, adapted } => {
            let same_id = *same_id;
            let adapted = *adapted;
            if adapted {
                *cl |= 4096;
            }
            if same_id && sibling.is_some() {
                *cl |= 2048;
            }
            use mahf::identifier::A;
            let (n, dim, which) = (*n, *dim, *which % 6);
            *cl |= 256;
            if n >= 2 && dim >= 3 {
                *cl |= 1;
            }
            let own = if *own_full { 1.0 } else { 0.0 };
            // the rate the instance is constructed with
            let ctor = if adapted { 1.0 - own } else { own };
            *cl |= if *own_full { 4 } else { 2 };
            if let Some(sr) = sibling {
                if sr.f() != own {
                    *cl |= 512;
                }
            }
            let at = format!("{c:?}");
            let mut s = seed.wrapping_mul(0x9E3779B97F4A7C15) | 1;
            let mut next = move || {
                s ^= s << 13;
                s ^= s >> 7;
                s ^= s << 17;
                s
            };
            match which {
                0..=2 => {
                    let problem = RealP::new(dim, -10.0, 10.0, RealKind::Sphere);
                    let pop: Vec<Vec<f64>> = (0..n).map(|_| (0..dim).map(|_| (next() % 2000) as f64 / 100.0 - 10.0).collect()).collect();
                    let inds: Vec<_> = pop.iter().map(|s| Individual::<RealP>::new_unevaluated(s.clone())).collect();
                    let (name, comp, sib): (&str, Box<dyn Component<RealP>>, Option<Box<dyn Component<RealP>>>) = match which {
                        0 => ("NormalMutation", NormalMutation::<A>::new_with_id(1.0, ctor), sibling.map(|r| if same_id { NormalMutation::<A>::new_with_id(2.5, r.f()) } else { NormalMutation::new(1.0, r.f()) })),
                        1 => ("UniformMutation", UniformMutation::<A>::new_with_id(1.0, ctor), sibling.map(|r| if same_id { UniformMutation::<A>::new_with_id(2.5, r.f()) } else { UniformMutation::new(1.0, r.f()) })),
                        _ => ("PartialRandomSpread", PartialRandomSpread::<A>::new_with_id(ctor), sibling.map(|r| if same_id { PartialRandomSpread::<A>::new_with_id(r.f()) } else { PartialRandomSpread::new(r.f()) })),
                    };
                    let mut st = state_with(vec![inds], *seed);
                    if let Some(sib) = &sib {
                        run_comp_init(sib.as_ref(), &problem, &mut st, name, &at)?;
                    }
                    if adapted {
                        run_comp_init(comp.as_ref(), &problem, &mut st, name, &at)?;
                        match which {
                            0 => st.set_value::<MutationRate<NormalMutation<A>>>(own),
                            1 => st.set_value::<MutationRate<UniformMutation<A>>>(own),
                            _ => st.set_value::<MutationRate<PartialRandomSpread<A>>>(own),
                        };
                        run_comp_exec(comp.as_ref(), &problem, &mut st, name, &at)?;
                    } else {
                        run_comp(comp.as_ref(), &problem, &mut st, name, &at)?;
                    }
                    let got = &stack_solutions(&st)[0];
                    ensure_that!(got.len() == n && got.iter().all(|s| s.len() == dim), format!("C13 {name} changes size or dimension"), "{at}: got {got:?}");
                    for (a, b) in pop.iter().zip(got) {
                        for i in 0..dim {
                            if *own_full {
                                // rate 1: every coordinate is redrawn from a continuous distribution
                                ensure_that!(a[i].to_bits() != b[i].to_bits(), format!("C13 {name} with rate 1 leaves a coordinate untouched"), "{at}: coordinate {i} stays {}", a[i]);
                            } else {
                                ensure_that!(a[i].to_bits() == b[i].to_bits(), format!("C13 {name} mutates with rate 0"), "{at}: coordinate changed {} -> {}", a[i], b[i]);
                            }
                        }
                    }
                }
                3 | 4 => {
                    let problem = BitsP::new(dim);
                    let pop: Vec<Vec<bool>> = (0..n).map(|_| (0..dim).map(|_| next() % 2 == 0).collect()).collect();
                    let inds: Vec<_> = pop.iter().map(|s| Individual::<BitsP>::new_unevaluated(s.clone())).collect();
                    let (name, comp, sib): (&str, Box<dyn Component<BitsP>>, Option<Box<dyn Component<BitsP>>>) = if which == 3 {
                        ("BitFlipMutation", BitFlipMutation::<A>::new_with_id(ctor), sibling.map(|r| if same_id { BitFlipMutation::<A>::new_with_id(r.f()) } else { BitFlipMutation::new(r.f()) }))
                    } else {
                        ("PartialRandomBitstring", PartialRandomBitstring::<A>::new_with_id(1.0, ctor), sibling.map(|r| if same_id { PartialRandomBitstring::<A>::new_with_id(0.0, r.f()) } else { PartialRandomBitstring::new(1.0, r.f()) }))
                    };
                    let mut st = state_with(vec![inds], *seed);
                    if let Some(sib) = &sib {
                        run_comp_init(sib.as_ref(), &problem, &mut st, name, &at)?;
                    }
                    if adapted {
                        run_comp_init(comp.as_ref(), &problem, &mut st, name, &at)?;
                        if which == 3 {
                            st.set_value::<MutationRate<BitFlipMutation<A>>>(own);
                        } else {
                            st.set_value::<MutationRate<PartialRandomBitstring<A>>>(own);
                        }
                        run_comp_exec(comp.as_ref(), &problem, &mut st, name, &at)?;
                    } else {
                        run_comp(comp.as_ref(), &problem, &mut st, name, &at)?;
                    }
                    let got = &stack_solutions(&st)[0];
                    ensure_that!(got.len() == n && got.iter().all(|s| s.len() == dim), format!("C13 {name} changes size or dimension"), "{at}");
                    if !*own_full {
                        ensure_that!(*got == pop, format!("C13 {name} mutates with rate 0"), "{at}: {got:?}");
                    } else if which == 3 {
                        let want: Vec<Vec<bool>> = pop.iter().map(|s| s.iter().map(|b| !b).collect()).collect();
                        ensure_that!(*got == want, "C13 BitFlipMutation with rate 1 does not invert every bit", "{at}: {got:?}");
                    } else {
                        ensure_that!(got.iter().all(|s| s.iter().all(|b| *b)), "C13 PartialRandomBitstring p", "{at}: full resampling with p = 1 gave {got:?}");
                    }
                }
                _ => {
                    let len = dim.max(2);
                    let problem = TspP::generated(len, 0, 1);
                    let pop: Vec<Vec<usize>> = (0..n).map(|_| {
                        let mut p: Vec<usize> = (0..len).collect();
                        for i in (1..len).rev() {
                            p.swap(i, (next() % (i as u64 + 1)) as usize);
                        }
                        p
                    }).collect();
                    let inds: Vec<_> = pop.iter().map(|s| Individual::<TspP>::new_unevaluated(s.clone())).collect();
                    let comp: Box<dyn Component<TspP>> = ScrambleMutation::<A>::new_with_id(ctor);
                    let sib: Option<Box<dyn Component<TspP>>> = sibling.map(|r| if same_id { ScrambleMutation::<A>::new_with_id(r.f()) } else { ScrambleMutation::new(r.f()) });
                    let mut st = state_with(vec![inds], *seed);
                    if let Some(sib) = &sib {
                        run_comp_init(sib.as_ref(), &problem, &mut st, "ScrambleMutation", &at)?;
                    }
                    if adapted {
                        run_comp_init(comp.as_ref(), &problem, &mut st, "ScrambleMutation", &at)?;
                        st.set_value::<MutationRate<ScrambleMutation<A>>>(own);
                        run_comp_exec(comp.as_ref(), &problem, &mut st, "ScrambleMutation", &at)?;
                    } else {
                        run_comp(comp.as_ref(), &problem, &mut st, "ScrambleMutation", &at)?;
                    }
                    let got = &stack_solutions(&st)[0];
                    ensure_that!(got.len() == n && got.iter().all(|g| g.len() == len && is_permutation(g)), "C13 ScrambleMutation result is not a permutation", "{at}: {got:?}");
                    if !*own_full {
                        ensure_that!(*got == pop, "C13 ScrambleMutation mutates with rate 0", "{at}: {got:?}");
                    }
                }
            }
        }
    }
    Ok(())
}

fn run_comp_exec<P: mahf::Problem>(comp: &dyn Component<P>, problem: &P, state: &mut State<P>, name: &str, at: &str) -> Result<(), Failure> {
    match catch(|| comp.execute(problem, state)) {
        Ok(Ok(())) => Ok(()),
        Ok(Err(e)) => soft_fail(Failure::new(format!("C13 {name} errs on a valid population"), format!("{at}: execution after the rate state was adapted: {e:#}"))).and(Err(Failure::new("skip", ""))),
        Err(p) => soft_fail(Failure::new(format!("C13 {name} panics"), format!("{at}: execution after the rate state was adapted: {p}"))).and(Err(Failure::new("skip", ""))),
    }
}

fn run_comp_init<P: mahf::Problem>(comp: &dyn Component<P>, problem: &P, state: &mut State<P>, name: &str, at: &str) -> Result<(), Failure> {
    match catch(|| comp.init(problem, state)) {
        Ok(Ok(())) => Ok(()),
        Ok(Err(e)) => soft_fail(Failure::new(format!("C13 {name} errs on a valid population"), format!("{at}: init of the default-identified instance: {e:#}"))).and(Err(Failure::new("skip", ""))),
        Err(p) => soft_fail(Failure::new(format!("C13 {name} panics"), format!("{at}: init of the default-identified instance: {p}"))).and(Err(Failure::new("skip", ""))),
    }
}

fn rate() -> impl Strategy<Value = Fb> {
    prop_oneof![2 => Just(0.0), 2 => Just(1.0), 1 => Just(0.5), 1 => Just(0.05), 1 => 0.0f64..=1.0].prop_map(Fb::of)
}

fn real_pop() -> impl Strategy<Value = Vec<Vec<Fb>>> {
    prop_oneof![
        4 => (1usize..9).prop_flat_map(|dim| proptest::collection::vec(proptest::collection::vec((-10.0f64..10.0).prop_map(Fb::of), dim), 0..10)),
        // a mating pool drawn with replacement from a few distinct solutions: equal neighbours are the rule
        1 => (1usize..9).prop_flat_map(|dim| (proptest::collection::vec(proptest::collection::vec((-10.0f64..10.0).prop_map(Fb::of), dim), 1..4), proptest::collection::vec(any::<u8>(), 0..10)).prop_map(|(pool, picks)| picks.iter().map(|k| pool[*k as usize % pool.len()].clone()).collect())),
    ]
}

fn comp_strategy() -> impl Strategy<Value = CompCase> {
    let real_op = prop_oneof![
        (prop_oneof![Just(0.0), Just(0.1), Just(3.0)].prop_map(Fb::of), rate()).prop_map(|(dev, rm)| RealOp::Normal { dev, rm }),
        (prop_oneof![3 => Just(0.0), 3 => Just(1e-9), 3 => Just(0.1), 3 => Just(3.0), 1 => Just(1e308), 1 => Just(f64::MAX), 1 => Just(f64::MIN_POSITIVE)].prop_map(Fb::of), rate()).prop_map(|(bound, rm)| RealOp::UniformM { bound, rm }),
        rate().prop_map(|rm| RealOp::Spread { rm }),
        (0usize..8, rate(), any::<bool>()).prop_map(|(n, pc, both)| RealOp::NPoint { n, pc, both }),
        (rate(), any::<bool>()).prop_map(|(pc, both)| RealOp::UniformX { pc, both }),
        (rate(), any::<bool>()).prop_map(|(pc, both)| RealOp::ArithmeticX { pc, both }),
        (1u32..3, prop_oneof![Just(0.0), Just(0.5), Just(1.0), Just(2.0)].prop_map(Fb::of)).prop_map(|(y, f)| RealOp::DeMutation { y, f }),
        (rate(), prop_oneof![3 => Just(0i8), 1 => -3i8..4]).prop_map(|(pc, skew)| RealOp::DeBinomial { pc, skew }),
        (rate(), prop_oneof![3 => Just(0i8), 1 => -3i8..4]).prop_map(|(pc, skew)| RealOp::DeExponential { pc, skew }),
    ];
    let bit_op = prop_oneof![
        rate().prop_map(|rm| BitOp::BitFlip { rm }),
        (rate(), rate()).prop_map(|(p, rm)| BitOp::RandomBits { p, rm }),
        (0usize..8, rate(), any::<bool>()).prop_map(|(n, pc, both)| BitOp::NPoint { n, pc, both }),
        (rate(), any::<bool>()).prop_map(|(pc, both)| BitOp::UniformX { pc, both }),
    ];
    let perm_op = prop_oneof![
        1 => rate().prop_map(|rm| PermOp::Scramble { rm }),
        3 => (0u32..16).prop_map(|num| PermOp::Swap { num }),
        2 => Just(PermOp::Inversion),
        2 => Just(PermOp::Insertion),
        2 => Just(PermOp::Translocation),
        2 => (rate(), any::<bool>()).prop_map(|(pc, both)| PermOp::CycleX { pc, both }),
    ];
    prop_oneof![
        4 => (real_op, real_pop(), any::<u64>()).prop_map(|(op, pop, seed)| CompCase::Real { op, pop, seed }),
        2 => (bit_op, (1usize..9).prop_flat_map(|dim| proptest::collection::vec(proptest::collection::vec(any::<bool>(), dim), 0..10)), any::<u64>()).prop_map(|(op, pop, seed)| CompCase::Bits { op, pop, seed }),
        4 => (perm_op, 2usize..9, 0usize..8, any::<u64>()).prop_map(|(op, n, size, seed)| CompCase::Perm { op, n, size, seed }),
        1 => (0u8..6, any::<bool>(), proptest::option::of(rate()), 1usize..6, 1usize..7, any::<u64>(), any::<bool>()).prop_map(|(which, own_full, sibling, n, dim, seed, same_id)| CompCase::Identified { which, own_full, sibling, n, dim, seed, same_id, adapted: seed % 3 == 0 }),
    ]
}

pub fn run_all(ctx: &mut Ctx, replay: Option<&Path>) {
    ctx.rule("helpers (exhaustive): circular_swap vs circular_swap2 on all ordered tuples of >= 2 distinct indices (n <= 6/7) against an independent circular-shift reference; translocate_slice vs translocate_slice2 on all (n, start <= end <= n, index) that fit; multi_point_crossover / uniform_crossover on parent pairs over {0,1,2} and on fully distinguishable parents with all cut sets (ordered and unordered) and all masks against a parity / mask reference; arithmetic_crossover on a value x alpha grid and on random parents, also of different length (convexity, sum conservation, exact weights on the common prefix; every child keeps its own parent's length and tail); cycle_crossover on all pairs of permutations (n <= 5) against a cycle reference. components (proptest): every mutation and recombination component on random populations (size 0-9, dim 1-8), rates/probabilities from {0, 0.05, 0.5, 1, random}, both insert modes; well-formedness, gene conservation, rate-0 identity, offspring counts, exact DE mutation, no panic / Err on a valid population, documented constructor ranges, UniformMutation bounds up to f64::MAX, the identifier-generic mutations instantiated with a non-default identifier alone and next to a default-identified instance with a different rate (each instance must obey its own rate); the same with the rate adapted through the MutationRate state after initialisation (constructed with the opposite rate: the rate in the state decides); non-trivial = helper case with >= 3 indices / a moved non-empty slice / >= 2 cuts / >= 2 cycles, component case with population >= 2 and dim >= 3; distinct by case");
    ctx.assume("NPointCrossover gets 1 <= n < dim, uniform-crossover masks have the parents' length, parents have equal length (except for the arithmetic_crossover helper, which only asks for enough alphas), permutation operators get length >= 2, DEMutation inputs are in the documented block layout (a malformed one must be an Err)");
    ctx.assume("translocate_slice: a range may end at the end of the permutation (Range::end is exclusive)");
    let h = HelperCheck;
    let k = CompCheck;
    if let Some(p) = replay {
        let _ = ctx.replay_file(&h, p) || ctx.replay_file(&k, p);
        return;
    }
    ctx.regressions(&h);
    ctx.regressions(&k);
    let thorough = ctx.tier == crate::engine::Tier::Thorough;
    ctx.exhaustive(&h, if thorough { "bounds: circular swap n <= 7, translocate n <= 9, crossovers over {0,1,2} length <= 5, distinguishable parents length <= 7, permutations n <= 5" } else { "bounds: circular swap n <= 6, translocate n <= 8, crossovers over {0,1,2} length <= 4, distinguishable parents length <= 6, permutations n <= 5" }, helper_cases(thorough).into_iter());
    ctx.random(&h, helper_strategy(), ctx.tier.pick(200_000, 1_000_000));
    ctx.exhaustive(
        &k,
        "6 identifier-generic mutations instantiated with identifier A x own rate {0, 1} x {alone, next to a default-identified instance with rate 0, 1} x 2 population shapes (+ same identifier, + rate adapted through the state after initialisation)",
        (0u8..6).flat_map(|which| {
            [false, true].into_iter().flat_map(move |own_full| {
                [None, Some(0.0), Some(1.0)].into_iter().flat_map(move |sib| [(1usize, 1usize, false, false), (3, 4, false, false), (3, 4, true, false), (3, 4, false, true)].into_iter().map(move |(n, dim, same_id, adapted)| CompCase::Identified { which, own_full, sibling: sib.map(Fb::of), n, dim, seed: 11 + which as u64, same_id, adapted }))
            })
        }),
    );
    ctx.random(&k, comp_strategy(), ctx.tier.pick(250_000, 1_200_000));
}
