//! C19 — ant-colony generation yields valid tours; pheromone updates are well-formed.

use std::{
    path::Path,
    sync::{Arc, Mutex},
};

use mahf::{
    components::generative::{AcoGeneration, AsPheromoneUpdate, MinMaxPheromoneUpdate, PheromoneMatrix},
    Component, Individual, State,
};
use proptest::prelude::*;
use serde::{Deserialize, Serialize};

use crate::{
    engine::{catch, soft_fail, Check, Ctx, Failure, Outcome},
    fixtures::{
        is_permutation,
        problems::TspP,
        run::{run_observed_auto, build_perm, inst_strategy, run_observed, tpl_strategy, tsp_of, Audit, EvalKind, Inst, Kind, Phase, RunSpec, StepEv, Tpl},
        state_with,
    },
};

fn snapshot(state: &State<TspP>, n: usize) -> Option<Vec<Vec<f64>>> {
    let pm = state.try_borrow::<PheromoneMatrix>().ok()?;
    // a matrix of another dimension than the instance's (rows of the wrong length, or too few of them) has no snapshot
    let rows: Vec<Vec<f64>> = crate::engine::catch(|| (0..n).map(|i| pm[i].to_vec()).collect()).ok()?;
    rows.iter().all(|r| r.len() == n).then_some(rows)
}

#[derive(Default)]
struct A19 {
    n: usize,
    ants: usize,
    rho: f64,
    /// Some(decay) for AS; None for MMAS
    decay: Option<f64>,
    bounds: Option<(f64, f64)>,
    failure: Option<Failure>,
    before_gen: Option<Vec<Vec<f64>>>,
    before_upd: Option<Vec<Vec<f64>>>,
    updates: u32,
    shared_edge_updates: u32,
    generations: u32,
    min_trail_seen: f64,
}

impl A19 {
    fn fail(&mut self, sig: &str, msg: String) {
        if self.failure.is_none() {
            self.failure = Some(Failure::new(format!("C19 {sig}"), msg));
        }
    }
}

fn ulp_close(a: f64, b: f64) -> bool {
    if a == b {
        return true;
    }
    let scale = a.abs().max(b.abs());
    (a - b).abs() <= 4.0 * f64::EPSILON * scale
}

impl Audit<TspP> for A19 {
    fn step(&mut self, _problem: &TspP, state: &State<TspP>, ev: &StepEv) {
        if self.failure.is_some() {
            return;
        }
        let n = self.n;
        match (ev.name, ev.phase) {
            ("AcoGeneration", Phase::Before) => {
                self.before_gen = snapshot(state, n);
                if self.before_gen.is_none() && state.contains::<PheromoneMatrix>() {
                    return self.fail("trail matrix is not an n x n matrix for the instance being solved", format!("n = {n}"));
                }
            }
            ("AcoGeneration", Phase::After) if ev.ok => {
                self.generations += 1;
                let Some(pm) = self.before_gen.take() else { return };
                let ps = state.populations();
                let Some(pop) = ps.get_current() else { return self.fail("generation leaves no population", String::new()) };
                if pop.len() != self.ants + 1 {
                    return self.fail("generation does not yield one greedy tour plus the requested sampled tours", format!("{} tours for {} ants", pop.len(), self.ants));
                }
                for (k, i) in pop.iter().enumerate() {
                    let t = i.solution();
                    if i.is_evaluated() {
                        return self.fail("generated tours are marked evaluated", format!("tour {k}"));
                    }
                    if t.len() != n || !is_permutation(t) || t.first() != Some(&0) {
                        return self.fail("generated tour is not a permutation of all cities starting at city 0", format!("tour {k}: {t:?} (n = {n})"));
                    }
                }
                // tour 0 is a greedy tour w.r.t. the matrix before the generation
                let g = pop[0].solution();
                let mut remaining: Vec<usize> = (1..n).collect();
                for w in g.windows(2) {
                    let (last, next) = (w[0], w[1]);
                    let best = remaining.iter().map(|r| pm[last][*r]).fold(f64::NEG_INFINITY, f64::max);
                    if pm[last][next] != best {
                        return self.fail("first tour is not greedy w.r.t. the pheromone matrix", format!("from city {last} the tour goes to {next} (trail {}) although a remaining city has trail {best}", pm[last][next]));
                    }
                    remaining.retain(|r| *r != next);
                }
            }
            ("AsPheromoneUpdate" | "MinMaxPheromoneUpdate", Phase::Before) => self.before_upd = snapshot(state, n),
            ("AsPheromoneUpdate" | "MinMaxPheromoneUpdate", Phase::After) if ev.ok => {
                self.updates += 1;
                let Some(before) = self.before_upd.take() else { return };
                let Some(after) = snapshot(state, n) else { return };
                let ps = state.populations();
                let Some(pop) = ps.get_current() else { return };
                // reference, in the same order of operations
                let mut want: Vec<Vec<f64>> = before.iter().map(|r| r.iter().map(|x| x * (1.0 - self.rho)).collect()).collect();
                let mut rewarded = vec![vec![0u32; n]; n];
                let tours: Vec<(&Vec<usize>, f64)> = pop.iter().skip(1).map(|i| (i.solution(), i.objective().value())).collect();
                match self.decay {
                    Some(decay) => {
                        for (t, o) in &tours {
                            let delta = decay / o;
                            for w in t.windows(2) {
                                want[w[0]][w[1]] += delta;
                                want[w[1]][w[0]] += delta;
                                rewarded[w[0]][w[1]] += 1;
                                rewarded[w[1]][w[0]] += 1;
                            }
                        }
                    }
                    None => {
                        // the best sampled tour (first minimum)
                        let mut best: Option<&(&Vec<usize>, f64)> = None;
                        for t in &tours {
                            if best.map_or(true, |b| t.1 < b.1) {
                                best = Some(t);
                            }
                        }
                        if let (Some((t, o)), Some((lo, hi))) = (best, self.bounds) {
                            let delta = 1.0 / o;
                            for w in t.windows(2) {
                                want[w[0]][w[1]] = (want[w[0]][w[1]] + delta).clamp(lo, hi);
                                want[w[1]][w[0]] = (want[w[1]][w[0]] + delta).clamp(lo, hi);
                                rewarded[w[0]][w[1]] += 1;
                                rewarded[w[1]][w[0]] += 1;
                            }
                        }
                    }
                }
                if rewarded.iter().flatten().any(|c| *c >= 2) {
                    self.shared_edge_updates += 1;
                }
                for i in 0..n {
                    for j in 0..n {
                        let a = after[i][j];
                        if !a.is_finite() || a < 0.0 {
                            return self.fail("trail not finite and non-negative after an update", format!("update #{}: trail[{i}][{j}] = {a}", self.updates));
                        }
                        if i != j {
                            self.min_trail_seen = self.min_trail_seen.min(a);
                        }
                        if let Some((lo, hi)) = self.bounds {
                            if i != j && (a < lo || a > hi) {
                                return self.fail(
                                    "max-min trail outside the configured bounds after an update",
                                    format!("update #{}: trail[{i}][{j}] = {a} outside [{lo}, {hi}] (edge rewarded in this update: {})", self.updates, rewarded[i][j] > 0),
                                );
                            }
                            // with bounds the reference below only applies to entries that stay inside them
                            let w = want[i][j].clamp(lo, hi);
                            if i != j && !ulp_close(a, w) {
                                return self.fail("pheromone update differs from evaporate-then-reinforce", format!("update #{}: trail[{i}][{j}] = {a}, expected {w} (before {}, evaporation {}, rewarded {} times)", self.updates, before[i][j], self.rho, rewarded[i][j]));
                            }
                        } else if !ulp_close(a, want[i][j]) {
                            return self.fail(
                                "pheromone update differs from evaporate-then-reinforce",
                                format!("update #{}: trail[{i}][{j}] = {a}, expected before * (1 - rho) + sum of rewards = {} (before {}, rho {}, rewarded {} times)", self.updates, want[i][j], before[i][j], self.rho, rewarded[i][j]),
                            );
                        }
                        if !ulp_close(after[i][j], after[j][i]) && rewarded[i][j] > 0 && ulp_close(before[i][j], before[j][i]) {
                            return self.fail("reinforcement is not symmetric", format!("update #{}: trail[{i}][{j}] = {} but trail[{j}][{i}] = {}", self.updates, after[i][j], after[j][i]));
                        }
                    }
                }
            }
            _ => {}
        }
    }
}

pub struct AcoRunCheck;

impl Check for AcoRunCheck {
    type Case = RunSpec;
    fn name(&self) -> String {
        "C19/aco-run".into()
    }
    fn classes(&self) -> &'static [&'static str] {
        &["update where >= 2 tours share an edge", ">= 50 iterations", "n >= 5", "max-min variant", "trails decayed below 1e-100", "very unequal distances", "configuration used on a smaller instance before", "run on the state left behind by a run on an instance of another size"]
    }
    fn oracle(&self, spec: &RunSpec) -> Outcome {
        let mut cl = 0;
        let r = run_oracle(spec, &mut cl);
        Outcome::new(cl & 1 != 0, cl, r)
    }
}

fn run_oracle(spec: &RunSpec, cl: &mut u64) -> Result<(), Failure> {
    let problem = tsp_of(&spec.inst);
    let n = spec.inst.dim();
    let (ants, rho, decay, bounds) = match &spec.tpl {
        Tpl::As { ants, rho, decay, .. } => (*ants, *rho, Some(*decay), None),
        Tpl::Mmas { ants, rho, max, min, .. } => (*ants, *rho, None, Some((*min, *max))),
        _ => return Ok(()),
    };
    if bounds.is_some() {
        *cl |= 8;
    }
    if n >= 5 {
        *cl |= 4;
    }
    if spec.iters >= 50 {
        *cl |= 2;
    }
    if matches!(spec.inst, Inst::Tsp { kind: 2 | 3, .. }) {
        *cl |= 32;
    }
    let cfg = match build_perm(&spec.tpl, spec.iters).unwrap() {
        Ok(c) => c,
        Err(e) => return soft_fail(Failure::new("C19 ACO constructor rejects valid parameters", format!("{spec:?}: {e:#}"))),
    };
    // one run in three: the configuration object was used on a smaller instance before (a configuration is a
    // description; nothing of an earlier run may stay behind in it)
    if spec.seed % 3 == 0 && n > 3 {
        let small = crate::fixtures::problems::TspP::generated(3.max(n - 2), 0, spec.seed ^ 0xABCD);
        let _ = crate::fixtures::run::run_plain(&cfg, &small, spec.seed, EvalKind::Sequential);
        *cl |= 64;
    }
    let audit = Arc::new(Mutex::new(A19 { n, ants, rho, decay, bounds, min_trail_seen: f64::INFINITY, ..Default::default() }));
    // one run in five is audited on the state an earlier run on an instance of ANOTHER size left behind (a caller that
    // drives a sequence of instances through `Configuration::run` on one state): the trail matrix is per run
    let res = if spec.seed % 5 == 3 {
        *cl |= 128;
        let other = crate::fixtures::problems::TspP::generated(if spec.seed % 2 == 0 { n + 2 } else { 3.max(n - 1).min(n + 1) + if n <= 3 { 1 } else { 0 } }, 0, spec.seed ^ 0x1234);
        crate::fixtures::run::run_observed_warm(&cfg, &other, &problem, spec.seed, EvalKind::Sequential, audit.clone())
    } else {
        run_observed_auto(&cfg, &problem, spec.seed, EvalKind::Sequential, audit.clone())
    };
    let a = audit.lock().unwrap();
    if a.shared_edge_updates > 0 {
        *cl |= 1;
    }
    if a.min_trail_seen < 1e-100 {
        *cl |= 16;
    }
    if let Some(f) = &a.failure {
        let mut f = f.clone();
        f.msg = format!("{spec:?}: {}", f.msg);
        return soft_fail(f);
    }
    if let Err(e) = res {
        let (al, be) = match &spec.tpl {
            Tpl::As { alpha, beta, .. } | Tpl::Mmas { alpha, beta, .. } => (*alpha, *beta),
            _ => (0.0, 0.0),
        };
        if matches!(spec.inst, Inst::Tsp { kind: 7, .. }) && al + be > 1.0 && e.contains("non-finite") {
            return soft_fail(Failure::new("C19 ACO sampling weights overflow on an instance in a unit of 1e-160 (alpha + beta > 1)", format!("{spec:?}: {e}")));
        }
        return soft_fail(Failure::new(format!("C19 ACO run fails: {}", crate::engine::sig_of_panic(&e.chars().take(60).collect::<String>())), format!("{spec:?}: {e}")));
    }
    if a.generations != spec.iters || a.updates != spec.iters {
        return Err(Failure::new("C19 number of generations/updates", format!("{spec:?}: {} generations, {} updates in {} iterations", a.generations, a.updates, spec.iters)));
    }
    Ok(())
}

/// Direct component cases on prepared pheromone matrices (including zeros and huge values).
#[derive(Clone, Debug, Serialize, Deserialize)]
pub struct DirectCase {
    pub n: usize,
    pub ants: usize,
    pub alpha: f64,
    pub beta: f64,
    /// matrix content: 0 all zero, 1 constant 1, 2 pseudo-random 1e-300..1e6 symmetric (larger trails are not reachable and overflow the sampling weights), 3 one dominant row, 4 constant 1e-320 (subnormal)
    pub matrix: u8,
    pub dist_kind: u8,
    pub seed: u64,
    /// 0: generation only; 1: generation + AS update; 2: generation + MMAS update
    pub update: u8,
    pub rho: f64,
}

pub struct DirectCheck;

impl Check for DirectCheck {
    type Case = DirectCase;
    fn name(&self) -> String {
        "C19/aco-components".into()
    }
    fn classes(&self) -> &'static [&'static str] {
        &["zero matrix", "extreme trail values", "with update", "n >= 5", "the generator first replays a script of edge-value words (derived from the seed)"]
    }
    fn oracle(&self, c: &DirectCase) -> Outcome {
        let mut cl = 0;
        if c.matrix % 5 == 0 {
            cl |= 1;
        }
        if c.matrix % 5 >= 2 {
            cl |= 2;
        }
        if c.update % 3 != 0 {
            cl |= 4;
        }
        if c.n >= 5 {
            cl |= 8;
        }
        if !crate::fixtures::script_of(c.seed).is_empty() {
            cl |= 16;
        }
        Outcome::new(cl & 3 != 0, cl, direct_oracle(c))
    }
}

fn direct_oracle(c: &DirectCase) -> Result<(), Failure> {
    let n = c.n;
    let problem = TspP::generated(n, c.dist_kind % 4, c.seed % 97);
    // what the current population holds before the generation replaces it: a placeholder, nothing, or more (evaluated)
    // tours than the colony has ants - e.g. the tours of a larger colony working on the same population
    let prior: Vec<Individual<TspP>> = match (c.seed >> 5) % 4 {
        0 => vec![Individual::new_unevaluated(vec![])],
        1 => vec![],
        k => (0..c.ants + 2 + (k as usize - 2) * (c.ants + 3)).map(|_| Individual::new((0..n).collect(), 1.0.try_into().unwrap())).collect(),
    };
    let mut st = crate::fixtures::state_with_scripted::<TspP>(vec![prior], c.seed);
    let gen = AcoGeneration::new::<TspP>(c.ants, c.alpha, c.beta, 1.0);
    gen.init(&problem, &mut st).map_err(|e| Failure::new("C19 init", format!("{e}")))?;
    {
        let mut pm = st.borrow_mut::<PheromoneMatrix>();
        let mut s = c.seed | 1;
        for i in 0..n {
            for j in i..n {
                s ^= s << 13;
                s ^= s >> 7;
                s ^= s << 17;
                let u = (s >> 11) as f64 / (1u64 << 53) as f64;
                let v = match c.matrix % 5 {
                    0 => 0.0,
                    1 => 1.0,
                    2 => 10f64.powf(-300.0 + 306.0 * u),
                    3 => {
                        if i == 0 {
                            1e6
                        } else {
                            1e-6
                        }
                    }
                    _ => 1e-320,
                };
                pm[i][j] = v;
                pm[j][i] = v;
            }
        }
    }
    // alpha large with extreme trails overflows the weights: keep the exponent moderate for extreme matrices (documented use: alpha, beta around 1-5)
    let audit = Arc::new(Mutex::new(A19 { n, ants: c.ants, rho: c.rho, decay: if c.update % 3 == 1 { Some(1.0) } else { None }, bounds: if c.update % 3 == 2 { Some((0.01, 10.0)) } else { None }, min_trail_seen: f64::INFINITY, ..Default::default() }));
    let mut a = audit.lock().unwrap();
    let fake = |name: &'static str, phase: Phase| -> (String, Phase) { (name.to_string(), phase) };
    let mut feed = |a: &mut A19, st: &State<TspP>, name: &str, phase: Phase, ok: bool| {
        let ev = StepEv { name, index: 0, len: 1, block: 0, phase, ok, enclosing: &[], ends_main_pass: false, starts_main_pass: false };
        a.step(&problem, st, &ev);
    };
    let _ = fake;
    feed(&mut a, &st, "AcoGeneration", Phase::Before, true);
    let r = catch(|| gen.execute(&problem, &mut st));
    match r {
        Ok(Ok(())) => {}
        Ok(Err(e)) => return soft_fail(Failure::new("C19 generation errs", format!("{c:?}: {e:#}"))),
        Err(p) => return soft_fail(Failure::new(format!("C19 generation panics: {}", crate::engine::sig_of_panic(&p.chars().take(50).collect::<String>())), format!("{c:?}: {p}"))),
    }
    feed(&mut a, &st, "AcoGeneration", Phase::After, true);
    if let Some(f) = a.failure.take() {
        return Err(Failure::new(f.sig, format!("{c:?}: {}", f.msg)));
    }
    if c.update % 3 != 0 {
        // evaluate the tours
        {
            let mut ps = st.populations_mut();
            for i in ps.current_mut().iter_mut() {
                let o = problem.f(i.solution());
                i.set_objective(o.try_into().unwrap());
            }
        }
        let (name, upd): (&str, Box<dyn Component<TspP>>) = if c.update % 3 == 1 { ("AsPheromoneUpdate", AsPheromoneUpdate::new::<TspP>(c.rho, 1.0)) } else { ("MinMaxPheromoneUpdate", MinMaxPheromoneUpdate::new::<TspP>(c.rho, 10.0, 0.01).unwrap()) };
        feed(&mut a, &st, name, Phase::Before, true);
        let r = catch(|| upd.execute(&problem, &mut st));
        if !matches!(r, Ok(Ok(()))) {
            return soft_fail(Failure::new("C19 pheromone update fails", format!("{c:?}: {r:?}")));
        }
        feed(&mut a, &st, name, Phase::After, true);
        if let Some(f) = a.failure.take() {
            return soft_fail(Failure::new(f.sig, format!("{c:?}: {}", f.msg)));
        }
    }
    Ok(())
}

fn aco_spec_strategy(max_iters: u32) -> impl Strategy<Value = RunSpec> {
    (19usize..21).prop_flat_map(move |i| {
        inst_strategy(Kind::Perm).prop_flat_map(move |inst| {
            let d = inst.dim();
            (tpl_strategy(i, d), Just(inst), prop_oneof![3 => 1u32..20, 1 => 50u32..=max_iters.max(51)], any::<u64>())
        })
    })
    .prop_map(|(mut tpl, inst, iters, seed)| {
        // see fixtures::run::run_spec_strategy: recorded finding D23, excluded by construction
        if let (Tpl::As { alpha, beta, .. } | Tpl::Mmas { alpha, beta, .. }, Inst::Tsp { kind: 7, .. }) = (&mut tpl, &inst) {
            *alpha = alpha.min(0.5);
            *beta = beta.min(0.5);
        }
        RunSpec { tpl, inst, iters, seed }
    })
}

pub fn run_all(ctx: &mut Ctx, replay: Option<&Path>) {
    ctx.rule("runs: ant_system and max_min_ant_system (through the hook constructors) over TSP n 3-8, five distance-matrix kinds incl. ratios of 1e9, one city 1e150 away (so (1/d)^beta underflows) and distances in a unit of 1e-18 (tour lengths far below f64::EPSILON), ants 1-8, alpha/beta in [0,5], default pheromone in {1e-6, 1, 1e3}, evaporation in {0, 0.01, 0.5, 0.99, 1}, decay / min-max bounds, 1-200 iterations (so trails reach the underflow region), seeds; audited at every generation (ants + 1 tours, unevaluated, permutations of all cities starting at 0, first tour greedy w.r.t. the matrix observed before) and every pheromone update (entry-wise equal within 4 ulp to evaporate-then-reinforce computed from the matrix snapshot and the rewarded tours in the same order, symmetric increments, finite and >= 0, max-min: all off-diagonal entries within [min, max]); one run in five audited on the state left behind by a run on an instance of another size; non-trivial = a run with an update in which >= 2 rewarded tours share an edge. components: generation (+ one update; the current population holding a placeholder, nothing, or more evaluated tours than the colony has ants beforehand) on prepared matrices for n 2-9 and occasionally 33-130 and 520 cities (a pheromone matrix of more than 2^18 entries) (all zero, constant, values from 1e-300 to 1e6, one dominant row, subnormal); distinct by case");
    ctx.assume("tour length = the problem's objective value of the tour (the harness TSP objective is the closed tour length + 1, strictly positive)");
    let r = AcoRunCheck;
    let d = DirectCheck;
    if let Some(p) = replay {
        let _ = ctx.replay_file(&r, p) || ctx.replay_file(&d, p);
        return;
    }
    ctx.regressions(&r);
    ctx.regressions(&d);
    ctx.exhaustive(
        &r,
        "directed probe of a recorded finding: ant system with alpha = beta = 1 on a 3-city instance in a unit of 1e-160",
        [RunSpec { tpl: Tpl::As { ants: 1, alpha: 1.0, beta: 1.0, tau0: 0.0, rho: 0.0, decay: 0.1 }, inst: Inst::Tsp { n: 3, kind: 7, seed: 557 }, iters: 2, seed: 0 }].into_iter(),
    );
    ctx.random(&r, aco_spec_strategy(ctx.tier.pick(80, 200)), ctx.tier.pick(8000, 40_000));
    ctx.random(
        &d,
        (prop_oneof![12 => (2usize..10).boxed(), 1 => proptest::sample::select(vec![33usize, 63, 64, 65, 66, 100, 130, 520]).boxed()], 1usize..9, prop_oneof![Just(0.0), Just(1.0), 0.0f64..3.0], prop_oneof![Just(0.0), Just(1.0), 0.0f64..3.0], 0u8..5, 0u8..5, any::<u64>(), 0u8..3, prop_oneof![Just(0.0), Just(0.5), Just(1.0), 0.0f64..=1.0]).prop_map(|(n, ants, alpha, beta, matrix, dist_kind, seed, update, rho)| DirectCase { n, ants, alpha, beta, matrix, dist_kind, seed, update, rho }),
        ctx.tier.pick(12_000, 60_000),
    );
}
