//! C02 — dynamic borrows: many readers xor one writer per (type, scope) cell; conflicts are errors;
//! multi-borrow yields distinct objects; `holding` puts the state back where it came from.

use std::{
    cell::{Ref, RefMut},
    ops::{Deref, DerefMut},
    path::Path,
};

use better_any::{Tid, TidAble};
use mahf::{CustomState, State, StateError, StateRegistry};
use proptest::prelude::*;
use serde::{Deserialize, Serialize};

use crate::{
    engine::{catch, Check, Ctx, Failure, Outcome},
    ensure_that, fail,
    fixtures::problems::RealP,
    props::c01::{self, Shortlex, T0, T1, T2},
    with_type,
};

// ---------------------------------------------------------------------------------------------
// (a) guard histories
// ---------------------------------------------------------------------------------------------

trait GuardLike {
    fn read(&self) -> i64;
    fn write(&mut self, v: i64) -> bool;
}
impl<'a, T: Deref<Target = i64>> GuardLike for Ref<'a, T> {
    fn read(&self) -> i64 {
        ***self
    }
    fn write(&mut self, _v: i64) -> bool {
        false
    }
}
impl<'a, T: DerefMut<Target = i64>> GuardLike for RefMut<'a, T> {
    fn read(&self) -> i64 {
        ***self
    }
    fn write(&mut self, v: i64) -> bool {
        ***self = v;
        true
    }
}
struct ValGuard<'a>(Ref<'a, i64>);
impl<'a> GuardLike for ValGuard<'a> {
    fn read(&self) -> i64 {
        *self.0
    }
    fn write(&mut self, _v: i64) -> bool {
        false
    }
}
struct ValGuardMut<'a>(RefMut<'a, i64>);
impl<'a> GuardLike for ValGuardMut<'a> {
    fn read(&self) -> i64 {
        *self.0
    }
    fn write(&mut self, v: i64) -> bool {
        *self.0 = v;
        true
    }
}

#[derive(Clone, Debug, Serialize, Deserialize, PartialEq)]
pub enum Acc {
    TryBorrow,
    TryBorrowMut,
    TryBorrowValue,
    TryBorrowValueMut,
}

#[derive(Clone, Debug, Serialize, Deserialize, PartialEq)]
pub enum Panicking {
    Borrow,
    BorrowMut,
    GetValue,
    BorrowValue,
    BorrowValueMut,
}

#[derive(Clone, Debug, Serialize, Deserialize, PartialEq)]
pub enum GOp {
    /// acquire a guard on type `t` starting the lookup `hops` scopes below the top
    Acquire(u8, u8, Acc),
    /// release the i-th live guard (index into the list of live guards, modulo)
    Release(u8),
    Read(u8),
    Write(u8, i64),
    SetValue(u8, i64),
    TryGetValue(u8, u8),
    /// the requirement check `requirements().require::<_, T>()`: presence is a matter of the scope stack only - live
    /// guards, shared or exclusive, on any instance do not make a present type "missing"
    Require(u8),
    /// panicking accessor, under catch_unwind; the guard (if any) is dropped immediately
    Panicky(u8, u8, Panicking),
}

/// layout[scope][type] = Some(value)
#[derive(Clone, Debug, Serialize, Deserialize)]
pub struct GuardCase {
    pub layout: Vec<[Option<i64>; 3]>,
    pub ops: Vec<GOp>,
}

#[derive(Clone, Default)]
struct Cell {
    readers: usize,
    writer: bool,
    value: i64,
}

pub struct GuardCheck;

fn err_is(e: &StateError, kind: &str) -> bool {
    match e {
        StateError::NotFound(_) => kind == "NotFound",
        StateError::BorrowConflictImm(..) => kind == "BorrowConflictImm",
        StateError::BorrowConflictMut(..) => kind == "BorrowConflictMut",
        StateError::MultipleBorrowConflict(_) => kind == "MultipleBorrowConflict",
        StateError::RequiredMissing(..) => kind == "RequiredMissing",
    }
}

fn nth_parent<'r>(r: &'r StateRegistry<'static>, hops: usize) -> Option<&'r StateRegistry<'static>> {
    let mut cur = r;
    for _ in 0..hops {
        cur = cur.parent()?;
    }
    Some(cur)
}

impl Check for GuardCheck {
    type Case = GuardCase;
    fn name(&self) -> String {
        "C02/guard-history".into()
    }
    fn classes(&self) -> &'static [&'static str] {
        &["refused request", ">=2 guards live on one cell", "same type held in two scopes", "write through exclusive guard then read", "panicking accessor refused", "request on parent scope", "not-found request", "requirement check while guards are live"]
    }
    fn oracle(&self, case: &GuardCase) -> Outcome {
        let mut classes = 0u64;
        let r = run_guards(case, &mut classes);
        let nt = (classes & 0b11 == 0b11) || (classes & 0b100 != 0);
        Outcome::new(nt, classes, r)
    }
}

fn run_guards(case: &GuardCase, classes: &mut u64) -> Result<(), Failure> {
    // mutation phase: build the scopes
    let depth = case.layout.len().clamp(1, 4);
    let mut reg = StateRegistry::new();
    let mut cells: Vec<[Option<Cell>; 3]> = Vec::new();
    for (s, row) in case.layout.iter().take(depth).enumerate() {
        if s > 0 {
            reg = reg.into_child();
        }
        let mut crow: [Option<Cell>; 3] = [None, None, None];
        for t in 0..3u8 {
            if let Some(v) = row[t as usize] {
                with_type!(t, T => { reg.insert(T::from(v)); });
                crow[t as usize] = Some(Cell { readers: 0, writer: false, value: v });
            }
        }
        cells.push(crow);
    }
    if cells.is_empty() {
        cells.push([None, None, None]);
    }
    let state: State<'static, RealP> = reg.into();
    let st: &State<'static, RealP> = &state;
    let top = cells.len() - 1;
    // live guards: (guard, type, scope, exclusive)
    let mut live: Vec<(Box<dyn GuardLike + '_>, u8, usize, bool)> = Vec::new();
    let holder = |cells: &Vec<[Option<Cell>; 3]>, t: u8, from_scope: usize| -> Option<usize> { (0..=from_scope).rev().find(|&s| cells[s][t as usize].is_some()) };

    for (i, op) in case.ops.iter().enumerate() {
        let at = format!("step {} {op:?}", i + 1);
        match op {
            GOp::Acquire(t, hops, acc) => {
                let t = *t % 3;
                let hops = (*hops as usize) % cells.len();
                if hops > 0 {
                    *classes |= 1 << 5;
                }
                let from = top - hops;
                let Some(r) = nth_parent(st, hops) else { fail!("C02 parent chain", "{at}: parent() chain shorter than the layout") };
                let h = holder(&cells, t, from);
                let excl = matches!(acc, Acc::TryBorrowMut | Acc::TryBorrowValueMut);
                let got: Result<Box<dyn GuardLike + '_>, StateError> = with_type!(t, T => match acc {
                    Acc::TryBorrow => r.try_borrow::<T>().map(|g| Box::new(g) as Box<dyn GuardLike>),
                    Acc::TryBorrowMut => r.try_borrow_mut::<T>().map(|g| Box::new(g) as Box<dyn GuardLike>),
                    Acc::TryBorrowValue => r.try_borrow_value::<T>().map(|g| Box::new(ValGuard(g)) as Box<dyn GuardLike>),
                    Acc::TryBorrowValueMut => r.try_borrow_value_mut::<T>().map(|g| Box::new(ValGuardMut(g)) as Box<dyn GuardLike>),
                });
                match h {
                    None => {
                        *classes |= 1 << 6;
                        match got {
                            Err(e) => ensure_that!(err_is(&e, "NotFound"), "C02 absent type error kind", "{at}: absent type reported as {e}"),
                            Ok(g) => fail!("C02 absent type granted", "{at}: granted a guard (value {}) for a type no scope holds", g.read()),
                        }
                    }
                    Some(s) => {
                        let cell = cells[s][t as usize].as_mut().unwrap();
                        let allowed = if excl { !cell.writer && cell.readers == 0 } else { !cell.writer };
                        match (got, allowed) {
                            (Ok(g), true) => {
                                ensure_that!(g.read() == cell.value, "C02 guard value", "{at}: guard reads {} but the last written value of cell (T{t}, scope {s}) is {}", g.read(), cell.value);
                                if excl {
                                    cell.writer = true;
                                } else {
                                    cell.readers += 1;
                                }
                                if cell.readers + cell.writer as usize >= 2 {
                                    *classes |= 1 << 1;
                                }
                                live.push((g, t, s, excl));
                                if live.iter().any(|(_, t2, s2, _)| *t2 == t && *s2 != s) {
                                    *classes |= 1 << 2;
                                }
                            }
                            (Err(e), false) => {
                                *classes |= 1;
                                let kind = if excl { "BorrowConflictMut" } else { "BorrowConflictImm" };
                                ensure_that!(err_is(&e, kind), "C02 conflict error kind", "{at}: conflicting request refused with {e} (expected {kind})");
                                if cell.readers + cell.writer as usize >= 2 {
                                    *classes |= 1 << 1;
                                }
                            }
                            (Ok(_), false) => fail!(
                                if excl { "C02 exclusive guard granted while held" } else { "C02 shared guard granted while exclusively held" },
                                "{at}: request granted although cell (T{t}, scope {s}) has {} readers and writer={}", cell.readers, cell.writer
                            ),
                            (Err(e), true) => fail!("C02 free cell refused", "{at}: request refused with {e} although cell (T{t}, scope {s}) has {} readers and writer={} (guards on other cells must not interfere)", cell.readers, cell.writer),
                        }
                    }
                }
            }
            GOp::Release(i) => {
                if live.is_empty() {
                    continue;
                }
                let k = (*i as usize) % live.len();
                let (g, t, s, excl) = live.remove(k);
                drop(g);
                let cell = cells[s][t as usize].as_mut().unwrap();
                if excl {
                    cell.writer = false;
                } else {
                    cell.readers -= 1;
                }
            }
            GOp::Read(i) => {
                if live.is_empty() {
                    continue;
                }
                let k = (*i as usize) % live.len();
                let (g, t, s, _) = &live[k];
                let want = cells[*s][*t as usize].as_ref().unwrap().value;
                ensure_that!(g.read() == want, "C02 guard value", "{at}: live guard on (T{t}, scope {s}) reads {} but the cell's last written value is {want}", g.read());
            }
            GOp::Write(i, v) => {
                if live.is_empty() {
                    continue;
                }
                let k = (*i as usize) % live.len();
                let (g, t, s, excl) = &mut live[k];
                let wrote = g.write(*v);
                ensure_that!(wrote == *excl, "C02 harness", "{at}: guard kind mismatch");
                if wrote {
                    cells[*s][*t as usize].as_mut().unwrap().value = *v;
                    *classes |= 1 << 3;
                }
            }
            GOp::SetValue(t, v) => {
                let t = *t % 3;
                let h = holder(&cells, t, top);
                let got = with_type!(t, T => st.set_value::<T>(*v));
                match h {
                    None => ensure_that!(got.is_none(), "C02 set_value absent", "{at}: set_value returned {got:?} for an absent type"),
                    Some(s) => {
                        let cell = cells[s][t as usize].as_mut().unwrap();
                        if cell.writer || cell.readers > 0 {
                            *classes |= 1;
                            ensure_that!(got.is_none(), "C02 set_value while borrowed", "{at}: set_value returned {got:?} although the cell is borrowed (readers {}, writer {})", cell.readers, cell.writer);
                        } else {
                            ensure_that!(got == Some(cell.value), "C02 set_value", "{at}: set_value returned {got:?}, previous value was {}", cell.value);
                            cell.value = *v;
                        }
                    }
                }
            }
            GOp::Require(t) => {
                let t = *t % 3;
                let present = holder(&cells, t, top).is_some();
                let got = with_type!(t, T => st.requirements().require::<crate::props::c03::LeafC, T>().is_ok());
                if present && cells.iter().any(|sc| sc[t as usize].as_ref().map_or(false, |c| c.writer || c.readers > 0)) {
                    *classes |= 128;
                }
                ensure_that!(got == present, "C02 requirement check depends on live guards", "{at}: require::<T{t}>() is_ok = {got}, the type is {} in the scope stack", if present { "present" } else { "absent" });
            }
            GOp::TryGetValue(t, hops) => {
                let t = *t % 3;
                let hops = (*hops as usize) % cells.len();
                let from = top - hops;
                let r = nth_parent(st, hops).unwrap();
                let h = holder(&cells, t, from);
                let got = with_type!(t, T => r.try_get_value::<T>());
                match h {
                    None => ensure_that!(matches!(&got, Err(e) if err_is(e, "NotFound")), "C02 absent type error kind", "{at}: {got:?}"),
                    Some(s) => {
                        let cell = cells[s][t as usize].as_ref().unwrap();
                        if cell.writer {
                            *classes |= 1;
                            ensure_that!(matches!(&got, Err(e) if err_is(e, "BorrowConflictImm")), "C02 read while exclusively held", "{at}: try_get_value = {got:?} while an exclusive guard is live");
                        } else {
                            ensure_that!(matches!(&got, Ok(v) if *v == cell.value), "C02 guard value", "{at}: try_get_value = {got:?}, last written {}", cell.value);
                        }
                    }
                }
            }
            GOp::Panicky(t, hops, which) => {
                let t = *t % 3;
                let hops = (*hops as usize) % cells.len();
                let from = top - hops;
                let r = nth_parent(st, hops).unwrap();
                let h = holder(&cells, t, from);
                let excl = matches!(which, Panicking::BorrowMut | Panicking::BorrowValueMut);
                let got: Result<i64, String> = catch(|| {
                    with_type!(t, T => match which {
                        Panicking::Borrow => r.borrow::<T>().0,
                        Panicking::BorrowMut => r.borrow_mut::<T>().0,
                        Panicking::GetValue => r.get_value::<T>(),
                        Panicking::BorrowValue => *r.borrow_value::<T>(),
                        Panicking::BorrowValueMut => *r.borrow_value_mut::<T>(),
                    })
                });
                let allowed = match h {
                    None => false,
                    Some(s) => {
                        let c = cells[s][t as usize].as_ref().unwrap();
                        if excl { !c.writer && c.readers == 0 } else { !c.writer }
                    }
                };
                match (got, allowed) {
                    (Ok(v), true) => {
                        let c = cells[h.unwrap()][t as usize].as_ref().unwrap();
                        ensure_that!(v == c.value, "C02 guard value", "{at}: read {v}, last written {}", c.value);
                    }
                    (Err(_), false) => *classes |= 1 << 4,
                    (Ok(v), false) => fail!("C02 panicking accessor granted conflicting/absent request", "{at}: returned {v} but the model refuses (holder {h:?})"),
                    (Err(p), true) => fail!("C02 panicking accessor panicked on free cell", "{at}: panicked: {p}"),
                }
            }
        }
    }
    // after releasing everything every cell is available again, with the last written value
    live.clear();
    for s in 0..cells.len() {
        for t in 0..3u8 {
            if cells[s][t as usize].is_some() {
                let r = nth_parent(st, top - s).unwrap();
                if holder(&cells, t, s) != Some(s) {
                    continue;
                }
                let want = cells[s][t as usize].as_ref().unwrap().value;
                let got = with_type!(t, T => r.try_borrow_mut::<T>().map(|g| g.0));
                ensure_that!(matches!(&got, Ok(v) if *v == want), "C02 cell unavailable after release", "after dropping all guards, try_borrow_mut on (T{t}, scope {s}) = {got:?}, expected Ok({want})");
            }
        }
    }
    Ok(())
}

fn guard_alphabet() -> Vec<GOp> {
    let mut a = Vec::new();
    for t in 0..2u8 {
        for hops in 0..2u8 {
            a.push(GOp::Acquire(t, hops, Acc::TryBorrow));
            a.push(GOp::Acquire(t, hops, Acc::TryBorrowMut));
        }
        a.push(GOp::SetValue(t, 40 + t as i64));
        if t < 2 {
            a.push(GOp::Require(t));
        }
        a.push(GOp::Panicky(t, 0, Panicking::BorrowMut));
        a.push(GOp::Panicky(t, 0, Panicking::GetValue));
    }
    a.push(GOp::Acquire(0, 0, Acc::TryBorrowValueMut));
    a.push(GOp::Acquire(1, 1, Acc::TryBorrowValue));
    for i in 0..3u8 {
        a.push(GOp::Release(i));
    }
    a.push(GOp::Write(0, 77));
    a.push(GOp::Write(1, 78));
    a.push(GOp::Read(0));
    a
}

fn acc_strategy() -> impl Strategy<Value = Acc> {
    prop_oneof![Just(Acc::TryBorrow), Just(Acc::TryBorrowMut), Just(Acc::TryBorrowValue), Just(Acc::TryBorrowValueMut)]
}

fn gop_strategy() -> impl Strategy<Value = GOp> {
    prop_oneof![
        8 => (0u8..3, 0u8..4, acc_strategy()).prop_map(|(t, h, a)| GOp::Acquire(t, h, a)),
        4 => (0u8..8).prop_map(GOp::Release),
        2 => (0u8..8).prop_map(GOp::Read),
        3 => (0u8..8, 0i64..100).prop_map(|(i, v)| GOp::Write(i, v)),
        2 => (0u8..3, 0i64..100).prop_map(|(t, v)| GOp::SetValue(t, v)),
        1 => (0u8..3).prop_map(GOp::Require),
        2 => (0u8..3, 0u8..4).prop_map(|(t, h)| GOp::TryGetValue(t, h)),
        2 => (0u8..3, 0u8..4, prop_oneof![Just(Panicking::Borrow), Just(Panicking::BorrowMut), Just(Panicking::GetValue), Just(Panicking::BorrowValue), Just(Panicking::BorrowValueMut)]).prop_map(|(t, h, w)| GOp::Panicky(t, h, w)),
    ]
}

fn layout_strategy() -> impl Strategy<Value = Vec<[Option<i64>; 3]>> {
    let cell = prop_oneof![1 => Just(None), 2 => (0i64..30).prop_map(Some)];
    proptest::collection::vec([cell.clone(), cell.clone(), cell], 1..4)
}

// ---------------------------------------------------------------------------------------------
// (b) multi-borrow
// ---------------------------------------------------------------------------------------------

macro_rules! m_type {
    ($n:ident) => {
        #[derive(Tid)]
        pub struct $n(pub i64);
        impl CustomState<'_> for $n {}
        impl From<i64> for $n {
            fn from(v: i64) -> Self {
                $n(v)
            }
        }
    };
}
m_type!(M0);
m_type!(M1);
m_type!(M2);
m_type!(M3);
m_type!(M4);
m_type!(M5);
m_type!(M6);
m_type!(M7);

macro_rules! with_m {
    ($t:expr, $T:ident => $body:expr) => {
        match $t {
            0 => { type $T = M0; $body }
            1 => { type $T = M1; $body }
            2 => { type $T = M2; $body }
            3 => { type $T = M3; $body }
            4 => { type $T = M4; $body }
            5 => { type $T = M5; $body }
            6 => { type $T = M6; $body }
            _ => { type $T = M7; $body }
        }
    };
}

#[derive(Debug)]
pub enum TupleOutcome {
    Ok { addrs: Vec<usize>, reads: Vec<i64> },
    Err(&'static str),
}

fn err_kind(e: &StateError) -> &'static str {
    match e {
        StateError::NotFound(_) => "NotFound",
        StateError::BorrowConflictImm(..) => "BorrowConflictImm",
        StateError::BorrowConflictMut(..) => "BorrowConflictMut",
        StateError::MultipleBorrowConflict(_) => "MultipleBorrowConflict",
        StateError::RequiredMissing(..) => "RequiredMissing",
    }
}

fn finish(addrs: Vec<usize>, reads: Vec<i64>, muts: &mut [&mut i64]) -> TupleOutcome {
    for (i, m) in muts.iter_mut().enumerate() {
        **m = 1000 + i as i64;
    }
    TupleOutcome::Ok { addrs, reads }
}

include!(concat!(env!("OUT_DIR"), "/multi_gen.rs"));

/// layout[scope] = bitmask of the 8 types present in that scope; value of (type t, scope s) = 10*s + t
#[derive(Clone, Debug, Serialize, Deserialize)]
pub struct MultiCase {
    pub tuple: usize,
    pub layout: Vec<u8>,
    pub panicking: bool,
}

pub struct MultiCheck;

impl Check for MultiCheck {
    type Case = MultiCase;
    fn name(&self) -> String {
        "C02/multi-borrow".into()
    }
    fn classes(&self) -> &'static [&'static str] {
        &["tuple with duplicate type", "tuple with missing type", "arity>=5", "all distinct and present", "types spread over >=2 scopes", "shadowed instance of a requested type", "panicking variant"]
    }
    fn oracle(&self, case: &MultiCase) -> Outcome {
        let mut classes = 0;
        let r = run_multi(case, &mut classes);
        let nt = classes & 0b111 != 0 || classes & (1 << 5) != 0;
        Outcome::new(nt, classes, r)
    }
}

fn run_multi(case: &MultiCase, classes: &mut u64) -> Result<(), Failure> {
    let (types, f) = TUPLES[case.tuple % TUPLES.len()];
    let layout: Vec<u8> = case.layout.iter().take(3).cloned().collect();
    let layout = if layout.is_empty() { vec![0] } else { layout };
    let mut reg = StateRegistry::new();
    for (s, mask) in layout.iter().enumerate() {
        if s > 0 {
            reg = reg.into_child();
        }
        for t in 0..8u8 {
            if mask & (1 << t) != 0 {
                with_m!(t, T => { reg.insert(T::from((10 * s + t as usize) as i64)); });
            }
        }
    }
    let holder = |t: u8| -> Option<usize> { (0..layout.len()).rev().find(|&s| layout[s] & (1 << t) != 0) };
    let dup = (0..types.len()).any(|i| (0..i).any(|j| types[i] == types[j]));
    let missing = types.iter().any(|t| holder(*t).is_none());
    if dup {
        *classes |= 1;
    }
    if missing {
        *classes |= 2;
    }
    if types.len() >= 5 {
        *classes |= 4;
    }
    if !dup && !missing {
        *classes |= 8;
    }
    let holders: std::collections::BTreeSet<_> = types.iter().filter_map(|t| holder(*t)).collect();
    if holders.len() >= 2 {
        *classes |= 16;
    }
    if types.iter().any(|t| (0..layout.len()).filter(|&s| layout[s] & (1 << t) != 0).count() >= 2) {
        *classes |= 32;
    }
    if case.panicking {
        *classes |= 64;
    }
    let at = format!("tuple {types:?} on layout {layout:?}");
    let out = if case.panicking {
        match catch(|| f(&mut reg, true)) {
            Ok(o) => o,
            Err(_) => TupleOutcome::Err("panic"),
        }
    } else {
        f(&mut reg, false)
    };
    match (&out, dup, missing) {
        (TupleOutcome::Err(k), true, false) => ensure_that!(*k == "MultipleBorrowConflict" || *k == "panic", "C02 multi-borrow duplicate error kind", "{at}: duplicate type reported as {k}"),
        (TupleOutcome::Err(k), false, true) => ensure_that!(*k == "NotFound" || *k == "panic", "C02 multi-borrow missing error kind", "{at}: missing type reported as {k}"),
        (TupleOutcome::Err(_), true, true) => {}
        (TupleOutcome::Ok { .. }, true, _) => fail!("C02 multi-borrow granted with repeated type", "{at}: returned references although a type repeats"),
        (TupleOutcome::Ok { .. }, false, true) => fail!("C02 multi-borrow granted with missing type", "{at}: returned references although a type is missing"),
        (TupleOutcome::Err(k), false, false) => fail!("C02 multi-borrow refused valid tuple", "{at}: refused with {k} although all types are distinct and present"),
        (TupleOutcome::Ok { addrs, reads }, false, false) => {
            for i in 0..addrs.len() {
                for j in 0..i {
                    ensure_that!(addrs[i] != addrs[j], "C02 multi-borrow aliasing", "{at}: references {j} and {i} point to the same object");
                }
            }
            for (i, t) in types.iter().enumerate() {
                let s = holder(*t).unwrap();
                let want = (10 * s + *t as usize) as i64;
                ensure_that!(reads[i] == want, "C02 multi-borrow resolves wrong instance", "{at}: reference {i} (type M{t}) read {} but the innermost instance (scope {s}) holds {want}", reads[i]);
            }
        }
    }
    // re-read everything: only the innermost instance of each tuple type may have changed
    let granted = matches!(out, TupleOutcome::Ok { .. });
    let mut level: Option<&StateRegistry> = Some(&reg);
    let mut s = layout.len();
    while let Some(r) = level {
        s -= 1;
        for t in 0..8u8 {
            if layout[s] & (1 << t) == 0 {
                let ct = with_m!(t, T => r.contains_at_top::<T>());
                ensure_that!(!ct, "C02 multi-borrow invented state", "{at}: type M{t} appeared in scope {s}");
                continue;
            }
            // read this scope's own instance: find resolves from r
            let got = with_m!(t, T => r.try_borrow::<T>().map(|g| g.0));
            let orig = (10 * s + t as usize) as i64;
            let want = if granted && holder(t) == Some(s) {
                match types.iter().position(|x| *x == t) {
                    Some(i) => 1000 + i as i64,
                    None => orig,
                }
            } else {
                orig
            };
            ensure_that!(matches!(&got, Ok(v) if *v == want), "C02 multi-borrow write lands elsewhere", "{at}: after writing through the references, (M{t}, scope {s}) = {got:?}, expected {want}");
        }
        level = r.parent();
    }
    Ok(())
}

// ---------------------------------------------------------------------------------------------
// (b') multi-borrow over zero-sized state types (marker states): distinct types are distinct states even when their
// instances have no size (and hence no distinguishable address)
// ---------------------------------------------------------------------------------------------

#[derive(Tid, Default)]
pub struct Z0;
impl CustomState<'_> for Z0 {}
#[derive(Tid, Default)]
pub struct Z1;
impl CustomState<'_> for Z1 {}
#[derive(Tid, Default)]
pub struct Z2;
impl CustomState<'_> for Z2 {}

/// tuple index into `ZST_TUPLES`; layout[scope] = bitmask over (Z0, Z1, Z2, M0)
#[derive(Clone, Debug, Serialize, Deserialize)]
pub struct ZstCase {
    pub tuple: usize,
    pub layout: Vec<u8>,
}

macro_rules! zst_tuple {
    ($reg:expr, $($T:ty),+) => {
        $reg.try_get_multiple_mut::<($($T),+)>().map(|_| ()).map_err(|e| err_kind(&e))
    };
}

/// (types as universe indices 0=Z0 1=Z1 2=Z2 3=M0, instantiation)
#[allow(clippy::type_complexity)]
static ZST_TUPLES: &[(&[u8], fn(&mut StateRegistry<'static>) -> Result<(), &'static str>)] = &[
    (&[0, 1], |r| zst_tuple!(r, Z0, Z1)),
    (&[1, 0], |r| zst_tuple!(r, Z1, Z0)),
    (&[0, 0], |r| zst_tuple!(r, Z0, Z0)),
    (&[0, 1, 2], |r| zst_tuple!(r, Z0, Z1, Z2)),
    (&[0, 3], |r| zst_tuple!(r, Z0, M0)),
    (&[3, 0, 1], |r| zst_tuple!(r, M0, Z0, Z1)),
    (&[0, 3, 1, 2], |r| zst_tuple!(r, Z0, M0, Z1, Z2)),
    (&[0, 1, 0], |r| zst_tuple!(r, Z0, Z1, Z0)),
    (&[2, 1, 2], |r| zst_tuple!(r, Z2, Z1, Z2)),
    (&[2, 3], |r| zst_tuple!(r, Z2, M0)),
];

pub struct ZstCheck;

impl Check for ZstCheck {
    type Case = ZstCase;
    fn name(&self) -> String {
        "C02/multi-borrow-zero-sized".into()
    }
    fn classes(&self) -> &'static [&'static str] {
        &["duplicate", "missing", "all distinct and present", ">= 2 zero-sized types granted together", "spread over >= 2 scopes"]
    }
    fn oracle(&self, case: &ZstCase) -> Outcome {
        let (types, f) = ZST_TUPLES[case.tuple % ZST_TUPLES.len()];
        let layout: Vec<u8> = if case.layout.is_empty() { vec![0] } else { case.layout.iter().take(3).cloned().collect() };
        let mut reg = StateRegistry::new();
        for (s, mask) in layout.iter().enumerate() {
            if s > 0 {
                reg = reg.into_child();
            }
            if mask & 1 != 0 {
                reg.insert(Z0);
            }
            if mask & 2 != 0 {
                reg.insert(Z1);
            }
            if mask & 4 != 0 {
                reg.insert(Z2);
            }
            if mask & 8 != 0 {
                reg.insert(M0(s as i64));
            }
        }
        let holder = |t: u8| -> Option<usize> { (0..layout.len()).rev().find(|&s| layout[s] & (1 << t) != 0) };
        let dup = (0..types.len()).any(|i| (0..i).any(|j| types[i] == types[j]));
        let missing = types.iter().any(|t| holder(*t).is_none());
        let mut classes = 0u64;
        if dup {
            classes |= 1;
        }
        if missing {
            classes |= 2;
        }
        if !dup && !missing {
            classes |= 4;
            if types.iter().filter(|t| **t < 3).count() >= 2 {
                classes |= 8;
            }
        }
        if types.iter().filter_map(|t| holder(*t)).collect::<std::collections::BTreeSet<_>>().len() >= 2 {
            classes |= 16;
        }
        let at = format!("zero-sized tuple {types:?} (0..2 = zero-sized marker states, 3 = M0) on layout {layout:?}");
        let out = f(&mut reg);
        let r = (|| -> Result<(), Failure> {
            match (&out, dup, missing) {
                (Err(k), true, false) => ensure_that!(*k == "MultipleBorrowConflict", "C02 multi-borrow duplicate error kind", "{at}: duplicate type reported as {k}"),
                (Err(k), false, true) => ensure_that!(*k == "NotFound", "C02 multi-borrow missing error kind", "{at}: missing type reported as {k}"),
                (Err(_), true, true) => {}
                (Ok(()), true, _) => fail!("C02 multi-borrow granted with repeated type", "{at}: returned references although a type repeats"),
                (Ok(()), false, true) => fail!("C02 multi-borrow granted with missing type", "{at}: returned references although a type is missing"),
                (Err(k), false, false) => fail!("C02 multi-borrow refused valid tuple", "{at}: refused with {k} although all types are distinct and present"),
                (Ok(()), false, false) => {}
            }
            // nothing was added or removed
            let mut level: Option<&StateRegistry> = Some(&reg);
            let mut s = layout.len();
            while let Some(r) = level {
                s -= 1;
                let got = [r.contains_at_top::<Z0>(), r.contains_at_top::<Z1>(), r.contains_at_top::<Z2>(), r.contains_at_top::<M0>()];
                for (t, g) in got.iter().enumerate() {
                    ensure_that!(*g == (layout[s] & (1 << t) != 0), "C02 multi-borrow changed the registry", "{at}: presence of type {t} in scope {s} is {g} after the call");
                }
                level = r.parent();
            }
            Ok(())
        })();
        Outcome::new(classes & 0b1011 != 0, classes, r)
    }
}

// ---------------------------------------------------------------------------------------------
// (b'') multi-borrow over two different state types that have the same `type_name` (same struct name declared in two
// blocks of one function, as macros and helper functions produce them): identity of a state type is its TypeId
// ---------------------------------------------------------------------------------------------

#[derive(Clone, Debug, Serialize, Deserialize)]
pub struct SameNameCase {
    /// request the repeated tuple (A, A) before the distinct tuple (A, B)
    pub repeated_first: bool,
    pub arity3: bool,
}

pub struct SameNameCheck;

fn same_name_requests(repeated_first: bool, arity3: bool) -> Result<(), String> {
    #[derive(Tid)]
    struct Counter(i64);
    impl CustomState<'_> for Counter {}
    type A = Counter;
    {
        #[derive(Tid)]
        struct Counter(i64);
        impl CustomState<'_> for Counter {}
        type B = Counter;
        if std::any::type_name::<A>() != std::any::type_name::<B>() {
            return Err(format!("harness: the two types are expected to share their type_name ({} vs {})", std::any::type_name::<A>(), std::any::type_name::<B>()));
        }
        let mut reg = StateRegistry::new();
        reg.insert(A { 0: 1 });
        reg.insert(B { 0: 2 });
        reg.insert(M0(3));
        let mut distinct = |reg: &mut StateRegistry| -> Result<(), String> {
            if arity3 {
                match reg.try_get_multiple_mut::<(A, M0, B)>() {
                    Ok((a, m, b)) => {
                        if (a.0, m.0, b.0) != (1, 3, 2) {
                            return Err(format!("(A, M0, B) resolved to values {:?}", (a.0, m.0, b.0)));
                        }
                        Ok(())
                    }
                    Err(e) => Err(format!("(A, M0, B) - three different state types - was refused: {e}")),
                }
            } else {
                match reg.try_get_multiple_mut::<(A, B)>() {
                    Ok((a, b)) => {
                        if (a.0, b.0) != (1, 2) {
                            return Err(format!("(A, B) resolved to values {:?}", (a.0, b.0)));
                        }
                        Ok(())
                    }
                    Err(e) => Err(format!("(A, B) - two different state types with the same type name - was refused: {e}")),
                }
            }
        };
        let mut repeated = |reg: &mut StateRegistry| -> Result<(), String> {
            let granted = if arity3 { reg.try_get_multiple_mut::<(A, M0, A)>().is_ok() } else { reg.try_get_multiple_mut::<(A, A)>().is_ok() };
            // the same request through the public trait method the registry methods are built on
            let granted = granted
                || if arity3 {
                    <(A, M0, A) as mahf::state::registry::MultiStateTuple>::try_get_mut(reg).is_ok()
                } else {
                    <(A, A) as mahf::state::registry::MultiStateTuple>::try_get_mut(reg).is_ok()
                };
            if granted {
                Err("a tuple that repeats a state type was granted (two mutable references to one object)".into())
            } else {
                Ok(())
            }
        };
        if repeated_first {
            repeated(&mut reg)?;
            distinct(&mut reg)?;
            repeated(&mut reg)
        } else {
            distinct(&mut reg)?;
            repeated(&mut reg)?;
            distinct(&mut reg)
        }
    }
}

impl Check for SameNameCheck {
    type Case = SameNameCase;
    fn name(&self) -> String {
        "C02/multi-borrow-same-type-name".into()
    }
    fn oracle(&self, c: &SameNameCase) -> Outcome {
        // a fresh thread per case: nothing a previous request left behind (in the thread) can help or hurt
        let (rf, a3) = (c.repeated_first, c.arity3);
        let r = std::thread::spawn(move || same_name_requests(rf, a3)).join();
        let res = match r {
            Ok(Ok(())) => Ok(()),
            Ok(Err(e)) => Err(Failure::new(if e.contains("refused") { "C02 multi-borrow refused valid tuple" } else { "C02 multi-borrow granted with repeated type" }, format!("two state types named alike, {c:?}: {e}"))),
            Err(_) => Err(Failure::new("C02 multi-borrow panics", format!("{c:?}"))),
        };
        Outcome::new(true, 0, res)
    }
}

// ---------------------------------------------------------------------------------------------
// (c) holding
// ---------------------------------------------------------------------------------------------

pub struct HoldCheck;

impl Check for HoldCheck {
    type Case = Vec<c01::Op>;
    fn name(&self) -> String {
        "C02/holding".into()
    }
    fn classes(&self) -> &'static [&'static str] {
        &["", "", "", "", "", "with_inner_state inside", "", "", "holding", "failure at nesting depth >= 1", "nested holding", "holding of absent type", "held type lives in a parent scope", "failing holding", "held type inserted into an intermediate scope while held"]
    }
    fn oracle(&self, ops: &Vec<c01::Op>) -> Outcome {
        let mut ex = c01::Exec::new();
        let mut r = Ok(());
        for (i, op) in ops.iter().enumerate() {
            let at = format!("step {}", i + 1);
            r = ex.apply(op, &at).and_then(|_| c01::probe(&ex.state, &ex.model, &format!("{at} after {op:?}")));
            if r.is_err() {
                break;
            }
        }
        let nt = ex.classes & c01::CL_HOLD_FAIL_DEPTH1 != 0 || (ex.classes & c01::CL_HOLD_FAIL != 0 && ex.classes & c01::CL_HOLD_PARENT_SCOPE != 0);
        Outcome::new(nt, ex.classes, r)
    }
}

fn hold_body_strategy() -> impl Strategy<Value = c01::Op> {
    let leaf = prop_oneof![
        6 => c01::flat_op_strategy(),
        2 => (0i64..50).prop_map(c01::Op::WriteHeld),
    ];
    leaf.prop_recursive(3, 32, 6, |inner| {
        prop_oneof![
            4 => c01::flat_op_strategy(),
            1 => (0i64..50).prop_map(c01::Op::WriteHeld),
            3 => (0u8..4, proptest::collection::vec(inner.clone(), 0..6), any::<bool>()).prop_map(|(t, b, f)| c01::Op::Hold(t, b, f)),
            1 => (proptest::collection::vec(inner, 0..5), any::<bool>()).prop_map(|(b, f)| c01::Op::WithInner(b, f)),
        ]
    })
}

/// Exhaustive: nestings up to depth 3 over 3 types living in different scopes, failure injected at depth 0..3 or nowhere.
fn hold_exhaustive() -> Vec<Vec<c01::Op>> {
    use c01::Op;
    let mut cases = Vec::new();
    // layouts: which scope each type lives in (scopes 0..3), T0 additionally shadowed
    let setups: Vec<Vec<Op>> = vec![
        vec![Op::Insert(0, 1), Op::Insert(1, 2), Op::Insert(2, 3)],
        vec![Op::Insert(0, 1), Op::Push, Op::Insert(1, 2), Op::Push, Op::Insert(2, 3)],
        vec![Op::Insert(0, 1), Op::Insert(2, 3), Op::Push, Op::Insert(0, 5), Op::Insert(1, 2), Op::Push],
        vec![Op::Insert(1, 2), Op::Push, Op::Insert(0, 1), Op::Push, Op::Push, Op::Insert(2, 3)],
    ];
    let bodies: Vec<Vec<Op>> = vec![
        vec![],
        vec![Op::WriteHeld(9)],
        vec![Op::SetValue(1, 8), Op::WriteHeld(9), Op::Remove(2)],
        vec![Op::WithInner(vec![Op::Insert(0, 33), Op::SetValue(1, 7)], false), Op::WriteHeld(4)],
        vec![Op::WithInner(vec![Op::Insert(0, 33)], true)],
        vec![Op::InsertAt(1, 0, 44), Op::InsertAt(1, 1, 45), Op::InsertAt(2, 2, 46)],
        vec![Op::InsertAt(1, 1, 45), Op::WithInner(vec![Op::InsertAt(2, 0, 47)], false)],
    ];
    for setup in &setups {
        for order in [[0u8, 1, 2], [2, 1, 0], [1, 0, 2], [0, 0, 1], [1, 1, 1], [3, 0, 1]] {
            for depth in 1..=3usize {
                for fail_at in 0..=depth {
                    // fail_at == depth -> no failure; otherwise the closure at nesting level `fail_at` fails
                    for body in &bodies {
                        let mut inner: Vec<Op> = body.clone();
                        for lvl in (0..depth).rev() {
                            let fails = fail_at == lvl;
                            let mut b = vec![Op::WriteHeld(20 + lvl as i64)];
                            b.extend(inner);
                            inner = vec![Op::Hold(order[lvl], b, fails)];
                        }
                        let mut case = setup.clone();
                        case.extend(inner);
                        case.push(Op::Pop);
                        cases.push(case);
                    }
                }
            }
        }
    }
    cases
}

pub fn run_all(ctx: &mut Ctx, replay: Option<&Path>) {
    ctx.rule("three generators: (a) guard histories — a layout of 3 types over <= 3 scopes, then acquire/release/read/write/set_value/try_get_value/panicking accessors through &State, checked against a readers/writer automaton per (type, scope) cell; non-trivial = >= 2 guards live on one cell with >= 1 refused request, or the same type held in two scopes; (b) multi-borrow — a generated tuple instantiation of try_get_multiple_mut (all 117 tuples of arity 2-4 over 3 types; structured tuples of arity 5-8 over 8 types) against a layout of the 8 types over 1-3 scopes; non-trivial = duplicate / missing / arity >= 5 / shadowed instance; (b') the same over tuples that contain zero-sized marker state types (distinct types are distinct states although their instances have no distinguishable address), exhaustive over the layouts; (b'') two different state types with the same type name: (A, B) granted, (A, A) refused - through the registry method and through the public MultiStateTuple::try_get_mut it is built on - in both orders; (c) holding — registry histories with nested State::holding (depth <= 3) with bodies that are registry sub-histories and injected failures; non-trivial = failure at nesting depth >= 1, or a failing holding of a type living in a parent scope; distinct by case");
    ctx.assume("a holding body keeps the scope depth balanced; when it inserts the held type into the very cell the held instance was taken from, the put-back replaces that instance (what was written through the held instance is what later readers see)");
    ctx.assume("when a tuple both repeats a type and misses one, any error is accepted");
    let g = GuardCheck;
    let m = MultiCheck;
    let h = HoldCheck;
    let z = ZstCheck;
    if let Some(p) = replay {
        let _ = ctx.replay_file(&g, p) || ctx.replay_file(&m, p) || ctx.replay_file(&h, p) || ctx.replay_file(&z, p);
        return;
    }
    ctx.regressions(&z);
    ctx.regressions(&g);
    ctx.regressions(&m);
    ctx.regressions(&h);
    // (a)
    let layout = vec![[Some(1), Some(2), None], [Some(3), None, None]];
    let l = ctx.tier.pick(4, 5);
    let lay = layout.clone();
    ctx.exhaustive(&g, &format!("all guard histories of length <= {l} over a 22-operation alphabet on a fixed layout (T0 in scopes 0 and 1, T1 in scope 0)"), Shortlex::new(guard_alphabet(), l).map(move |ops| GuardCase { layout: lay.clone(), ops }));
    let n = ctx.tier.pick(3000, 50_000);
    ctx.random(&g, (layout_strategy(), proptest::collection::vec(gop_strategy(), 0..60)).prop_map(|(layout, ops)| GuardCase { layout, ops }), n);
    // (b)
    let ntuples = TUPLES.len();
    let mut layouts: Vec<Vec<u8>> = vec![vec![0xFF], vec![0x07], vec![0x03, 0x04], vec![0x01, 0x02, 0x04], vec![0xFF, 0x01], vec![0x0F, 0xF0], vec![0x55, 0xAA, 0x01], vec![0xFE], vec![0x7F], vec![0x06], vec![0xFF, 0xFF, 0xFF]];
    if ctx.tier == crate::engine::Tier::Thorough {
        for a in [0x01u8, 0x13, 0x80, 0xF7, 0xEF] {
            for b in [0x00u8, 0x02, 0xFF] {
                layouts.push(vec![a, b]);
                layouts.push(vec![b, a, 0x04]);
            }
        }
    }
    let lays = layouts.clone();
    ctx.exhaustive(
        &m,
        &format!("all {ntuples} generated tuple instantiations x {} registry layouts x {{try_, panicking}}", layouts.len()),
        (0..ntuples).flat_map(move |t| {
            let lays = lays.clone();
            lays.into_iter().flat_map(move |l| [false, true].into_iter().map({
                let l = l.clone();
                move |p| MultiCase { tuple: t, layout: l.clone(), panicking: p }
            }).collect::<Vec<_>>())
        }),
    );
    let n = ctx.tier.pick(2000, 40_000);
    ctx.random(&m, (0..ntuples, proptest::collection::vec(any::<u8>(), 1..4), any::<bool>()).prop_map(|(tuple, layout, panicking)| MultiCase { tuple, layout, panicking }), n);
    // (b')
    let nz = ZST_TUPLES.len();
    ctx.exhaustive(
        &z,
        &format!("all {nz} tuple instantiations mixing zero-sized marker states and a sized state x all layouts of the 4 types over 1 or 2 scopes (16 + 256)"),
        (0..nz).flat_map(|t| {
            let one = (0..16u8).map(move |a| ZstCase { tuple: t, layout: vec![a] });
            let two = (0..16u8).flat_map(move |a| (0..16u8).map(move |b| ZstCase { tuple: t, layout: vec![a, b] }));
            one.chain(two).collect::<Vec<_>>()
        }),
    );
    // the typed accessors of State under a live exclusive guard, on deep stacks (shared with C01)
    let acc = crate::props::c01::HelperCheck;
    ctx.exhaustive(&acc, "typed State accessors under a live exclusive guard: layouts of 1-3 scopes", (1usize..4).flat_map(|len| (0..5usize.pow(len as u32)).map(move |code| crate::props::c01::HelperCase { layout: (0..len).map(|i| ((code / 5usize.pow(i as u32)) % 5) as u8).collect(), writer: true, extra_depth: (code % 3) as u16 })));
    let sn = SameNameCheck;
    ctx.regressions(&sn);
    ctx.exhaustive(&sn, "request order {distinct first, repeated first} x arity {2, 3}, each in a fresh thread", [false, true].into_iter().flat_map(|a| [false, true].into_iter().map(move |b| SameNameCase { repeated_first: a, arity3: b })));
    // (c)
    ctx.exhaustive(&h, "4 scope layouts x 6 type orders x nesting depth 1..3 x failure at each depth or nowhere x 5 bodies", hold_exhaustive().into_iter());
    let n = ctx.tier.pick(3000, 50_000);
    ctx.random(&h, proptest::collection::vec(hold_body_strategy(), 0..30), n);
    let _ = (T0(0), T1(0), T2(0));
}
