//! Verification harness for mahf: property-based testing and fuzzing (see /verif/DESIGN.md).
#![allow(clippy::type_complexity, clippy::too_many_arguments)]

pub mod engine;
pub mod fixtures;
pub mod fuzz;
pub mod props;
