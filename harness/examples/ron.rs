use vharness::fixtures::{problems::*, run::*};
fn main() {
    let t = Tpl::RealGa { pop: 4, tour: 2, pm: 0.5, dev: 0.1, pc: 0.8 };
    let cfg = build_real(&t, 2).unwrap().unwrap();
    let r = cfg.to_ron("/verif/target/x.ron");
    println!("{:?}", r.map_err(|e| format!("{e:#}")));
    let s = ron::ser::to_string_pretty(cfg.heuristic(), ron::ser::PrettyConfig::default().struct_names(true));
    println!("{}", s.unwrap_or_else(|e| format!("ERR {e}")));
    println!("{}", serde_json::to_string(cfg.heuristic()).unwrap());
}
