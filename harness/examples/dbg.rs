use std::sync::{Arc, Mutex};
use vharness::fixtures::{problems::*, run::*};
use mahf::State;
struct A;
impl<P: Instrumented> Audit<P> for A {
    fn step(&mut self, _p: &P, _s: &State<P>, ev: &StepEv) {
        println!("{:?} {} idx {}/{} block {:x} enclosing {:?} start {} end {}", ev.phase, ev.name, ev.index, ev.len, ev.block, ev.enclosing, ev.starts_main_pass, ev.ends_main_pass);
    }
}
fn main() {
    let t = Tpl::RealRs;
    let cfg = build_real(&t, 2).unwrap().unwrap();
    let p = RealP::new(2, -1.0, 1.0, RealKind::Sphere);
    let r = run_observed(&cfg, &p, 1, EvalKind::Sequential, Arc::new(Mutex::new(A)));
    println!("{:?}", r.is_ok());
}
